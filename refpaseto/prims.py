"""From-scratch primitives for the PASETO reference model (standard library only).
AES-256 (encrypt direction) + CTR with a 128-bit big-endian counter, ChaCha20 / HChaCha20 / XChaCha20,
Poly1305, XChaCha20-Poly1305, HKDF.  hashlib provides SHA-384/512, HMAC and keyed BLAKE2b."""
import hashlib
import hmac
import struct

# ----------------------------------------------------------------------------------------------
# AES
# ----------------------------------------------------------------------------------------------


def _xtime(a):
    a <<= 1
    if a & 0x100:
        a ^= 0x11B
    return a & 0xFF


def _gen_sbox():
    # multiplicative inverse via exp/log tables over generator 3
    exp = [0] * 512
    log = [0] * 256
    x = 1
    for i in range(255):
        exp[i] = x
        log[x] = i
        x ^= _xtime(x)  # multiply by 3
    for i in range(255, 512):
        exp[i] = exp[i - 255]
    sbox = [0] * 256
    for a in range(256):
        inv = 0 if a == 0 else exp[255 - log[a]]
        s = inv
        r = inv
        for _ in range(4):
            r = ((r << 1) | (r >> 7)) & 0xFF
            s ^= r
        sbox[a] = s ^ 0x63
    return sbox


SBOX = _gen_sbox()
assert SBOX[0] == 0x63 and SBOX[1] == 0x7C and SBOX[0x53] == 0xED

# T-tables for the encryption rounds
_T0 = []
for _a in range(256):
    _s = SBOX[_a]
    _s2 = _xtime(_s)
    _s3 = _s2 ^ _s
    _T0.append((_s2 << 24) | (_s << 16) | (_s << 8) | _s3)


def _ror32(x, n):
    return ((x >> n) | (x << (32 - n))) & 0xFFFFFFFF


_T1 = [_ror32(t, 8) for t in _T0]
_T2 = [_ror32(t, 16) for t in _T0]
_T3 = [_ror32(t, 24) for t in _T0]


def aes256_expand(key):
    assert len(key) == 32
    w = list(struct.unpack(">8I", key))
    rcon = 1
    for i in range(8, 60):
        t = w[i - 1]
        if i % 8 == 0:
            t = ((t << 8) | (t >> 24)) & 0xFFFFFFFF
            t = (SBOX[t >> 24] << 24) | (SBOX[(t >> 16) & 255] << 16) | (SBOX[(t >> 8) & 255] << 8) | SBOX[t & 255]
            t ^= rcon << 24
            rcon = _xtime(rcon)
        elif i % 8 == 4:
            t = (SBOX[t >> 24] << 24) | (SBOX[(t >> 16) & 255] << 16) | (SBOX[(t >> 8) & 255] << 8) | SBOX[t & 255]
        w.append(w[i - 8] ^ t)
    return w


def aes256_encrypt_block(w, block):
    s0, s1, s2, s3 = struct.unpack(">4I", block)
    s0 ^= w[0]
    s1 ^= w[1]
    s2 ^= w[2]
    s3 ^= w[3]
    T0, T1, T2, T3 = _T0, _T1, _T2, _T3
    k = 4
    for _ in range(13):
        t0 = T0[s0 >> 24] ^ T1[(s1 >> 16) & 255] ^ T2[(s2 >> 8) & 255] ^ T3[s3 & 255] ^ w[k]
        t1 = T0[s1 >> 24] ^ T1[(s2 >> 16) & 255] ^ T2[(s3 >> 8) & 255] ^ T3[s0 & 255] ^ w[k + 1]
        t2 = T0[s2 >> 24] ^ T1[(s3 >> 16) & 255] ^ T2[(s0 >> 8) & 255] ^ T3[s1 & 255] ^ w[k + 2]
        t3 = T0[s3 >> 24] ^ T1[(s0 >> 16) & 255] ^ T2[(s1 >> 8) & 255] ^ T3[s2 & 255] ^ w[k + 3]
        s0, s1, s2, s3 = t0, t1, t2, t3
        k += 4
    S = SBOX
    r0 = ((S[s0 >> 24] << 24) | (S[(s1 >> 16) & 255] << 16) | (S[(s2 >> 8) & 255] << 8) | S[s3 & 255]) ^ w[k]
    r1 = ((S[s1 >> 24] << 24) | (S[(s2 >> 16) & 255] << 16) | (S[(s3 >> 8) & 255] << 8) | S[s0 & 255]) ^ w[k + 1]
    r2 = ((S[s2 >> 24] << 24) | (S[(s3 >> 16) & 255] << 16) | (S[(s0 >> 8) & 255] << 8) | S[s1 & 255]) ^ w[k + 2]
    r3 = ((S[s3 >> 24] << 24) | (S[(s0 >> 16) & 255] << 16) | (S[(s1 >> 8) & 255] << 8) | S[s2 & 255]) ^ w[k + 3]
    return struct.pack(">4I", r0, r1, r2, r3)


# FIPS-197 appendix C.3 known answer
assert aes256_encrypt_block(aes256_expand(bytes(range(32))), bytes.fromhex("00112233445566778899aabbccddeeff")).hex() == "8ea2b7ca516745bfeafc49904b496089"


def aes256_ctr(key, iv, data):
    """AES-256-CTR as OpenSSL's aes-256-ctr: the whole 16-byte IV is a 128-bit big-endian counter."""
    assert len(iv) == 16
    w = aes256_expand(key)
    ctr = int.from_bytes(iv, "big")
    out = bytearray()
    for off in range(0, len(data), 16):
        ks = aes256_encrypt_block(w, (ctr & ((1 << 128) - 1)).to_bytes(16, "big"))
        chunk = data[off:off + 16]
        out += bytes(a ^ b for a, b in zip(chunk, ks))
        ctr += 1
    return bytes(out)


# ----------------------------------------------------------------------------------------------
# ChaCha20 family
# ----------------------------------------------------------------------------------------------
_M32 = 0xFFFFFFFF


def _chacha_rounds(x):
    def qr(a, b, c, d):
        x[a] = (x[a] + x[b]) & _M32
        x[d] ^= x[a]
        x[d] = ((x[d] << 16) | (x[d] >> 16)) & _M32
        x[c] = (x[c] + x[d]) & _M32
        x[b] ^= x[c]
        x[b] = ((x[b] << 12) | (x[b] >> 20)) & _M32
        x[a] = (x[a] + x[b]) & _M32
        x[d] ^= x[a]
        x[d] = ((x[d] << 8) | (x[d] >> 24)) & _M32
        x[c] = (x[c] + x[d]) & _M32
        x[b] ^= x[c]
        x[b] = ((x[b] << 7) | (x[b] >> 25)) & _M32

    for _ in range(10):
        qr(0, 4, 8, 12)
        qr(1, 5, 9, 13)
        qr(2, 6, 10, 14)
        qr(3, 7, 11, 15)
        qr(0, 5, 10, 15)
        qr(1, 6, 11, 12)
        qr(2, 7, 8, 13)
        qr(3, 4, 9, 14)


_SIGMA = struct.unpack("<4I", b"expand 32-byte k")


def chacha20_block(key, counter, nonce12):
    st = list(_SIGMA) + list(struct.unpack("<8I", key)) + [counter & _M32] + list(struct.unpack("<3I", nonce12))
    x = list(st)
    _chacha_rounds(x)
    return struct.pack("<16I", *[(a + b) & _M32 for a, b in zip(x, st)])


def hchacha20(key, nonce16):
    x = list(_SIGMA) + list(struct.unpack("<8I", key)) + list(struct.unpack("<4I", nonce16))
    _chacha_rounds(x)
    return struct.pack("<8I", *(x[0:4] + x[12:16]))


def chacha20_xor(key, nonce12, data, counter=0):
    out = bytearray()
    for off in range(0, len(data), 64):
        ks = chacha20_block(key, counter, nonce12)
        chunk = data[off:off + 64]
        out += bytes(a ^ b for a, b in zip(chunk, ks))
        counter += 1
    return bytes(out)


def xchacha20_xor(key, nonce24, data, counter=0):
    sub = hchacha20(key, nonce24[:16])
    return chacha20_xor(sub, b"\0\0\0\0" + nonce24[16:], data, counter)


# RFC 8439 2.3.2 block test vector
assert chacha20_block(bytes(range(32)), 1, bytes.fromhex("000000090000004a00000000")).hex().startswith("10f1e7e4d13b5915500fdd1fa32071c4")
# draft-irtf-cfrg-xchacha 2.2.1 HChaCha20 test vector
assert hchacha20(bytes(range(32)), bytes.fromhex("000000090000004a0000000031415927")).hex() == "82413b4227b27bfed30e42508a877d73a0f9e4d58a74a853c12ec41326d3ecdc"


def poly1305(key32, msg):
    r = int.from_bytes(key32[:16], "little") & 0x0FFFFFFC0FFFFFFC0FFFFFFC0FFFFFFF
    s = int.from_bytes(key32[16:], "little")
    p = (1 << 130) - 5
    acc = 0
    for off in range(0, len(msg), 16):
        blk = msg[off:off + 16]
        n = int.from_bytes(blk + b"\x01", "little")
        acc = (acc + n) * r % p
    return ((acc + s) & ((1 << 128) - 1)).to_bytes(16, "little")


assert poly1305(bytes.fromhex("85d6be7857556d337f4452fe42d506a80103808afb0db2fd4abff6af4149f51b"), b"Cryptographic Forum Research Group").hex() == "a8061dc1305136c6c22b8baf0c0127a9"


def _pad16(b):
    return b"\0" * ((16 - len(b) % 16) % 16)


def xchacha20poly1305_encrypt(key, nonce24, plaintext, aad):
    sub = hchacha20(key, nonce24[:16])
    n12 = b"\0\0\0\0" + nonce24[16:]
    otk = chacha20_block(sub, 0, n12)[:32]
    ct = chacha20_xor(sub, n12, plaintext, 1)
    mac = poly1305(otk, aad + _pad16(aad) + ct + _pad16(ct) + struct.pack("<QQ", len(aad), len(ct)))
    return ct + mac


def xchacha20poly1305_decrypt(key, nonce24, ct_and_tag, aad):
    if len(ct_and_tag) < 16:
        return None
    ct, tag = ct_and_tag[:-16], ct_and_tag[-16:]
    sub = hchacha20(key, nonce24[:16])
    n12 = b"\0\0\0\0" + nonce24[16:]
    otk = chacha20_block(sub, 0, n12)[:32]
    mac = poly1305(otk, aad + _pad16(aad) + ct + _pad16(ct) + struct.pack("<QQ", len(aad), len(ct)))
    if not hmac.compare_digest(mac, tag):
        return None
    return chacha20_xor(sub, n12, ct, 1)


# draft-irtf-cfrg-xchacha A.3.1 AEAD test vector
_pt = b"Ladies and Gentlemen of the class of '99: If I could offer you only one tip for the future, sunscreen would be it."
_ct = xchacha20poly1305_encrypt(bytes(range(0x80, 0xA0)), bytes(range(0x40, 0x58)), _pt, bytes.fromhex("50515253c0c1c2c3c4c5c6c7"))
assert _ct[:16].hex() == "bd6d179d3e83d43b9576579493c0e939" and _ct[-16:].hex() == "c0875924c1c7987947deafd8780acf49"


# ----------------------------------------------------------------------------------------------
# HKDF / HMAC / BLAKE2b
# ----------------------------------------------------------------------------------------------
def hmac_sha384(key, msg):
    return hmac.new(key, msg, hashlib.sha384).digest()


def hkdf_sha384(ikm, salt, info, length):
    if not salt:
        salt = b"\0" * 48
    prk = hmac_sha384(salt, ikm)
    okm = b""
    t = b""
    i = 1
    while len(okm) < length:
        t = hmac_sha384(prk, t + info + bytes([i]))
        okm += t
        i += 1
    return okm[:length]


def blake2b(data, key=b"", size=32):
    return hashlib.blake2b(data, key=key, digest_size=size).digest()
