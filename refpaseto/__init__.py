"""refpaseto — executable transcription of the PASETO specification (Version1-4.md, Common.md) in pure
Python (standard library only).  Independent of the implementation under test: no shared code, language
or crypto library.  Pinned to the official test vectors by refpaseto/selftest.py."""
import base64
import hmac
import struct

from . import prims as P
from . import asym as A


def b64e(b):
    return base64.urlsafe_b64encode(b).rstrip(b"=").decode("ascii")


def b64d(s):
    """strict: alphabet only, no padding, canonical trailing bits"""
    if isinstance(s, str):
        s = s.encode("ascii", "strict")
    if b"=" in s or len(s) % 4 == 1:
        raise ValueError("bad base64url")
    for c in s:
        if not (48 <= c <= 57 or 65 <= c <= 90 or 97 <= c <= 122 or c in (45, 95)):
            raise ValueError("bad base64url alphabet")
    raw = base64.urlsafe_b64decode(s + b"=" * (-len(s) % 4))
    if b64e(raw).encode() != s:
        raise ValueError("non-canonical base64url")
    return raw


def le64(n):
    return struct.pack("<Q", n & 0x7FFFFFFFFFFFFFFF)


def pae(pieces):
    out = le64(len(pieces))
    for p in pieces:
        out += le64(len(p)) + p
    return out


def _fmt(header, payload, footer):
    t = header + b64e(payload)
    if footer:
        t += "." + b64e(footer)
    return t


def _split(token, header, footer):
    """returns decoded payload; the token's footer (if any) must equal the expected footer"""
    if not token.startswith(header):
        raise ValueError("wrong header")
    parts = token.split(".")
    if len(parts) not in (3, 4):
        raise ValueError("wrong number of segments")
    tf = b64d(parts[3]) if len(parts) == 4 else b""
    if not hmac.compare_digest(tf, footer):
        raise ValueError("footer mismatch")
    return b64d(parts[2])


# ---------------------------------------------------------------------------------------------- local
def v1_local_encrypt(key, n_seed, m, f=b"", wire_nonce=None):
    h = "v1.local."
    n = wire_nonce if wire_nonce is not None else P.hmac_sha384(n_seed, m)[:32]
    ek = P.hkdf_sha384(key, n[:16], b"paseto-encryption-key", 32)
    ak = P.hkdf_sha384(key, n[:16], b"paseto-auth-key-for-aead", 32)
    c = P.aes256_ctr(ek, n[16:], m)
    t = P.hmac_sha384(ak, pae([h.encode(), n, c, f]))
    return _fmt(h, n + c + t, f)


def v1_local_decrypt(key, token, f=b""):
    h = "v1.local."
    raw = _split(token, h, f)
    if len(raw) < 80:
        raise ValueError("short")
    n, c, t = raw[:32], raw[32:-48], raw[-48:]
    ek = P.hkdf_sha384(key, n[:16], b"paseto-encryption-key", 32)
    ak = P.hkdf_sha384(key, n[:16], b"paseto-auth-key-for-aead", 32)
    if not hmac.compare_digest(t, P.hmac_sha384(ak, pae([h.encode(), n, c, f]))):
        raise ValueError("bad tag")
    return P.aes256_ctr(ek, n[16:], c)


def v2_local_encrypt(key, n_seed, m, f=b"", wire_nonce=None):
    h = "v2.local."
    n = wire_nonce if wire_nonce is not None else P.blake2b(m, key=n_seed, size=24)
    c = P.xchacha20poly1305_encrypt(key, n, m, pae([h.encode(), n, f]))
    return _fmt(h, n + c, f)


def v2_local_decrypt(key, token, f=b""):
    h = "v2.local."
    raw = _split(token, h, f)
    if len(raw) < 40:
        raise ValueError("short")
    n, c = raw[:24], raw[24:]
    m = P.xchacha20poly1305_decrypt(key, n, c, pae([h.encode(), n, f]))
    if m is None:
        raise ValueError("bad tag")
    return m


def _v3_keys(key, n):
    tmp = P.hkdf_sha384(key, b"", b"paseto-encryption-key" + n, 48)
    ak = P.hkdf_sha384(key, b"", b"paseto-auth-key-for-aead" + n, 48)
    return tmp[:32], tmp[32:], ak


def v3_local_encrypt(key, n, m, f=b"", i=b""):
    h = "v3.local."
    ek, n2, ak = _v3_keys(key, n)
    c = P.aes256_ctr(ek, n2, m)
    t = P.hmac_sha384(ak, pae([h.encode(), n, c, f, i]))
    return _fmt(h, n + c + t, f)


def v3_local_decrypt(key, token, f=b"", i=b""):
    h = "v3.local."
    raw = _split(token, h, f)
    if len(raw) < 80:
        raise ValueError("short")
    n, c, t = raw[:32], raw[32:-48], raw[-48:]
    ek, n2, ak = _v3_keys(key, n)
    if not hmac.compare_digest(t, P.hmac_sha384(ak, pae([h.encode(), n, c, f, i]))):
        raise ValueError("bad tag")
    return P.aes256_ctr(ek, n2, c)


def _v4_keys(key, n):
    tmp = P.blake2b(b"paseto-encryption-key" + n, key=key, size=56)
    ak = P.blake2b(b"paseto-auth-key-for-aead" + n, key=key, size=32)
    return tmp[:32], tmp[32:], ak


def v4_local_encrypt(key, n, m, f=b"", i=b""):
    h = "v4.local."
    ek, n2, ak = _v4_keys(key, n)
    c = P.xchacha20_xor(ek, n2, m)
    t = P.blake2b(pae([h.encode(), n, c, f, i]), key=ak, size=32)
    return _fmt(h, n + c + t, f)


def v4_local_decrypt(key, token, f=b"", i=b""):
    h = "v4.local."
    raw = _split(token, h, f)
    if len(raw) < 64:
        raise ValueError("short")
    n, c, t = raw[:32], raw[32:-32], raw[-32:]
    ek, n2, ak = _v4_keys(key, n)
    if not hmac.compare_digest(t, P.blake2b(pae([h.encode(), n, c, f, i]), key=ak, size=32)):
        raise ValueError("bad tag")
    return P.xchacha20_xor(ek, n2, c)


def local_encrypt(version, key, nonce, m, f=b"", i=b"", wire_nonce=None):
    if version == 1:
        return v1_local_encrypt(key, nonce, m, f, wire_nonce)
    if version == 2:
        return v2_local_encrypt(key, nonce, m, f, wire_nonce)
    if version == 3:
        return v3_local_encrypt(key, nonce if wire_nonce is None else wire_nonce, m, f, i)
    return v4_local_encrypt(key, nonce if wire_nonce is None else wire_nonce, m, f, i)


def local_decrypt(version, key, token, f=b"", i=b""):
    if version == 1:
        return v1_local_decrypt(key, token, f)
    if version == 2:
        return v2_local_decrypt(key, token, f)
    if version == 3:
        return v3_local_decrypt(key, token, f, i)
    return v4_local_decrypt(key, token, f, i)


# ---------------------------------------------------------------------------------------------- public
def public_m2(version, m, f, i, pk=None):
    h = ("v%d.public." % version).encode()
    if version in (1, 2):
        return pae([h, m, f])
    if version == 3:
        return pae([pk, h, m, f, i])
    return pae([h, m, f, i])


SIG_LEN = {1: 256, 2: 64, 3: 96, 4: 64}


def public_sign(version, sk, m, f=b"", i=b"", salt=None):
    """sk: v1 dict(n,e,d,..) ; v2/v4 64-byte seed||pk ; v3 48-byte scalar"""
    h = "v%d.public." % version
    if version == 1:
        sig = A.rsa_pss_sign(sk, public_m2(1, m, f, i), salt if salt is not None else b"\x5a" * 48)
    elif version in (2, 4):
        sig = A.ed25519_sign(sk[:32], public_m2(version, m, f, i))
    else:
        d = int.from_bytes(sk, "big")
        pk = A.p384_public(d)
        sig = A.ecdsa_p384_sign(d, public_m2(3, m, f, i, pk))
    return _fmt(h, m + sig, f)


def public_verify(version, pk, token, f=b"", i=b""):
    """pk: v1 (n, e) ; v2/v4 32 bytes ; v3 49-byte compressed point.  Returns the message or raises."""
    h = "v%d.public." % version
    raw = _split(token, h, f)
    sl = SIG_LEN[version]
    if len(raw) < sl:
        raise ValueError("short")
    m, sig = raw[:-sl], raw[-sl:]
    if version == 1:
        ok = A.rsa_pss_verify(pk[0], pk[1], public_m2(1, m, f, i), sig)
    elif version in (2, 4):
        ok = A.ed25519_verify(pk, public_m2(version, m, f, i), sig)
    else:
        ok = A.ecdsa_p384_verify(pk, public_m2(3, m, f, i, pk), sig)
    if not ok:
        raise ValueError("bad signature")
    return m
