"""From-scratch asymmetric primitives for the PASETO reference model (standard library only):
Ed25519 (RFC 8032), ECDSA P-384 with SHA-384 (+ RFC 6979 deterministic nonces), RSASSA-PSS
(SHA-384, MGF1-SHA-384, salt 48), minimal DER for PKCS#1 / PKCS#8 RSA keys, RSA key generation."""
import hashlib
import hmac

# ----------------------------------------------------------------------------------------------
# Ed25519 (RFC 8032, extended coordinates)
# ----------------------------------------------------------------------------------------------
_p = 2 ** 255 - 19
_L = 2 ** 252 + 27742317777372353535851937790883648493
_d = -121665 * pow(121666, -1, _p) % _p
_I = pow(2, (_p - 1) // 4, _p)


def _ed_add(P, Q):
    A = (P[1] - P[0]) * (Q[1] - Q[0]) % _p
    B = (P[1] + P[0]) * (Q[1] + Q[0]) % _p
    C = 2 * P[3] * Q[3] * _d % _p
    D = 2 * P[2] * Q[2] % _p
    E, F, G, H = B - A, D - C, D + C, B + A
    return (E * F % _p, G * H % _p, F * G % _p, E * H % _p)


def _ed_mul(s, P):
    Q = (0, 1, 1, 0)
    while s > 0:
        if s & 1:
            Q = _ed_add(Q, P)
        P = _ed_add(P, P)
        s >>= 1
    return Q


def _ed_recover_x(y, sign):
    if y >= _p:
        return None
    x2 = (y * y - 1) * pow(_d * y * y + 1, -1, _p) % _p
    if x2 == 0:
        return None if sign else 0
    x = pow(x2, (_p + 3) // 8, _p)
    if (x * x - x2) % _p != 0:
        x = x * _I % _p
    if (x * x - x2) % _p != 0:
        return None
    if (x & 1) != sign:
        x = _p - x
    return x


_gy = 4 * pow(5, -1, _p) % _p
_gx = _ed_recover_x(_gy, 0)
_G = (_gx, _gy, 1, _gx * _gy % _p)


def _ed_compress(P):
    zinv = pow(P[2], -1, _p)
    x, y = P[0] * zinv % _p, P[1] * zinv % _p
    return int.to_bytes(y | ((x & 1) << 255), 32, "little")


def _ed_decompress(s):
    if len(s) != 32:
        return None
    y = int.from_bytes(s, "little")
    sign = y >> 255
    y &= (1 << 255) - 1
    x = _ed_recover_x(y, sign)
    if x is None:
        return None
    return (x, y, 1, x * y % _p)


def _ed_expand(seed):
    h = hashlib.sha512(seed).digest()
    a = int.from_bytes(h[:32], "little")
    a &= (1 << 254) - 8
    a |= 1 << 254
    return a, h[32:]


def ed25519_public(seed):
    a, _ = _ed_expand(seed)
    return _ed_compress(_ed_mul(a, _G))


def ed25519_sign(seed, msg):
    a, prefix = _ed_expand(seed)
    A = _ed_compress(_ed_mul(a, _G))
    r = int.from_bytes(hashlib.sha512(prefix + msg).digest(), "little") % _L
    R = _ed_compress(_ed_mul(r, _G))
    h = int.from_bytes(hashlib.sha512(R + A + msg).digest(), "little") % _L
    s = (r + h * a) % _L
    return R + int.to_bytes(s, 32, "little")


def _ed_equal(P, Q):
    return (P[0] * Q[2] - Q[0] * P[2]) % _p == 0 and (P[1] * Q[2] - Q[1] * P[2]) % _p == 0


def ed25519_verify(public, msg, sig):
    if len(public) != 32 or len(sig) != 64:
        return False
    A = _ed_decompress(public)
    R = _ed_decompress(sig[:32])
    if A is None or R is None:
        return False
    s = int.from_bytes(sig[32:], "little")
    if s >= _L:
        return False
    h = int.from_bytes(hashlib.sha512(sig[:32] + public + msg).digest(), "little") % _L
    return _ed_equal(_ed_mul(s, _G), _ed_add(R, _ed_mul(h, A)))


# RFC 8032 7.1 TEST 2
_s = bytes.fromhex("4ccd089b28ff96da9db6c346ec114e0f5b8a319f35aba624da8cf6ed4fb8a6fb")
assert ed25519_public(_s).hex() == "3d4017c3e843895a92b70aa74d1b7ebc9c982ccf2ec4968cc0cd55f12af4660c"
assert ed25519_sign(_s, bytes.fromhex("72")).hex().startswith("92a009a9f0d4cab8720e820b5f642540a2b27b5416503f8fb3762223ebdb69da")
assert ed25519_verify(ed25519_public(_s), bytes.fromhex("72"), ed25519_sign(_s, bytes.fromhex("72")))

# ----------------------------------------------------------------------------------------------
# P-384 / ECDSA
# ----------------------------------------------------------------------------------------------
P384_P = 2 ** 384 - 2 ** 128 - 2 ** 96 + 2 ** 32 - 1
P384_A = P384_P - 3
P384_B = 0xB3312FA7E23EE7E4988E056BE3F82D19181D9C6EFE8141120314088F5013875AC656398D8A2ED19D2A85C8EDD3EC2AEF
P384_N = 0xFFFFFFFFFFFFFFFFFFFFFFFFFFFFFFFFFFFFFFFFFFFFFFFFC7634D81F4372DDF581A0DB248B0A77AECEC196ACCC52973
P384_GX = 0xAA87CA22BE8B05378EB1C71EF320AD746E1D3B628BA79B9859F741E082542A385502F25DBF55296C3A545E3872760AB7
P384_GY = 0x3617DE4A96262C6F5D9E98BF9292DC29F8F41DBD289A147CE9DA3113B5F0B8C00A60B1CE1D7E819D7A431D7C90EA0E5F


def _jdouble(P):
    X, Y, Z = P
    if Y == 0 or Z == 0:
        return (0, 1, 0)
    p = P384_P
    S = 4 * X * Y * Y % p
    Z2 = Z * Z % p
    M = 3 * (X - Z2) * (X + Z2) % p  # a = -3
    X3 = (M * M - 2 * S) % p
    Y3 = (M * (S - X3) - 8 * pow(Y, 4, p)) % p
    Z3 = 2 * Y * Z % p
    return (X3, Y3, Z3)


def _jadd(P, Q):
    if P[2] == 0:
        return Q
    if Q[2] == 0:
        return P
    p = P384_P
    X1, Y1, Z1 = P
    X2, Y2, Z2 = Q
    Z1Z1 = Z1 * Z1 % p
    Z2Z2 = Z2 * Z2 % p
    U1 = X1 * Z2Z2 % p
    U2 = X2 * Z1Z1 % p
    S1 = Y1 * Z2 * Z2Z2 % p
    S2 = Y2 * Z1 * Z1Z1 % p
    if U1 == U2:
        if S1 != S2:
            return (0, 1, 0)
        return _jdouble(P)
    H = (U2 - U1) % p
    R = (S2 - S1) % p
    H2 = H * H % p
    H3 = H * H2 % p
    U1H2 = U1 * H2 % p
    X3 = (R * R - H3 - 2 * U1H2) % p
    Y3 = (R * (U1H2 - X3) - S1 * H3) % p
    Z3 = H * Z1 * Z2 % p
    return (X3, Y3, Z3)


def _jmul(k, P):
    R = (0, 1, 0)
    Q = (P[0], P[1], 1)
    while k > 0:
        if k & 1:
            R = _jadd(R, Q)
        Q = _jdouble(Q)
        k >>= 1
    return R


def _affine(P):
    if P[2] == 0:
        return None
    zi = pow(P[2], -1, P384_P)
    return (P[0] * zi * zi % P384_P, P[1] * zi * zi * zi % P384_P)


def p384_on_curve(x, y):
    return (y * y - (x * x * x + P384_A * x + P384_B)) % P384_P == 0


def p384_decompress(pk49):
    if len(pk49) != 49 or pk49[0] not in (2, 3):
        return None
    x = int.from_bytes(pk49[1:], "big")
    if x >= P384_P:
        return None
    rhs = (x * x * x + P384_A * x + P384_B) % P384_P
    y = pow(rhs, (P384_P + 1) // 4, P384_P)  # p = 3 (mod 4)
    if y * y % P384_P != rhs:
        return None
    if (y & 1) != (pk49[0] & 1):
        y = P384_P - y
    return (x, y)


def p384_public(d):
    x, y = _affine(_jmul(d, (P384_GX, P384_GY)))
    return bytes([2 + (y & 1)]) + x.to_bytes(48, "big")


def _rfc6979_k(d, h1):
    q = P384_N
    holen = 48

    def bits2int(b):
        v = int.from_bytes(b, "big")
        bl = len(b) * 8
        return v >> (bl - 384) if bl > 384 else v

    def int2octets(x):
        return x.to_bytes(48, "big")

    def bits2octets(b):
        z = bits2int(b) % q
        return int2octets(z)

    V = b"\x01" * holen
    K = b"\x00" * holen
    K = hmac.new(K, V + b"\x00" + int2octets(d) + bits2octets(h1), hashlib.sha384).digest()
    V = hmac.new(K, V, hashlib.sha384).digest()
    K = hmac.new(K, V + b"\x01" + int2octets(d) + bits2octets(h1), hashlib.sha384).digest()
    V = hmac.new(K, V, hashlib.sha384).digest()
    while True:
        T = b""
        while len(T) < 48:
            V = hmac.new(K, V, hashlib.sha384).digest()
            T += V
        k = bits2int(T)
        if 1 <= k < q:
            return k
        K = hmac.new(K, V + b"\x00", hashlib.sha384).digest()
        V = hmac.new(K, V, hashlib.sha384).digest()


def ecdsa_p384_sign(d, msg, k=None):
    h1 = hashlib.sha384(msg).digest()
    e = int.from_bytes(h1, "big") % P384_N
    while True:
        kk = k if k is not None else _rfc6979_k(d, h1)
        x, _ = _affine(_jmul(kk, (P384_GX, P384_GY)))
        r = x % P384_N
        s = pow(kk, -1, P384_N) * (e + r * d) % P384_N
        if r != 0 and s != 0:
            return r.to_bytes(48, "big") + s.to_bytes(48, "big")
        if k is not None:
            raise ValueError("bad nonce")


def ecdsa_p384_verify(pk49, msg, sig):
    if len(sig) != 96:
        return False
    Q = p384_decompress(pk49)
    if Q is None:
        return False
    r = int.from_bytes(sig[:48], "big")
    s = int.from_bytes(sig[48:], "big")
    if not (1 <= r < P384_N and 1 <= s < P384_N):
        return False
    e = int.from_bytes(hashlib.sha384(msg).digest(), "big") % P384_N
    w = pow(s, -1, P384_N)
    u1, u2 = e * w % P384_N, r * w % P384_N
    R = _affine(_jadd(_jmul(u1, (P384_GX, P384_GY)), _jmul(u2, Q)))
    return R is not None and R[0] % P384_N == r


assert p384_on_curve(P384_GX, P384_GY)
# RFC 6979 A.2.6 (P-384, SHA-384, message "sample")
_x = 0x6B9D3DAD2E1B8C1C05B19875B6659F4DE23C3B667BF297BA9AA47740787137D896D5724E4C70A825F872C9EA60D2EDF5
_sg = ecdsa_p384_sign(_x, b"sample")
assert _sg[:48].hex().upper() == "94EDBB92A5ECB8AAD4736E56C691916B3F88140666CE9FA73D64C4EA95AD133C81A648152E44ACF96E36DD1E80FABE46"
assert _sg[48:].hex().upper() == "99EF4AEB15F178CEA1FE40DB2603138F130E740A19624526203B6351D0A3A94FA329C145786E679E7B82C71A38628AC8"
assert ecdsa_p384_verify(p384_public(_x), b"sample", _sg)


# ----------------------------------------------------------------------------------------------
# DER (just enough for PKCS#1 / PKCS#8 RSA keys)
# ----------------------------------------------------------------------------------------------
def _der_read(b, off):
    tag = b[off]
    ln = b[off + 1]
    off += 2
    if ln & 0x80:
        n = ln & 0x7F
        ln = int.from_bytes(b[off:off + n], "big")
        off += n
    return tag, b[off:off + ln], off + ln


def _der_seq_items(content):
    items = []
    off = 0
    while off < len(content):
        tag, val, off = _der_read(content, off)
        items.append((tag, val))
    return items


def _der_len(n):
    if n < 0x80:
        return bytes([n])
    b = n.to_bytes((n.bit_length() + 7) // 8, "big")
    return bytes([0x80 | len(b)]) + b


def _der_tlv(tag, val):
    return bytes([tag]) + _der_len(len(val)) + val


def _der_int(x):
    b = x.to_bytes(max(1, (x.bit_length() + 8) // 8), "big")  # leading 0 when the top bit is set
    return _der_tlv(0x02, b)


def rsa_public_from_der(der):
    """PKCS#1 RSAPublicKey ::= SEQUENCE { n, e }"""
    tag, content, _ = _der_read(der, 0)
    assert tag == 0x30
    items = _der_seq_items(content)
    return int.from_bytes(items[0][1], "big"), int.from_bytes(items[1][1], "big")


def rsa_private_from_pkcs8(der):
    tag, content, _ = _der_read(der, 0)
    assert tag == 0x30
    items = _der_seq_items(content)
    # version, algorithm, privateKey OCTET STRING
    octets = [v for t, v in items if t == 0x04][0]
    tag, inner, _ = _der_read(octets, 0)
    ints = [int.from_bytes(v, "big") for t, v in _der_seq_items(inner)]
    # version, n, e, d, p, q, dp, dq, qinv
    return {"n": ints[1], "e": ints[2], "d": ints[3], "p": ints[4], "q": ints[5]}


def rsa_public_to_der(n, e):
    return _der_tlv(0x30, _der_int(n) + _der_int(e))


def rsa_private_to_pkcs8(n, e, d, p, q):
    dp, dq, qinv = d % (p - 1), d % (q - 1), pow(q, -1, p)
    rsapriv = _der_tlv(0x30, b"".join(_der_int(x) for x in (0, n, e, d, p, q, dp, dq, qinv)))
    alg = _der_tlv(0x30, bytes.fromhex("06092a864886f70d010101") + bytes.fromhex("0500"))
    return _der_tlv(0x30, _der_int(0) + alg + _der_tlv(0x04, rsapriv))


# ----------------------------------------------------------------------------------------------
# RSASSA-PSS (SHA-384, MGF1-SHA-384, sLen = 48)
# ----------------------------------------------------------------------------------------------
def _mgf1(seed, n):
    out = b""
    c = 0
    while len(out) < n:
        out += hashlib.sha384(seed + c.to_bytes(4, "big")).digest()
        c += 1
    return out[:n]


def rsa_pss_sign(priv, msg, salt):
    n = priv["n"]
    mod_bits = n.bit_length()
    em_bits = mod_bits - 1
    em_len = (em_bits + 7) // 8
    mhash = hashlib.sha384(msg).digest()
    H = hashlib.sha384(b"\0" * 8 + mhash + salt).digest()
    ps = b"\0" * (em_len - len(salt) - 48 - 2)
    db = ps + b"\x01" + salt
    mask = _mgf1(H, em_len - 48 - 1)
    masked = bytearray(a ^ b for a, b in zip(db, mask))
    masked[0] &= 0xFF >> (8 * em_len - em_bits)
    em = bytes(masked) + H + b"\xbc"
    s = pow(int.from_bytes(em, "big"), priv["d"], n)
    return s.to_bytes((mod_bits + 7) // 8, "big")


def rsa_pss_verify(n, e, msg, sig, salt_len=48):
    k = (n.bit_length() + 7) // 8
    if len(sig) != k:
        return False
    s = int.from_bytes(sig, "big")
    if s >= n:
        return False
    em_bits = n.bit_length() - 1
    em_len = (em_bits + 7) // 8
    m = pow(s, e, n)
    try:
        em = m.to_bytes(em_len, "big")
    except OverflowError:
        return False
    if em[-1] != 0xBC or em_len < 48 + salt_len + 2:
        return False
    masked, H = em[:em_len - 48 - 1], em[em_len - 48 - 1:-1]
    if masked[0] & (0xFF << (8 - (8 * em_len - em_bits))) & 0xFF:
        return False
    db = bytearray(a ^ b for a, b in zip(masked, _mgf1(H, em_len - 48 - 1)))
    db[0] &= 0xFF >> (8 * em_len - em_bits)
    ps_len = em_len - 48 - salt_len - 2
    if any(db[:ps_len]) or db[ps_len] != 1:
        return False
    salt = bytes(db[-salt_len:]) if salt_len else b""
    mhash = hashlib.sha384(msg).digest()
    return hashlib.sha384(b"\0" * 8 + mhash + salt).digest() == H


# ----------------------------------------------------------------------------------------------
# RSA key generation (deterministic from a seed; used once to create the fixture pool)
# ----------------------------------------------------------------------------------------------
class _Drbg:
    def __init__(self, seed):
        self.k = hashlib.sha512(seed).digest()
        self.c = 0

    def bytes(self, n):
        out = b""
        while len(out) < n:
            out += hashlib.sha512(self.k + self.c.to_bytes(8, "big")).digest()
            self.c += 1
        return out[:n]

    def below(self, n):
        nb = (n.bit_length() + 7) // 8 + 8
        return int.from_bytes(self.bytes(nb), "big") % n


_SMALL_PRIMES = [p for p in range(3, 2000, 2) if all(p % q for q in range(3, int(p ** 0.5) + 1, 2))]


def _is_probable_prime(n, drbg, rounds=40):
    if n < 2:
        return False
    for p in [2] + _SMALL_PRIMES:
        if n % p == 0:
            return n == p
    d, r = n - 1, 0
    while d % 2 == 0:
        d //= 2
        r += 1
    for _ in range(rounds):
        a = 2 + drbg.below(n - 3)
        x = pow(a, d, n)
        if x in (1, n - 1):
            continue
        for _ in range(r - 1):
            x = x * x % n
            if x == n - 1:
                break
        else:
            return False
    return True


def rsa_generate(seed, bits=2048, e=65537):
    drbg = _Drbg(seed)
    half = bits // 2

    def prime():
        while True:
            c = int.from_bytes(drbg.bytes(half // 8), "big")
            c |= (3 << (half - 2)) | 1  # top two bits set so that p*q has exactly `bits` bits
            if c % e == 1:
                continue
            if _is_probable_prime(c, drbg):
                return c

    while True:
        p, q = prime(), prime()
        if p == q:
            continue
        if p < q:
            p, q = q, p
        n = p * q
        if n.bit_length() != bits:
            continue
        lam = (p - 1) * (q - 1)
        try:
            d = pow(e, -1, lam)
        except ValueError:
            continue
        return {"n": n, "e": e, "d": d, "p": p, "q": q}
