#!/usr/bin/env python3
"""Pins the reference model to the official PASETO test vectors (fixtures/official_vectors.json, transcribed
from /repo/tests/version{1,2,3,4}_test_vectors.rs at the pinned commit).  Exit 0 iff every vector is reproduced:
local tokens byte-identical and decrypting back, public tokens verifying, Ed25519 / deterministic ECDSA
tokens byte-identical, RSA-PSS sign->verify round trip with the official key."""
import json
import os
import sys

HERE = os.path.dirname(os.path.abspath(__file__))
sys.path.insert(0, os.path.dirname(HERE))
import refpaseto as R  # noqa: E402
from refpaseto import asym as A  # noqa: E402


def main():
    fx = os.path.join(os.path.dirname(HERE), "fixtures")
    vecs = json.load(open(os.path.join(fx, "official_vectors.json"), encoding="utf-8"))
    bad = 0
    n = 0
    for v in vecs:
        n += 1
        ver = v["version"]
        m = v["payload"].encode()
        f = v["footer"].encode()
        i = v.get("implicit_assertion", "").encode()
        try:
            if v["purpose"] == "local":
                tok = R.local_encrypt(ver, bytes.fromhex(v["key"]), bytes.fromhex(v["nonce"]), m, f, i)
                back = R.local_decrypt(ver, bytes.fromhex(v["key"]), v["token"], f, i)
                ok = tok == v["token"] and back == m
            elif ver == 1:
                sk = A.rsa_private_from_pkcs8(open(os.path.join(fx, v["secret_key_pk8_file"]), "rb").read())
                pk = A.rsa_public_from_der(open(os.path.join(fx, v["public_key_der_file"]), "rb").read())
                tok = R.public_sign(1, sk, m, f, i)
                ok = R.public_verify(1, pk, tok, f, i) == m and sk["n"] == pk[0]
            else:
                sk = bytes.fromhex(v["secret_key"])
                pk = bytes.fromhex(v["public_key"])
                tok = R.public_sign(ver, sk, m, f, i)
                ok = R.public_verify(ver, pk, v["token"], f, i) == m and tok == v["token"]
                if ver in (2, 4):
                    ok = ok and A.ed25519_public(sk[:32]) == pk
                else:
                    ok = ok and A.p384_public(int.from_bytes(sk, "big")) == pk
        except Exception as e:  # noqa
            ok = False
            print("  %s raised %r" % (v["name"], e))
        if not ok:
            bad += 1
            print("MISMATCH %s" % v["name"])
    print("refpaseto selftest: %d vectors, %d mismatches" % (n, bad))
    return 1 if bad or n < 48 else 0


if __name__ == "__main__":
    sys.exit(main())
