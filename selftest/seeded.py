#!/usr/bin/env python3
"""Confirm and evaluate sub-agent seeded changes.
   seeded.py confirm <ID> <a|b>     : confirm the change independently (demo passes on the clean tree; with the change: builds with
                                      default and all features, the 36 pinned tests pass, demo fails), then run the checks against it,
                                      and store it as /verif/seeded/<ID>-<a|b>/ (patch.diff, demo.rs, notes.md, meta.json)
   seeded.py rerun [<name>...]      : re-run the checks against stored seeded changes (after strengthening a check)
Uses a scratch worktree (VERIF_SCRATCH, default /tmp/vscratch) through VERIF_REPO; /repo itself is not touched."""
import json, os, shutil, subprocess, sys, time
HERE = os.path.dirname(os.path.abspath(__file__)); VERIF = os.path.dirname(HERE)
SCRATCH = os.environ.get("VERIF_SCRATCH", "/tmp/vscratch")
HOLD = "/tmp/seed_demo_hold_%d.rs" % os.getpid()
ALLF = "batteries_included,v1_local,v2_local,v3_local,v4_local,v1_public,v2_public,v3_public,v4_public"
ALL_CHECKS = ["C01","C02","C03","C04","C05","C06","C07","C08","C09","C10","C11","C12","C13","C14","C15","C16","C17","C18"]

def sh(cmd, timeout=3600):
    return subprocess.run(cmd, shell=True, capture_output=True, text=True, timeout=timeout)

def ensure():
    if not os.path.isdir(SCRATCH):
        r = sh("git -C /repo worktree add -q --detach %s HEAD" % SCRATCH)
        assert r.returncode == 0, r.stderr
    head = sh("git -C /repo rev-parse HEAD").stdout.strip()
    sh("git -C %s checkout -q --detach %s; git -C %s checkout -- .; git -C %s clean -fdq -e target -e Cargo.lock; rm -f %s/tests/seed_demo.rs" % (SCRATCH, head, SCRATCH, SCRATCH, SCRATCH))
    shutil.copy("/repo/Cargo.lock", os.path.join(SCRATCH, "Cargo.lock"))
    return head

def demo(features_all=True):
    f = "--no-default-features --features %s" % ALLF if features_all else ""
    r = sh("cd %s && cargo test --offline %s --test seed_demo 2>&1" % (SCRATCH, f))
    # the exit status of cargo test decides; "running 0 tests" (a demo compiled away by cfg) does not count as a pass
    ran = [int(x) for x in __import__("re").findall(r"running (\d+) tests?", r.stdout)]
    ok = r.returncode == 0 and sum(ran) > 0
    return ok, r.stdout[-1500:]

def run_checks(props, tier="quick"):
    res = {}
    try:
        for p in props:
            env = dict(os.environ); env["VERIF_REPO"] = SCRATCH; env["VERIF_EVIDENCE_DIR"] = "/tmp/vselftest_evidence"
            t = time.time()
            r = subprocess.run([os.path.join(VERIF, "check"), p, tier], capture_output=True, text=True, env=env, cwd=VERIF)
            first = ""
            ls = r.stdout.splitlines()
            for i, l in enumerate(ls):
                if l.startswith("VIOLATION"):
                    first = (ls[i + 1].strip() if i + 1 < len(ls) else "")[:300]
                    break
            if r.returncode == 2:
                first = "; ".join(l for l in ls if l.startswith("INCONCLUSIVE"))[:300]
            res[p] = {"exit": r.returncode, "first": first, "secs": round(time.time() - t, 1)}
            print("   %s exit=%d %.0fs %s" % (p, r.returncode, time.time() - t, first[:160])); sys.stdout.flush()
    finally:
        pass
    return res

def confirm(pid, which, checks=None, stored=False):
    src = "%s/%s/out" % (os.environ.get("SEED_SRC", "/tmp/seed"), pid)
    # round 2 deliverables are also called a/b: SEED_RENAME=a:c,b:d stores them as <ID>-c / <ID>-d
    ren = dict(x.split(":") for x in os.environ.get("SEED_RENAME", "").split(",") if ":" in x)
    name = "%s-%s" % (pid, ren.get(which, which))
    if stored:
        # re-confirm a change from its stored copy (/verif/seeded/<ID>-<x>/patch.diff, demo.rs, notes.md)
        name = "%s-%s" % (pid, which)
        stage = "/tmp/vseeded_stage_%s" % name
        shutil.rmtree(stage, ignore_errors=True); os.makedirs(stage)
        d0 = os.path.join(VERIF, "seeded", name)
        shutil.copy(os.path.join(d0, "patch.diff"), os.path.join(stage, "%s.diff" % which))
        shutil.copy(os.path.join(d0, "demo.rs"), os.path.join(stage, "%s_demo.rs" % which))
        if os.path.exists(os.path.join(d0, "notes.md")):
            shutil.copy(os.path.join(d0, "notes.md"), os.path.join(stage, "%s.md" % which))
        src = stage
        old_meta = json.load(open(os.path.join(d0, "meta.json")))
        ren = {"x": "x"} if old_meta.get("round", 1) >= 2 else {}
        os.environ.setdefault("SEED_ROUND", str(old_meta.get("round", 1)))
    head = ensure()
    meta = {"name": name, "breaks_property": pid, "round": int(os.environ.get("SEED_ROUND", 2 if ren else 1)), "source": "independent sub-agent given only the property text and a scratch worktree" + (" (later round: also told which changes had been tried before)" if ren else ""), "repo_head": head, "confirmation": {}}
    shutil.copy(os.path.join(src, "%s_demo.rs" % which), os.path.join(SCRATCH, "tests", "seed_demo.rs"))
    ok_clean, out_clean = demo()
    meta["confirmation"]["demo_passes_on_unmodified_tree"] = ok_clean
    r = sh("git -C %s apply %s" % (SCRATCH, os.path.join(src, "%s.diff" % which)))
    if r.returncode != 0:
        # the sub-agent's worktree may be a few (hook) commits behind /repo: fall back to a 3-way apply
        r = sh("git -C %s apply --3way %s && git -C %s reset -q" % (SCRATCH, os.path.join(src, "%s.diff" % which), SCRATCH))
        meta["confirmation"]["applied_3way"] = r.returncode == 0
    meta["confirmation"]["patch_applies"] = r.returncode == 0
    rebased = sh("git -C %s diff" % SCRATCH).stdout
    b1 = sh("cd %s && cargo build --offline 2>&1 | tail -3" % SCRATCH)
    b2 = sh("cd %s && cargo build --offline --no-default-features --features %s 2>&1 | tail -3" % (SCRATCH, ALLF))
    meta["confirmation"]["builds_default_features"] = "Finished" in b1.stdout
    meta["confirmation"]["builds_all_features"] = "Finished" in b2.stdout
    shutil.move(os.path.join(SCRATCH, "tests", "seed_demo.rs"), HOLD)
    t = sh("cd %s && cargo nextest run --workspace --no-fail-fast --test-threads 8 --offline 2>&1 | tail -3" % SCRATCH)
    meta["confirmation"]["pinned_tests"] = t.stdout.strip().splitlines()[-1] if t.stdout.strip() else t.stderr[-200:]
    meta["confirmation"]["pinned_tests_pass"] = "36 passed" in t.stdout
    shutil.move(HOLD, os.path.join(SCRATCH, "tests", "seed_demo.rs"))
    ok_mut, out_mut = demo()
    meta["confirmation"]["demo_fails_with_change"] = not ok_mut
    os.remove(os.path.join(SCRATCH, "tests", "seed_demo.rs"))
    print(name, json.dumps(meta["confirmation"]))
    good = all([ok_clean, meta["confirmation"]["patch_applies"], meta["confirmation"]["builds_default_features"], meta["confirmation"]["builds_all_features"], meta["confirmation"]["pinned_tests_pass"], not ok_mut])
    meta["kept"] = good
    if not good:
        print("   NOT CONFIRMED"); print(out_clean[-600:] if not ok_clean else out_mut[-600:])
    checks = checks or ALL_CHECKS
    meta["checks_quick"] = run_checks(checks) if good else {}
    meta["caught_by"] = sorted(p for p, c in meta["checks_quick"].items() if c["exit"] == 1)
    meta["what_was_run"] = "selftest/seeded.py confirm %s %s: demo on clean tree, git apply, cargo build (default, all features), cargo nextest (36 pinned tests), demo with change, then ./check <ID> quick for %s with VERIF_REPO=scratch" % (pid, which, ",".join(checks))
    d = os.path.join(VERIF, "seeded", name)
    os.makedirs(d, exist_ok=True)
    shutil.copy(os.path.join(src, "%s.diff" % which), os.path.join(d, "patch.diff"))
    if meta["confirmation"].get("applied_3way") and rebased:
        open(os.path.join(d, "patch.diff"), "w").write(rebased)
    shutil.copy(os.path.join(src, "%s_demo.rs" % which), os.path.join(d, "demo.rs"))
    if os.path.exists(os.path.join(src, "%s.md" % which)):
        shutil.copy(os.path.join(src, "%s.md" % which), os.path.join(d, "notes.md"))
        meta["needs_to_manifest"] = "see notes.md (written by the sub-agent)"
    json.dump(meta, open(os.path.join(d, "meta.json"), "w"), indent=1)
    sh("git -C %s checkout -- .; git -C %s clean -fdq -e target -e Cargo.lock" % (SCRATCH, SCRATCH))
    print("   => caught by:", meta["caught_by"], "| target", pid, "caught" if pid in meta["caught_by"] else "MISSED")

def rerun(names, tier="quick", only_target=False):
    base = os.path.join(VERIF, "seeded")
    for name in names or sorted(os.listdir(base)):
        d = os.path.join(base, name)
        meta = json.load(open(os.path.join(d, "meta.json")))
        if not meta.get("kept"):
            continue
        ensure()
        r = sh("git -C %s apply %s" % (SCRATCH, os.path.join(d, "patch.diff")))
        if r.returncode != 0:
            print(name, "patch no longer applies:", r.stderr[:200]); continue
        print(name)
        props = [meta["breaks_property"]] if only_target else ALL_CHECKS
        res = run_checks(props, tier)
        # runs at another VERIF_SEED are kept side by side (a catch must not depend on the seed)
        sd = os.environ.get("VERIF_SEED", "1")
        key = "checks_%s" % tier if sd == "1" else "checks_%s_seed%s" % (tier, sd)
        meta.setdefault(key, {}).update(res)
        meta["caught_by"] = sorted(p for p, c in meta["checks_quick"].items() if c["exit"] == 1)
        json.dump(meta, open(os.path.join(d, "meta.json"), "w"), indent=1)
        sh("git -C %s checkout -- .; git -C %s clean -fdq -e target -e Cargo.lock" % (SCRATCH, SCRATCH))
        print("   => caught by:", meta["caught_by"], "| this run (seed %s):" % sd, sorted(p for p, c in res.items() if c["exit"] == 1))

if __name__ == "__main__":
    if sys.argv[1] == "confirm":
        confirm(sys.argv[2], sys.argv[3], sys.argv[4].split(",") if len(sys.argv) > 4 else None)
    elif sys.argv[1] == "reconfirm":
        # reconfirm <ID>-<x> : from the stored copy
        pid, which = sys.argv[2].rsplit("-", 1)
        confirm(pid, which, None, stored=True)
    elif sys.argv[1] == "rerun":
        args = sys.argv[2:]
        only = "--target" in args
        args = [a for a in args if a != "--target"]
        rerun(args, only_target=only)
