"""Mutation catalogue used to show that each monitor can fire (DESIGN.md section 8).
Each mutant = (id, property ids it must trip, description, [(file, old, new), ...]); edits are exact
string replacements against the current /repo tree (the runner refuses a mutant whose 'old' text is not
found exactly once, so the catalogue cannot silently rot)."""

M = []


def m(mid, props, desc, edits):
    M.append({"id": mid, "props": props, "desc": desc, "edits": edits})


# ---- C01 / C06: upper-layer parser drops the implicit assertion (v3 local) ------------------------------
m("c01-v3l-parser-drops-assertion", ["C01", "C06"], "GenericParser<V3,Local>::parse passes no implicit assertion to try_decrypt",
  [("src/generic/parsers/generic_parser.rs",
    "      Paseto::<V3, Local>::try_decrypt(potential_token, key, self.get_footer(), self.get_implicit_assertion())?;",
    "      Paseto::<V3, Local>::try_decrypt(potential_token, key, self.get_footer(), None)?;")])

# ---- C01: v1 builder forgets the footer -------------------------------------------------------------------
m("c01-v1l-builder-drops-footer", ["C01", "C05"], "GenericBuilder<V1,Local>::try_encrypt no longer forwards the footer",
  [("src/generic/builders/generic_builder.rs",
    """        let payload = self.build_payload_from_claims()?;
        token_builder.set_payload(Payload::from(payload.as_str()));
        if let Some(footer) = &self.footer {
            token_builder.set_footer(*footer);
        }
        let random_nonce = Key::<32>::try_new_random()?;""",
    """        let payload = self.build_payload_from_claims()?;
        token_builder.set_payload(Payload::from(payload.as_str()));
        let random_nonce = Key::<32>::try_new_random()?;""")])

# ---- C02: v2 public verify slices the message one byte short ----------------------------------------------
m("c02-v2p-verify-offset", ["C02"], "v2.public try_verify takes the message as len-65",
  [("src/core/paseto_impl/v2_public.rs",
    "        let msg = decoded_payload[..(decoded_payload.len() - ed25519_dalek::SIGNATURE_LENGTH)].as_ref();\n        let sig = decoded_payload[msg.len()..msg.len() + ed25519_dalek::SIGNATURE_LENGTH].as_ref();",
    "        let msg = decoded_payload[..(decoded_payload.len() - ed25519_dalek::SIGNATURE_LENGTH).saturating_sub(1)].as_ref();\n        let sig = decoded_payload[decoded_payload.len() - ed25519_dalek::SIGNATURE_LENGTH..].as_ref();")])

# ---- C03: tag compared on its first 16 bytes only (v4 local) ----------------------------------------------
m("c03-v4l-truncated-tag-compare", ["C03"], "v4.local compares only the first 16 tag bytes",
  [("src/core/paseto_impl/v4_local.rs", "        ConstantTimeEquals(tag, tag2)?;", "        ConstantTimeEquals(&tag[..16], &tag2[..16])?;")])

# ---- C03: decrypt before authenticate (hook-only detection when the plaintext stays valid UTF-8) ----------
m("c03-v3l-decrypt-before-auth", ["C03"], "v3.local decrypts before the tag comparison",
  [("src/core/paseto_impl/v3_local.rs",
    """        //compare tags
        ConstantTimeEquals(tag, tag2)?;

        //decrypt payload
        let ciphertext = CipherText::<V3, Local>::from(ciphertext, &encryption_key);
""",
    """        //decrypt payload
        let ciphertext = CipherText::<V3, Local>::from(ciphertext, &encryption_key);

        //compare tags
        ConstantTimeEquals(tag, tag2)?;
""")])

# ---- C03: lenient base64 ----------------------------------------------------------------------------------
m("c03-lenient-base64", ["C03"], "payload decoding tolerates non-canonical trailing bits",
  [("src/core/traits.rs",
    "    BASE64_URL_SAFE_NO_PAD.decode(self.as_ref())",
    "    base64::engine::GeneralPurpose::new(&base64::alphabet::URL_SAFE, base64::engine::GeneralPurposeConfig::new().with_decode_allow_trailing_bits(true).with_decode_padding_mode(base64::engine::DecodePaddingMode::Indifferent)).decode(self.as_ref())")])

# ---- C04: v4 auth key derived from half the key -----------------------------------------------------------
m("c04-v3l-half-key", ["C04"], "v3.local derives the authentication AND encryption key from the first 16 key bytes only",
  [("src/core/common/authentication_key_impl/v3_local.rs", "salt.extract(key.as_ref())", "salt.extract(&key.as_ref()[..16])"),
   ("src/core/common/encryption_key_impl/v3_local.rs", "salt.extract(key.as_ref())", "salt.extract(&key.as_ref()[..16])")])

# ---- C05 (nested parsers): the expected footer of the v4.local parser lives in a per-thread slot that new() resets -------
m("c05-v4l-footer-in-thread-slot", ["C05"], "GenericParser<V4,Local> reads its expected footer from a per-thread slot that every GenericParser::new() resets: a second parser created while the first is alive wipes the first one's footer (only two parser objects alive at once show it)",
  [("src/generic/parsers/generic_parser.rs",
    "use std::collections::{HashMap, HashSet};\n",
    "use std::collections::{HashMap, HashSet};\n\nthread_local! {\n  static EXPECTED_FOOTER: std::cell::RefCell<Option<String>> = const { std::cell::RefCell::new(None) };\n}\n"),
   ("src/generic/parsers/generic_parser.rs",
    "  pub fn new() -> Self {\n    GenericParser::<Version, Purpose> {",
    "  pub fn new() -> Self {\n    EXPECTED_FOOTER.with(|f| *f.borrow_mut() = None);\n    GenericParser::<Version, Purpose> {"),
   ("src/generic/parsers/generic_parser.rs",
    "    self.footer = footer;\n    self\n",
    "    self.footer = footer;\n    EXPECTED_FOOTER.with(|f| *f.borrow_mut() = Some(footer.as_ref().to_string()));\n    self\n"),
   ("src/generic/parsers/generic_parser.rs",
    "    let token =\n      Paseto::<V4, Local>::try_decrypt(potential_token, key, self.get_footer(), self.get_implicit_assertion())?;",
    "    let slot = EXPECTED_FOOTER.with(|f| f.borrow().clone());\n    let token =\n      Paseto::<V4, Local>::try_decrypt(potential_token, key, slot.as_deref().map(Footer::from), self.get_implicit_assertion())?;")])

# ---- C05: footer comparison dropped -----------------------------------------------------------------------
m("c05-footer-compare-dropped", ["C05", "C03"], "parse_raw_token no longer compares the footer of 4-segment tokens (still in PAE via expectation)",
  [("src/core/paseto.rs", "                if !footer.constant_time_equals(found_footer) {\n                    return Err(PasetoError::FooterInvalid);\n                }", "                let _ = footer.constant_time_equals(found_footer);")])

# ---- C05/C08: footer dropped from the PAE on both sides (v2 public) ---------------------------------------
m("c05-v2p-footer-not-authenticated", ["C05", "C08"], "v2.public signs and verifies a PAE without the footer",
  [("src/core/paseto_impl/v2_public.rs", "            msg,\n            &footer.into().unwrap_or_default(),\n        ]);", "            msg,\n        ]);"),
   ("src/core/paseto_impl/v2_public.rs", "PreAuthenticationEncoding::parse(&[&self.header, &self.payload, &footer]);", "PreAuthenticationEncoding::parse(&[&self.header, &self.payload]);")])

# ---- C06/C08: assertion dropped from PAE on both sides (v3 public: not in the pinned suite's feature set) ------------
m("c06-v3p-assertion-not-authenticated", ["C06", "C08"], "v3.public signs and verifies a PAE without the implicit assertion",
  [("src/core/paseto_impl/v3_public.rs", "            &footer.into().unwrap_or_default(),\n            &implicit_assertion.into().unwrap_or_default(),\n        ]);", "            &footer.into().unwrap_or_default(),\n        ]);"),
   ("src/core/paseto_impl/v3_public.rs", "            &footer,\n            &implicit_assertion,\n        ]);", "            &footer,\n        ]);")])

# ---- C07: header check removed + v2/v4 public share the header constant ----------------------------------
m("c07-header-unchecked-and-v2p-speaks-v4p", ["C07"], "header text no longer checked and v2.public signs/verifies exactly v4.public's pre-authentication encoding (v4 header constant, empty assertion piece): a v4.public token verifies as v2.public",
  [("src/core/paseto.rs", "        if potential_header.ne(&expected_header) {\n            return Err(PasetoError::WrongHeader);\n        };", "        let _ = potential_header.ne(&expected_header);"),
   ("src/core/paseto_impl/v2_public.rs", "            &Header::<V2, Public>::default(),\n            msg,\n            &footer.into().unwrap_or_default(),\n        ]);", "            b\"v4.public.\",\n            msg,\n            &footer.into().unwrap_or_default(),\n            b\"\",\n        ]);"),
   ("src/core/paseto_impl/v2_public.rs", "PreAuthenticationEncoding::parse(&[&self.header, &self.payload, &footer]);", "PreAuthenticationEncoding::parse(&[b\"v4.public.\", &self.payload, &footer, b\"\"]);")])

# ---- C08: wrong domain separation string on both sides ----------------------------------------------------
m("c08-v3l-key-nonce-split-swapped", ["C08"], "v3.local takes the AES key from bytes 16..48 and the counter nonce from bytes 0..16 of the HKDF output (self-consistent, not the specification's split)",
  [("src/core/common/encryption_key_impl/v3_local.rs", "            key: out[..32].to_vec(),\n            nonce: out[32..].to_vec(),", "            key: out[16..].to_vec(),\n            nonce: out[..16].to_vec(),")])

# ---- C08: PAE pieces in another order on both sides (v2 local only) ---------------------------------------------------
m("c08-v2l-pae-order", ["C08"], "v2.local builds its pre-authentication encoding as (header, footer, nonce) on both sides (self-consistent)",
  [("src/core/paseto_impl/v2_local.rs", "            &Header::<V2, Local>::default(),\n            nonce,\n            &footer.into().unwrap_or_default(),\n        ]);", "            &Header::<V2, Local>::default(),\n            &footer.into().unwrap_or_default(),\n            nonce,\n        ]);"),
   ("src/core/paseto_impl/v2_local.rs", "PreAuthenticationEncoding::parse(&[&self.header, nonce, &footer]);", "PreAuthenticationEncoding::parse(&[&self.header, &footer, nonce]);")])

# ---- C08: empty footer dot restored -----------------------------------------------------------------------
m("c08-empty-footer-dot", ["C08"], "format_token appends '.' for an explicitly empty footer again",
  [("src/core/paseto.rs", "        let footer = self.footer.filter(|f| !f.is_empty()).map(|f| f.encode());", "        let footer = self.footer.map(|f| f.encode());")])

# ---- C09: one length check removed ------------------------------------------------------------------------
m("c09-v3p-length-check-removed", ["C09"], "v3.public try_verify slices without the length check",
  [("src/core/paseto_impl/v3_public.rs", "        if decoded_payload.len() < 96 {\n            return Err(PasetoError::IncorrectSize);\n        }\n", "")])
m("c09-keyhex-length-check-removed", ["C09"], "Key::<N>::try_from(&str) copies without the length check",
  [("src/core/key/keys.rs", "    if key.len() != KEYSIZE {\n      return Err(hex::FromHexError::InvalidStringLength);\n    }\n", "")])

# ---- C10: constant / message-derived nonce ---------------------------------------------------------------
m("c10-v4l-constant-nonce", ["C10"], "GenericBuilder<V4,Local> uses Key::default() as nonce",
  [("src/generic/builders/generic_builder.rs",
    "        let nonce = Key::<32>::try_new_random()?;\n        let nonce = PasetoNonce::<V4, Local>::from(&nonce);",
    "        let nonce = Key::<32>::default();\n        let nonce = PasetoNonce::<V4, Local>::from(&nonce);")])
m("c10-v2l-low-entropy-nonce", ["C10"], "GenericBuilder<V2,Local> randomises only the first 2 nonce bytes",
  [("src/generic/builders/generic_builder.rs",
    "        Ok(token_builder.try_encrypt(key, &PasetoNonce::<V2, Local>::from(&Key::<24>::try_new_random()?))?)",
    "        let r = Key::<24>::try_new_random()?;\n        let mut n = [0u8; 24];\n        n[..2].copy_from_slice(&r[..2]);\n        Ok(token_builder.try_encrypt(key, &PasetoNonce::<V2, Local>::from(&Key::<24>::from(n)))?)")])

m("c10-v3l-rng-failure-falls-back-to-default", ["C10"], "GenericBuilder<V3,Local> falls back to a default (all-zero) nonce when the system RNG fails",
  [("src/generic/builders/generic_builder.rs",
    "        let nonce = Key::<32>::try_new_random()?;\n        let nonce = PasetoNonce::<V3, Local>::from(&nonce);",
    "        let nonce = Key::<32>::try_new_random().unwrap_or_default();\n        let nonce = PasetoNonce::<V3, Local>::from(&nonce);")])

# ---- C11 / C12 ------------------------------------------------------------------------------------------
m("c11-exp-compares-wall-clock-fields", ["C11"], "exp validator compares local wall-clock fields instead of instants (offset-blind)",
  [("src/prelude/paseto_parser.rs", "            if datetime <= now {\n                Err(PasetoClaimError::Expired)", "            if (datetime.date(), datetime.time()) <= (now.date(), now.time()) {\n                Err(PasetoClaimError::Expired)")])
m("c11-nonstring-tolerated-again", ["C11"], "exp validator treats non-strings as absent again",
  [("src/prelude/paseto_parser.rs",
    "            let val = value\n                .as_str()\n                .ok_or_else(|| PasetoClaimError::RFC3339Date(value.to_string()))?;\n            //turn the value into a datetime",
    "            let val = match value.as_str() { Some(v) => v, None => return Ok(()) };\n            //turn the value into a datetime")])
m("c12-nbf-inverted", ["C12"], "nbf validator comparison inverted",
  [("src/prelude/paseto_parser.rs", "                if now <= not_before_time {", "                if now >= not_before_time {")])

# ---- C13 ------------------------------------------------------------------------------------------------
m("c13-default-lifetime-10h", ["C13"], "default expiry is now + 10 h",
  [("src/prelude/paseto_builder.rs", "    let in_one_hour = now + time::Duration::hours(1);", "    let in_one_hour = now + time::Duration::hours(10);")])
m("c13-drain-restored", ["C13", "C17"], "build_payload_from_claims drains the claim map again",
  [("src/generic/builders/generic_builder.rs",
    "        let serialized_claims: HashMap<String, Value> = self\n            .claims\n            .iter()\n            .map(|(k, v)| (k.clone(), serde_json::to_value(v).unwrap_or(Value::Null)))\n            .collect();",
    "        let claims = std::mem::take(&mut self.claims);\n        let serialized_claims: HashMap<String, Value> = claims\n            .into_iter()\n            .map(|(k, v)| (k, serde_json::to_value(v).unwrap_or(Value::Null)))\n            .collect();")])
m("c13-ack-not-honoured-after-exp", ["C13"], "acknowledgement only removes exp when the caller did not set one",
  [("src/prelude/paseto_builder.rs", "    if self.non_expiring_token {\n      self.builder.remove_claim(\"exp\");\n    }", "    if self.non_expiring_token && !self.top_level_claims.contains(\"exp-user\") {\n      if self.top_level_claims.len() <= 1 { self.builder.remove_claim(\"exp\"); }\n    }")])

# ---- C14 ------------------------------------------------------------------------------------------------
m("c14-empty-arrays-become-null", ["C14"], "wrap_value turns empty arrays into null",
  [("src/generic/builders/generic_builder.rs", "        Value::Array(arr) => Value::Array(arr.into_iter().map(wrap_value).collect()),", "        Value::Array(arr) if arr.is_empty() => Value::Null,\n        Value::Array(arr) => Value::Array(arr.into_iter().map(wrap_value).collect()),")])
m("c14-first-write-wins", ["C14"], "set_claim keeps the first value for a key",
  [("src/generic/builders/generic_builder.rs", "        self.claims.insert(key, Box::new(value));\n        self", "        self.claims.entry(key).or_insert_with(|| Box::new(value));\n        self")])

# ---- C15 ------------------------------------------------------------------------------------------------
m("c15-missing-check-removed", ["C15"], "expected claim that is absent is no longer reported as missing (null == null passes for expected null only) -> compares raw to json directly",
  [("src/generic/parsers/generic_parser.rs", "      if json[&key] == Value::Null {\n        return Err(PasetoClaimError::Missing(key.to_string()).into());\n      }\n", "")])
m("c15-equality-always-true", ["C15"], "expected value never compared",
  [("src/generic/parsers/generic_parser.rs", "      if raw[&key] != json[&key] {", "      if false && raw[&key] != json[&key] {")])

# ---- C16 ------------------------------------------------------------------------------------------------
m("c16-validator-result-discarded", ["C16"], "validator verdict ignored",
  [("src/generic/parsers/generic_parser.rs", "        validator(key, &json[&key])?;\n        //a claim that only", "        let _ = validator(key, &json[&key]);\n        //a claim that only")])
m("c16-validator-sees-whole-json", ["C16"], "validator is handed the whole payload instead of the claim's value",
  [("src/generic/parsers/generic_parser.rs", "        validator(key, &json[&key])?;\n        //a claim that only", "        validator(key, &json)?;\n        //a claim that only")])
m("c16-extend-only-not-run", ["C16"], "validators without accompanying claim are not run (F6 reverted)",
  [("src/generic/parsers/generic_parser.rs", "      if !self.claims.contains_key(key) {\n        validator(key, &json[key])?;\n      }", "      if !self.claims.contains_key(key) {\n        let _ = &validator;\n      }")])

# ---- C17 ------------------------------------------------------------------------------------------------
m("c17-dup-flag-reset-on-build", ["C17"], "duplicate flag is cleared by a failed build",
  [("src/prelude/paseto_builder.rs", "    if *dup_found {\n      return Err(GenericBuilderError::DuplicateTopLevelPayloadClaim(dup_key.to_string()));\n    }", "    if *dup_found {\n      let k = dup_key.to_string();\n      self.dup_top_level_found = (false, String::default());\n      return Err(GenericBuilderError::DuplicateTopLevelPayloadClaim(k));\n    }")])
m("c17-insert-result-ignored-for-custom", ["C17"], "duplicates are only detected for 3-letter keys",
  [("src/prelude/paseto_builder.rs", "    if !self.top_level_claims.insert(value.get_key().to_string()) {", "    if !self.top_level_claims.insert(value.get_key().to_string()) && value.get_key().len() == 3 {")])

# ---- C18 ------------------------------------------------------------------------------------------------
m("c18-key-only-form-unchecked", ["C18"], "CustomClaim::try_from(&str) (key-only form) no longer checks for reserved keys",
  [("src/generic/claims/custom_claim.rs", "  fn try_from(key: &str) -> Result<Self, Self::Error> {\n    Self::check_if_reserved_claim_key(key)?;\n", "  fn try_from(key: &str) -> Result<Self, Self::Error> {\n")])
m("c18-case-insensitive-reserved", ["C18"], "reserved check ignores ASCII case",
  [("src/generic/claims/custom_claim.rs", "key if Self::RESERVED_CLAIMS.contains(&key) =>", "key if Self::RESERVED_CLAIMS.iter().any(|r| r.eq_ignore_ascii_case(key)) =>")])
m("c18-exp-trims", ["C18"], "ExpirationClaim::try_from(&str) trims its input",
  [("src/generic/claims/expiration_claim.rs", "    match iso8601::datetime(value) {\n      Ok(_) => Ok(Self((\"exp\".to_string(), value.to_string()))),", "    match iso8601::datetime(value.trim()) {\n      Ok(_) => Ok(Self((\"exp\".to_string(), value.trim().to_string()))),")])

# ---- C20 ------------------------------------------------------------------------------------------------
m("c20-e0119-restored", ["C20"], "F1 reverted: both #[from] conversions again",
  [("src/core/error.rs", '    #[cfg_attr(not(feature = "ed25519-dalek"), from)]', "    #[from]")])
m("c20-v3-public-misses-sha2", ["C20"], "v3_public no longer enables sha2",
  [("Cargo.toml", 'v3_public = ["v3", "public", "core", "p384", "sha2"]', 'v3_public = ["v3", "public", "core", "p384"]')])

# ---- build-profile dependence: the verification exists only where debug assertions are compiled in ---------------------
m("c04-v4p-verify-only-under-debug-assertions", ["C04", "C03"], "v4.public try_verify checks the signature only `if cfg!(debug_assertions)`: release builds accept any signature",
  [("src/core/paseto_impl/v4_public.rs", "        verifying_key.verify(&pae, &signature)?;\n", "        if cfg!(debug_assertions) {\n            verifying_key.verify(&pae, &signature)?;\n        }\n")])
m("c03-v3l-tag-compare-only-under-debug-assertions", ["C03"], "v3.local compares the tag only `if cfg!(debug_assertions)`: release builds never compare it",
  [("src/core/paseto_impl/v3_local.rs", "        ConstantTimeEquals(tag, tag2)?;", "        if cfg!(debug_assertions) {\n            ConstantTimeEquals(tag, tag2)?;\n        }")])
