#!/usr/bin/env python3
"""Self-test of the monitors: applies each catalogue mutant (selftest/mutants.py) or a patch file to a scratch
worktree of /repo (outside /repo and /verif), runs the named checks with VERIF_REPO pointing at it and reports
caught / MISSED.  Not a registered check.  Usage:
   selftest/run.py [--tier quick] [--tests] [--only id-substring] [--patch file.diff --props C03,C05]"""
import argparse, json, os, subprocess, sys, time, shutil
HERE = os.path.dirname(os.path.abspath(__file__))
VERIF = os.path.dirname(HERE)
sys.path.insert(0, HERE)
SCRATCH = os.environ.get("VERIF_SCRATCH", "/tmp/vscratch")

def sh(cmd, **kw):
    return subprocess.run(cmd, shell=True, capture_output=True, text=True, **kw)

def ensure_scratch():
    if not os.path.isdir(SCRATCH):
        r = sh("git -C /repo worktree add -q --detach %s HEAD" % SCRATCH)
        if r.returncode != 0:
            print(r.stderr); sys.exit(2)
    sh("git -C %s checkout -q --detach %s && git -C %s checkout -- ." % (SCRATCH, sh("git -C /repo rev-parse HEAD").stdout.strip(), SCRATCH))
    if os.path.exists("/repo/Cargo.lock"):
        shutil.copy("/repo/Cargo.lock", os.path.join(SCRATCH, "Cargo.lock"))

def reset():
    sh("git -C %s checkout -- .; git -C %s clean -fdq -e target -e Cargo.lock" % (SCRATCH, SCRATCH))

def apply_edits(edits):
    for f, old, new in edits:
        p = os.path.join(SCRATCH, f)
        s = open(p).read()
        if s.count(old) != 1:
            return "edit target not found exactly once in %s (found %d)" % (f, s.count(old))
        open(p, "w").write(s.replace(old, new))
    return None

def run_tests():
    r = sh("cd %s && cargo nextest run --workspace --no-fail-fast --test-threads 8 --offline 2>&1 | tail -3" % SCRATCH)
    return "36 passed" in r.stdout, r.stdout.strip().splitlines()[-1] if r.stdout.strip() else r.stderr[-200:]

def run_check(prop, tier):
    env = dict(os.environ); env["VERIF_REPO"] = SCRATCH; env["VERIF_EVIDENCE_DIR"] = "/tmp/vselftest_evidence"
    t = time.time()
    r = subprocess.run([os.path.join(VERIF, "check"), prop, tier], capture_output=True, text=True, env=env, cwd=VERIF)
    lines = [l for l in r.stdout.splitlines() if l.startswith("VIOLATION") or l.startswith("INCONCLUSIVE")]
    first = ""
    for i, l in enumerate(r.stdout.splitlines()):
        if l.startswith("VIOLATION"):
            nxt = r.stdout.splitlines()[i + 1] if i + 1 < len(r.stdout.splitlines()) else ""
            first = nxt.strip()[:220]
            break
    return r.returncode, len(lines), first, time.time() - t

def main():
    ap = argparse.ArgumentParser()
    ap.add_argument("--tier", default="quick")
    ap.add_argument("--tests", action="store_true", help="also run the repo's 36 tests on each mutant")
    ap.add_argument("--only", default="")
    ap.add_argument("--patch"); ap.add_argument("--props", default="")
    ap.add_argument("--out", default=os.path.join(HERE, "last_run.json"))
    ap.add_argument("--merge", action="store_true", help="replace only the entries that were re-run in --out")
    a = ap.parse_args()
    ensure_scratch()
    # evidence files are overwritten by these runs: save and restore the committed ones
    results = []
    try:
        if a.patch:
            jobs = [{"id": os.path.basename(a.patch), "props": a.props.split(","), "desc": "patch file", "patch": a.patch}]
        else:
            from mutants import M
            jobs = [x for x in M if a.only in x["id"]]
        for j in jobs:
            reset()
            if "patch" in j:
                r = sh("git -C %s apply %s" % (SCRATCH, os.path.abspath(j["patch"])))
                err = r.stderr.strip() if r.returncode else None
            else:
                err = apply_edits(j["edits"])
            rec = {"id": j["id"], "desc": j["desc"], "checks": {}}
            if err:
                rec["error"] = err
                print("%-40s CANNOT APPLY: %s" % (j["id"], err)); results.append(rec); continue
            if a.tests:
                ok, line = run_tests(); rec["repo_tests_pass"] = ok; rec["repo_tests"] = line
            for p in j["props"]:
                code, n, first, secs = run_check(p, a.tier)
                rec["checks"][p] = {"exit": code, "violation_lines": n, "first": first, "secs": round(secs, 1)}
                verdict = "caught" if code == 1 else ("MISSED" if code == 0 else "INCONCLUSIVE")
                print("%-40s %-4s %-12s %5.1fs %s%s" % (j["id"], p, verdict, secs, ("tests:%s " % rec.get("repo_tests_pass")) if a.tests else "", first[:150]))
                sys.stdout.flush()
            results.append(rec)
    finally:
        reset()
    if a.merge and os.path.exists(a.out):
        old = json.load(open(a.out))
        ids = {r["id"] for r in results}
        order = [r["id"] for r in old]
        merged = {r["id"]: r for r in old}
        merged.update({r["id"]: r for r in results})
        results = [merged[i] for i in order] + [r for r in results if r["id"] not in order]
    json.dump(results, open(a.out, "w"), indent=1)
    missed = [(r["id"], p) for r in results for p, c in r.get("checks", {}).items() if c["exit"] != 1]
    print("mutants: %d, missed/inconclusive: %s" % (len(results), missed))
    return 1 if missed else 0

if __name__ == "__main__":
    sys.exit(main())
