"""Harness-based checks (C01..C18): build `vh` against the current /repo tree with hooks on, run the
property's driver under a watchdog, turn its report into evidence + verdict."""
import hashlib
import json
import os
import shutil
import signal
import subprocess
import sys
import time

from . import common

PROFILE = "verif"


def harness_dir():
    h = hashlib.sha256(common.REPO.encode()).hexdigest()[:10]
    return os.path.join(common.BUILD, "h-" + h)


def build_harness(profile=PROFILE, quiet=True):
    """Returns (path-to-binary or None, message)."""
    d = harness_dir()
    os.makedirs(d, exist_ok=True)
    toml = open(os.path.join(common.VERIF, "harness", "Cargo.toml.in")).read()
    toml = toml.replace("@REPO@", common.REPO).replace("@SRC@", os.path.join(common.VERIF, "harness", "src"))
    p = os.path.join(d, "Cargo.toml")
    if not os.path.exists(p) or open(p).read() != toml:
        open(p, "w").write(toml)
    lock = os.path.join(d, "Cargo.lock")
    if not os.path.exists(lock):
        shutil.copy(common.repo_lockfile(), lock)
    env = common.offline_env({"RUSTFLAGS": "--cfg rusty_paseto_verif -Awarnings", "CARGO_TARGET_DIR": os.path.join(d, "target")})
    cmd = ["cargo", "build", "--offline", "--profile", profile]
    if quiet:
        cmd.append("--quiet")
    try:
        b = subprocess.run(cmd, cwd=d, env=env, capture_output=True, text=True, timeout=3600)
    except subprocess.TimeoutExpired:
        return None, "cargo build watchdog (3600 s) fired"
    if b.returncode != 0:
        return None, "harness build failed:\n" + b.stderr[-4000:]
    sub = "release" if profile == "release" else profile
    exe = os.path.join(d, "target", sub, "vh")
    if not os.path.exists(exe):
        return None, "harness binary missing after build: " + exe
    return exe, "ok"


def run_harness(exe, args, out_path, timeout, env_extra=None, wrapper=None):
    """Returns (report dict or None, status string). A death by signal is reported as such."""
    if os.path.exists(out_path):
        os.remove(out_path)
    env = dict(os.environ)
    env.setdefault("VERIF_FIXTURES", os.path.join(common.VERIF, "fixtures"))
    env["RUST_BACKTRACE"] = "0"
    if env_extra:
        env.update(env_extra)
    cmd = (wrapper or []) + [exe] + args
    try:
        r = subprocess.run(cmd, env=env, capture_output=True, text=True, timeout=timeout)
    except subprocess.TimeoutExpired:
        return None, "watchdog: harness still running after %d s" % timeout, ""
    if r.returncode < 0:
        return None, "harness died from signal %d (%s)" % (-r.returncode, signal.Signals(-r.returncode).name), r.stderr[-2000:]
    if r.returncode != 0 or not os.path.exists(out_path):
        return None, "harness exited with %d: %s" % (r.returncode, r.stderr[-1500:]), r.stderr[-2000:]
    try:
        return json.load(open(out_path, encoding="utf-8")), "ok", r.stderr[-2000:]
    except Exception as e:  # noqa
        return None, "cannot parse harness report: %r" % e, r.stderr[-2000:]


TIMEOUTS = {"quick": 1500, "thorough": 4 * 3600}


def absorb(out, rep):
    """Fold a harness report into the Outcome."""
    out.evaluations += rep.get("evaluations", 0)
    out.distinct_nontrivial += rep.get("distinct_nontrivial", 0)
    if rep.get("rule"):
        out.rule = rep["rule"]
    for a in rep.get("assumptions", []):
        if a not in out.assumptions:
            out.assumptions.append(a)
    out.samples.extend(rep.get("samples", []))
    for k in ("classes", "observed", "discarded", "distinct_examples", "violation_sigs"):
        if rep.get(k):
            cur = out.coverage_extra.get(k)
            if isinstance(cur, dict) and isinstance(rep[k], dict):
                for kk, vv in rep[k].items():
                    if isinstance(vv, int) and isinstance(cur.get(kk), int):
                        cur[kk] += vv
                    elif isinstance(vv, list) and isinstance(cur.get(kk), list):
                        cur[kk] = sorted(set(cur[kk]) | set(vv))
                    else:
                        cur[kk] = vv
            elif cur is None:
                out.coverage_extra[k] = rep[k]
    out.coverage_extra["violations_total_incl_known"] = out.coverage_extra.get("violations_total_incl_known", 0) + rep.get("violations_total", 0)
    for v in rep.get("violations", []):
        out.violation(v["sig"], v["desc"], v["replay"])
    # signatures whose witnesses were dropped by the harness-side cap still count
    kept = {v["sig"] for v in rep.get("violations", [])}
    for sig in rep.get("violation_sigs", {}):
        if sig not in kept:
            out.violation(sig, "(witness dropped by the harness-side cap; signature %s)" % sig, {"cmd": rep.get("property"), "note": "no witness kept"})
    for r in rep.get("inconclusive", []):
        out.inconclusive.append(r)


def extra_seed_rounds(out, exe, prop, res, main_secs):
    """Thorough tier: after the main run, repeat the workload at derived seeds until the time budget is used.  The
    enumerated parts repeat, the seeded random parts (inputs, histories, schedules, key pools) are new every round.
    Every round is reproducible from its seed; `distinct_nontrivial` is NOT accumulated (the enumerated part would be
    counted again), the rounds are listed separately in the evidence."""
    budget = float(os.environ.get("VERIF_THOROUGH_EXTRA_S", "150"))
    round_tier = "thorough" if main_secs < 45 else "quick"
    rounds = []
    t0 = time.time()
    i = 0
    distinct_main = out.distinct_nontrivial
    while time.time() - t0 < budget and i < 400 and not out.violations:
        i += 1
        sd = (common.seed() * 1000003 + i * 7919) % 2147483647
        rep, status, err = run_harness(exe, ["run", prop, round_tier, str(sd), res], res, TIMEOUTS[round_tier])
        if rep is None:
            out.inconclusive.append("extra round at seed %d: %s" % (sd, status))
            break
        for v in rep.get("violations", []):
            if isinstance(v.get("replay"), dict):
                v["replay"]["harness_seed_of_this_round"] = sd
                v["replay"]["harness_tier_of_this_round"] = round_tier
        absorb(out, rep)
        rounds.append({"seed": sd, "tier": round_tier, "evaluations": rep.get("evaluations", 0), "distinct_nontrivial": rep.get("distinct_nontrivial", 0), "violations": rep.get("violations_total", 0)})
    out.distinct_nontrivial = distinct_main
    out.coverage_extra["extra_seed_rounds"] = {"count": len(rounds), "workload": round_tier, "budget_s": budget, "rounds": rounds[:40],
                                               "evaluations": sum(r["evaluations"] for r in rounds)}


def release_profile_pass(out, prop, res):
    """Both tiers: the quick workload once more from a plain release build (no debug assertions, no overflow checks):
    code inside debug_assert!/cfg(debug_assertions) is absent there and wrapping arithmetic is silent.  C10 has its own
    release-profile process (props.run_c10)."""
    if prop == "C10" or os.environ.get("VERIF_NO_RELEASE_PASS"):
        return
    exe2, msg = build_harness(profile="release")
    if exe2 is None:
        out.inconclusive.append("release-profile pass: " + msg)
        return
    if prop == "C08":
        from . import c08
        o2 = common.Outcome(prop, "quick")
        c08.run(o2, exe2, "quick", res)
        for v in o2.violations:
            rp = dict(v["replay"] or {})
            rp["build_profile"] = "release"
            out.violation(v["sig"], "[release profile] " + v["desc"], rp)
        out.inconclusive.extend("release-profile pass: " + x for x in o2.inconclusive)
        out.evaluations += o2.evaluations
        out.coverage_extra["release_profile_pass"] = {"workload": "quick", "evaluations": o2.evaluations, "violations": len(o2.violations)}
        return
    rep, status, err = run_harness(exe2, ["run", prop, "quick", str(common.seed()), res], res, TIMEOUTS["quick"])
    if rep is None and prop == "C09" and "died from signal" in status:
        from . import props
        props._c09_journal(out, exe2, "quick", res, status, {})
        return
    if rep is None:
        out.inconclusive.append("release-profile pass: " + status)
        return
    d = out.distinct_nontrivial
    rep["samples"] = []
    for v in rep.get("violations", []):
        v["desc"] = "[release profile] " + v.get("desc", "")
        if isinstance(v.get("replay"), dict):
            v["replay"]["build_profile"] = "release"
    absorb(out, rep)
    out.distinct_nontrivial = d
    out.coverage_extra["release_profile_pass"] = {"workload": "quick", "evaluations": rep.get("evaluations", 0), "violations": rep.get("violations_total", 0)}


def run(prop, tier, replay=None):
    out = common.Outcome(prop, tier)
    out.is_replay = replay is not None
    exe, msg = build_harness()
    if exe is None:
        out.inconclusive.append(msg)
        print(msg, file=sys.stderr)
        return out.finish()
    work = os.path.join(harness_dir(), "run")
    os.makedirs(work, exist_ok=True)
    res = os.path.join(work, "%s-%s-%d.json" % (prop, tier, os.getpid()))
    if replay is not None and replay.get("build_profile") == "release":
        exe_r, msg = build_harness(profile="release")
        if exe_r is None:
            out.inconclusive.append(msg)
            return out.finish()
        exe = exe_r
    if replay is not None and prop == "C08":
        from . import c08
        c08.replay(out, exe, replay, res)
        out.evaluations = max(out.evaluations, 1)
        return out.finish()
    if replay is not None:
        rp = os.path.join(work, "replay-%d.json" % os.getpid())
        json.dump(replay, open(rp, "w"))
        rep, status, err = run_harness(exe, ["replay", rp, res], res, 600)
        if rep is None:
            out.inconclusive.append("replay: " + status)
        else:
            absorb(out, rep)
            print(json.dumps({"replayed": replay.get("description"), "violations_now": rep.get("violations_total")}, indent=1))
            for v in rep.get("violations", []):
                print("  still violates: " + v["desc"][:500])
        out.evaluations = max(out.evaluations, 1)
        code = out.finish()
        return code
    # property-specific orchestration
    from . import props
    handler = getattr(props, "run_" + prop.lower(), None)
    if handler is not None:
        handler(out, exe, tier, res)
        if not (prop == "C09" and tier == "thorough") and not out.violations:
            release_profile_pass(out, prop, res)    # (C09 thorough and C10 run their own)
    else:
        t0 = time.time()
        rep, status, err = run_harness(exe, ["run", prop, tier, str(common.seed()), res], res, TIMEOUTS[tier])
        if rep is None:
            out.inconclusive.append(status)
        else:
            absorb(out, rep)
            if not out.violations:
                release_profile_pass(out, prop, res)
            if tier == "thorough":
                extra_seed_rounds(out, exe, prop, res, time.time() - t0)
    try:
        if os.path.exists(res):
            os.remove(res)
    except OSError:
        pass
    return out.finish()
