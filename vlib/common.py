"""Shared plumbing for ./check: paths, seeds, known findings, evidence writing, verdicts.

Verdicts are three-valued (DESIGN.md section 0):
  0 held on everything observed, 1 violated (VIOLATION line + replay file), 2 inconclusive.
"""
import json
import os
import sys
import time
import hashlib

VERIF = os.path.dirname(os.path.dirname(os.path.abspath(__file__)))
REPO = os.path.abspath(os.environ.get("VERIF_REPO", "/repo"))
BUILD = os.path.join(VERIF, ".build")
# self-test runs against mutated scratch trees must not overwrite the committed evidence
EVIDENCE = os.environ.get("VERIF_EVIDENCE_DIR") or os.path.join(VERIF, "evidence")
REPLAY = os.path.join(EVIDENCE, "replay")
KNOWN = os.path.join(VERIF, "KNOWN_FINDINGS.txt")


def seed():
    try:
        return int(os.environ.get("VERIF_SEED", "1"))
    except ValueError:
        return int(hashlib.sha256(os.environ["VERIF_SEED"].encode()).hexdigest()[:8], 16)


def offline_env(extra=None):
    env = dict(os.environ)
    env["CARGO_NET_OFFLINE"] = "true"
    env.setdefault("CARGO_TERM_COLOR", "never")
    if extra:
        env.update(extra)
    return env


def repo_lockfile():
    p = os.path.join(REPO, "Cargo.lock")
    if os.path.exists(p):
        return p
    return os.path.join(VERIF, "fixtures", "Cargo.lock.base")


def load_known(prop):
    """open: property=<ID> sig=<signature> :: <text>   -> {signature: text}"""
    out = {}
    if not os.path.exists(KNOWN):
        return out
    for line in open(KNOWN, encoding="utf-8"):
        line = line.strip()
        if not line.startswith("open:"):
            continue
        rest = line[len("open:"):].strip()
        if not rest.startswith("property=" + prop + " "):
            continue
        rest = rest[len("property=" + prop + " "):]
        if not rest.startswith("sig="):
            continue
        sig, _, text = rest[4:].partition(" :: ")
        out[sig.strip()] = text.strip()
    return out


class Outcome:
    """Accumulates what a run observed; turned into evidence + exit code by finish()."""

    def __init__(self, prop, tier):
        self.prop = prop
        self.tier = tier
        self.t0 = time.time()
        self.evaluations = 0
        self.distinct_nontrivial = 0
        self.rule = ""
        self.samples = []
        self.coverage_extra = {}
        self.assumptions = []
        self.violations = []      # dicts: sig, desc, replay(dict)
        self.inconclusive = []    # strings
        self.level = "exploration"
        # a --replay run re-executes ONE recorded case: it must not replace the check's evidence file
        self.is_replay = False

    def violation(self, sig, desc, replay):
        self.violations.append({"sig": sig, "desc": desc, "replay": replay})

    def finish(self):
        os.makedirs(REPLAY, exist_ok=True)
        known = load_known(self.prop)
        unknown = []
        known_hit = {}
        for v in self.violations:
            if v["sig"] in known:
                known_hit.setdefault(v["sig"], 0)
                known_hit[v["sig"]] += 1
            else:
                unknown.append(v)
        for sig, n in known_hit.items():
            print("KNOWN-FINDING: property=%s %s [sig=%s; %d witness(es) this run]" % (self.prop, known[sig], sig, n))
        # write replay files for unknown violations (cap the number of files, count all)
        printed = 0
        seen_sigs = set()
        for i, v in enumerate(unknown):
            if v["sig"] in seen_sigs and printed >= 20:
                continue
            seen_sigs.add(v["sig"])
            if printed >= 40:
                break
            path = os.path.join(REPLAY, "%s-%s-%d-%d.json" % (self.prop, self.tier, seed(), i))
            rec = dict(v["replay"] or {})
            rec.setdefault("property", self.prop)
            rec["signature"] = v["sig"]
            rec["description"] = v["desc"]
            with open(path, "w", encoding="utf-8") as f:
                json.dump(rec, f, indent=1, ensure_ascii=True)
            print("VIOLATION property=%s replay=%s" % (self.prop, path))
            print("  " + v["desc"][:600])
            printed += 1
        if len(unknown) > printed:
            print("  ... %d further violation(s) not written out" % (len(unknown) - printed))
        for r in self.inconclusive:
            print("INCONCLUSIVE property=%s %s" % (self.prop, r))
        wall = time.time() - self.t0
        cov = {
            "evaluations": int(self.evaluations),
            "distinct_nontrivial": int(self.distinct_nontrivial),
            "rule": self.rule,
            "samples": self.samples[:12] if self.samples else ["(no case was executed)"],
        }
        cov.update(self.coverage_extra)
        cov["known_findings_observed"] = {s: n for s, n in known_hit.items()}
        cov["inconclusive_reasons"] = self.inconclusive
        cov["violation_signatures"] = sorted({v["sig"] for v in unknown})[:50]
        ev = {
            "property_id": self.prop,
            "tier": self.tier,
            "seed": seed(),
            "level": self.level,
            "coverage": cov,
            "assumptions": self.assumptions,
            "wall_s": round(wall, 3),
            "violations": len(unknown),
        }
        os.makedirs(EVIDENCE, exist_ok=True)
        if self.is_replay:
            target = os.path.join(REPLAY, self.prop + "-last-replay-result.json")
        else:
            target = os.path.join(EVIDENCE, self.prop + ".json")
        tmp = target + ".tmp"
        with open(tmp, "w", encoding="utf-8") as f:
            json.dump(ev, f, indent=1, ensure_ascii=True)
        os.replace(tmp, target)
        if unknown:
            verdict, code = "VIOLATED", 1
        elif self.inconclusive:
            verdict, code = "INCONCLUSIVE", 2
        else:
            verdict, code = "held-on-observed", 0
        print("%s %s: %s  evaluations=%d distinct_nontrivial=%d known_findings=%d wall=%.1fs" % (
            self.prop, self.tier, verdict, self.evaluations, self.distinct_nontrivial, len(known_hit), wall))
        sys.stdout.flush()
        return code
