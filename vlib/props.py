"""Property-specific orchestration beyond a single harness run (C08, C09, C10 ...)."""
import json
import os
import re
import subprocess
import sys

from . import common
from . import hcheck


def _single(out, exe, prop, tier, res, env_extra=None, extra_args=None, timeout=None):
    rep, status, err = hcheck.run_harness(exe, ["run", prop, tier, str(common.seed()), res] + (extra_args or []), res,
                                          timeout or hcheck.TIMEOUTS[tier], env_extra=env_extra)
    return rep, status, err


# ------------------------------------------------------------------------------------------------
# C09: a crash that is not a panic kills the harness; obtain the witness in journal mode
# ------------------------------------------------------------------------------------------------
def run_c09(out, exe, tier, res):
    rep, status, err = _single(out, exe, "C09", tier, res)
    passes = ["verif-profile"]
    if rep is None and "died from signal" in status:
        _c09_journal(out, exe, tier, res, status, {})
    elif rep is None:
        out.inconclusive.append(status)
    else:
        hcheck.absorb(out, rep)
    if tier == "thorough":
        # second build profile: plain release (no overflow checks / debug assertions): slicing arithmetic behaves differently
        exe2, msg = hcheck.build_harness(profile="release")
        if exe2 is None:
            out.inconclusive.append("release-profile pass: " + msg)
        else:
            rep2, status2, err2 = _single(out, exe2, "C09", "quick", res)
            passes.append("release-profile")
            if rep2 is None and "died from signal" in status2:
                _c09_journal(out, exe2, "quick", res, status2, {})
            elif rep2 is None:
                out.inconclusive.append("release-profile pass: " + status2)
            else:
                rep2["samples"] = []
                hcheck.absorb(out, rep2)
            _c09_valgrind(out, exe2, res)
            passes.append("valgrind-memcheck")
        _c09_miri(out)
        passes.append("miri")
    out.coverage_extra["passes"] = passes


def _c09_journal(out, exe, tier, res, status, env):
    jpath = res + ".journal"
    e = {"VERIF_JOURNAL": jpath}
    e.update(env)
    rep, status2, err = _single(out, exe, "C09", tier, res, env_extra=e)
    if rep is not None:
        # did not reproduce single-threaded: cannot name the input
        out.inconclusive.append("harness %s but the single-threaded journal run completed; no witness" % status)
        hcheck.absorb(out, rep)
        return
    try:
        case = json.load(open(jpath, encoding="utf-8"))
    except Exception as ex:  # noqa
        out.inconclusive.append("harness %s; journal unreadable (%r)" % (status, ex))
        return
    where = "?"
    if "Token" in case:
        where = case["Token"]["p"]
    out.evaluations += 1
    out.violation("C09 process-death %s %s" % (where, status2.split("(")[-1].rstrip(")")),
                  "the process died (%s) inside a monitored decrypt/verify/parse call; last journaled case: %s" % (status2, json.dumps(case)[:300]),
                  {"cmd": "C09", "case": case, "death": status2, "stderr": err})


VG_ERR = re.compile(r"^==\d+== (Invalid (write|free|read)|Mismatched free|Conditional jump|Use of uninitialised|Process terminating)", re.M)


def _c09_valgrind(out, exe, res):
    """Reduced workload under memcheck.  Decides only on process death or invalid write/free below an
    entry point; everything else is recorded in the evidence (DESIGN.md section 1.4)."""
    nshards = 16
    procs = []
    for i in range(nshards):
        log = res + ".vg%d.log" % i
        env = dict(os.environ)
        env["VERIF_SHARD"] = "%d/%d" % (i * 40 + 7, nshards * 40)   # every 640th case per shard
        env["VERIF_THREADS"] = "1"
        env.setdefault("VERIF_FIXTURES", os.path.join(common.VERIF, "fixtures"))
        cmd = ["valgrind", "--tool=memcheck", "--error-exitcode=0", "--log-file=" + log, "--num-callers=30",
               exe, "run", "C09", "quick", str(common.seed()), res + ".vg%d.json" % i]
        procs.append((i, log, subprocess.Popen(cmd, env=env, stdout=subprocess.DEVNULL, stderr=subprocess.DEVNULL)))
    reports = {"invalid_write_or_free": 0, "invalid_read": 0, "uninitialised": 0, "process_terminating": 0}
    evals = 0
    for i, log, p in procs:
        try:
            p.wait(timeout=3 * 3600)
        except subprocess.TimeoutExpired:
            p.kill()
            out.inconclusive.append("valgrind shard %d watchdog fired" % i)
            continue
        txt = open(log, errors="replace").read() if os.path.exists(log) else ""
        for m in VG_ERR.finditer(txt):
            k = m.group(1)
            if k.startswith("Invalid write") or k.startswith("Invalid free") or k.startswith("Mismatched"):
                reports["invalid_write_or_free"] += 1
                blk = txt[m.start(): m.start() + 2500]
                if "rusty_paseto" in blk:
                    out.violation("C09 memcheck invalid-write-or-free", "valgrind memcheck: %s below a rusty_paseto frame:\n%s" % (k, blk[:1200]),
                                  {"cmd": "C09", "note": "valgrind shard %d" % i, "report": blk})
            elif k.startswith("Invalid read"):
                reports["invalid_read"] += 1
            elif k.startswith("Process terminating"):
                reports["process_terminating"] += 1
            else:
                reports["uninitialised"] += 1
        rj = res + ".vg%d.json" % i
        if os.path.exists(rj):
            try:
                r = json.load(open(rj))
                evals += r.get("evaluations", 0)
                for v in r.get("violations", []):
                    out.violation(v["sig"], "[under valgrind] " + v["desc"], v["replay"])
            except Exception:  # noqa
                pass
            os.remove(rj)
        elif p.returncode != 0:
            out.violation("C09 process-death under-valgrind", "harness died under valgrind (exit %s), log tail: %s" % (p.returncode, txt[-800:]),
                          {"cmd": "C09", "note": "valgrind shard %d" % i, "log_tail": txt[-3000:]})
        if os.path.exists(log):
            os.remove(log)
    out.evaluations += evals
    out.coverage_extra["sanitizer_reports"] = reports
    out.coverage_extra["valgrind_evaluations"] = evals


# ------------------------------------------------------------------------------------------------
# C10: the same workload in two separate processes; no nonce may occur in both (fixed-seed PRNG)
# ------------------------------------------------------------------------------------------------
def run_c10(out, exe, tier, res):
    reps = []
    # a third process runs the quick workload from a plain release build (no debug assertions, no overflow checks): code
    # that only executes inside debug_assert!/cfg(debug_assertions) is absent there
    exe_rel, msg = hcheck.build_harness(profile="release")
    if exe_rel is None:
        out.inconclusive.append("release-profile build: " + msg)
        return
    # separate processes, side by side (quick tier; the thorough histories use 16 threads each, so one after the other)
    import concurrent.futures
    with concurrent.futures.ThreadPoolExecutor(max_workers=3 if tier == "quick" else 1) as ex:
        futs = [ex.submit(_single, out, exe, "C10", tier, "%s.p%d" % (res, k)) for k in range(2)]
        futs.append(ex.submit(_single, out, exe_rel, "C10", "quick", "%s.p2" % res))
        for k, f in enumerate(futs):
            rep, status, err = f.result()
            try:
                os.remove("%s.p%d" % (res, k))
            except OSError:
                pass
            if rep is None:
                out.inconclusive.append("process %d%s: %s" % (k, " (release profile)" if k == 2 else "", status))
                return
            reps.append(rep)
    rel = reps.pop()
    heads = []
    for rep in reps:
        h = {}
        for name, vals in rep.get("observed", {}).items():
            if name.startswith("nonce-heads "):
                h[name[len("nonce-heads "):]] = set(vals)
        heads.append(h)
    compared = 0
    for cfg, a in heads[0].items():
        b = heads[1].get(cfg, set())
        compared += len(a) + len(b)
        common_n = a & b
        if common_n:
            out.violation("C10 cross-process-nonce-repeat %s" % cfg,
                          "%s: two separate processes produced the same nonce(s) %s" % (cfg, sorted(common_n)[:3]),
                          {"cmd": "C10", "note": "cross-process comparison; re-run the check", "config": cfg, "nonces": sorted(common_n)[:5]})
    if compared == 0:
        out.inconclusive.append("no nonce heads to compare across processes")
    # the release-profile process: its own violations, and its nonces against those of process 0
    rel_compared = 0
    for name, vals in rel.get("observed", {}).items():
        if name.startswith("nonce-heads "):
            cfg = name[len("nonce-heads "):]
            a = heads[0].get(cfg, set())
            rel_compared += len(vals)
            common_n = a & set(vals)
            if common_n:
                out.violation("C10 cross-process-nonce-repeat %s" % cfg,
                              "%s: the release-profile process and the first process produced the same nonce(s) %s" % (cfg, sorted(common_n)[:3]),
                              {"cmd": "C10", "note": "cross-process comparison (release profile); re-run the check", "config": cfg, "nonces": sorted(common_n)[:5]})
    if rel_compared == 0:
        out.inconclusive.append("no nonce heads from the release-profile process")
    rel["observed"] = {k: v for k, v in rel.get("observed", {}).items() if not k.startswith("nonce-heads ")}
    rel["samples"] = []
    for v in rel.get("violations", []):
        v["desc"] = "[release profile] " + v.get("desc", "")
        if isinstance(v.get("replay"), dict):
            v["replay"]["build_profile"] = "release"
    rel_evals = rel.get("evaluations", 0)
    # evidence: first process in full, second contributes its counters
    for rep in reps:
        rep["observed"] = {k: v for k, v in rep.get("observed", {}).items() if not k.startswith("nonce-heads ")}
    hcheck.absorb(out, reps[0])
    reps[1]["samples"] = []
    d = out.distinct_nontrivial
    hcheck.absorb(out, reps[1])
    hcheck.absorb(out, rel)
    out.distinct_nontrivial = d   # same histories, further processes: not more distinct cases
    out.coverage_extra["processes"] = 3
    out.coverage_extra["build_profiles"] = ["verif (release + debug assertions + overflow checks), 2 processes", "release (quick workload), 1 process, %d evaluations" % rel_evals]
    out.coverage_extra["nonces_compared_across_processes"] = compared


# ------------------------------------------------------------------------------------------------
# C08: offline differential checker over event logs (both directions) against refpaseto
# ------------------------------------------------------------------------------------------------
def run_c08(out, exe, tier, res):
    from . import c08
    c08.run(out, exe, tier, res)


def _c09_miri(out):
    """Pure-Rust paths that handle untrusted text, interpreted by Miri (undefined behaviour, out-of-bounds, invalid pointers
    in the crate and its pure-Rust dependencies).  ring's C/asm cannot be interpreted: the workload (miri/src/main.rs) only
    drives ring-free paths.  UB or a panic is a C09 violation; 'unsupported operation' or a build failure is inconclusive."""
    import shutil
    w = os.path.join(common.BUILD, "miri")
    os.makedirs(w, exist_ok=True)
    toml = open(os.path.join(common.VERIF, "miri", "Cargo.toml.in")).read().replace("@REPO@", common.REPO).replace("@SRC@", os.path.join(common.VERIF, "miri", "src"))
    p = os.path.join(w, "Cargo.toml")
    if not os.path.exists(p) or open(p).read() != toml:
        open(p, "w").write(toml)
    if not os.path.exists(os.path.join(w, "Cargo.lock")):
        shutil.copy(common.repo_lockfile(), os.path.join(w, "Cargo.lock"))
    env = common.offline_env({"MIRIFLAGS": "-Zmiri-disable-isolation", "RUSTFLAGS": "-Awarnings"})
    b = subprocess.run(["cargo", "+nightly", "miri", "setup"], cwd=w, env=env, capture_output=True, text=True)
    nsh = 8
    # build once (first shard compiles), then the shards in parallel
    procs = []
    first = subprocess.run(["cargo", "+nightly", "miri", "run", "--offline", "--", "0", str(nsh)], cwd=w, env=env, capture_output=True, text=True, timeout=4 * 3600)
    outs = [first]
    for i in range(1, nsh):
        procs.append(subprocess.Popen(["cargo", "+nightly", "miri", "run", "--offline", "--", str(i), str(nsh)], cwd=w, env=env, stdout=subprocess.PIPE, stderr=subprocess.PIPE, text=True))
    for pr in procs:
        try:
            so, se = pr.communicate(timeout=4 * 3600)
        except subprocess.TimeoutExpired:
            pr.kill()
            out.inconclusive.append("miri shard watchdog fired")
            continue
        outs.append(subprocess.CompletedProcess(pr.args, pr.returncode, so, se))
    calls = 0
    for i, r in enumerate(outs):
        m = re.search(r"MIRI-(OK|FAIL) calls=(\d+) ok=(\d+) err=(\d+) panics=(\d+)", r.stdout or "")
        if "Undefined Behavior" in (r.stderr or ""):
            blk = r.stderr[r.stderr.index("Undefined Behavior") - 200:][:2500]
            out.violation("C09 miri-undefined-behaviour", "Miri reports undefined behaviour while handling untrusted token text:\n" + blk, {"cmd": "C09", "note": "miri shard %d/%d" % (i, nsh), "report": blk})
        elif m is None:
            why = "unsupported operation" if "unsupported operation" in (r.stderr or "") else "no summary line"
            out.inconclusive.append("miri shard %d: %s: %s" % (i, why, (r.stderr or "")[-400:]))
        else:
            calls += int(m.group(2))
            for l in (r.stdout or "").splitlines():
                if l.startswith("MIRI-PANIC"):
                    out.violation("C09 miri-panic", "under Miri: " + l, {"cmd": "C09", "note": "miri shard %d/%d" % (i, nsh), "line": l})
    out.evaluations += calls
    out.coverage_extra["miri_calls_interpreted"] = calls
    out.coverage_extra["miri_scope"] = "ring-free paths only: v2.local decrypt, v2/v4.public verify at all layers in full; other protocols up to the first ring call (3-segment inputs rejected before crypto); Key::<N>::try_from(&str)"
