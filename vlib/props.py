"""Property-specific orchestration beyond a single harness run (C08, C09, C10 ...)."""
import json
import os
import re
import subprocess
import sys

from . import common
from . import hcheck


def _single(out, exe, prop, tier, res, env_extra=None, extra_args=None, timeout=None):
    rep, status, err = hcheck.run_harness(exe, ["run", prop, tier, str(common.seed()), res] + (extra_args or []), res,
                                          timeout or hcheck.TIMEOUTS[tier], env_extra=env_extra)
    return rep, status, err


# ------------------------------------------------------------------------------------------------
# C09: a crash that is not a panic kills the harness; obtain the witness in journal mode
# ------------------------------------------------------------------------------------------------
def run_c09(out, exe, tier, res):
    rep, status, err = _single(out, exe, "C09", tier, res)
    passes = ["verif-profile"]
    if rep is None and "died from signal" in status:
        _c09_journal(out, exe, tier, res, status, {})
    elif rep is None:
        out.inconclusive.append(status)
    else:
        hcheck.absorb(out, rep)
    if tier == "thorough":
        # second build profile: plain release (no overflow checks / debug assertions): slicing arithmetic behaves differently
        exe2, msg = hcheck.build_harness(profile="release")
        if exe2 is None:
            out.inconclusive.append("release-profile pass: " + msg)
        else:
            rep2, status2, err2 = _single(out, exe2, "C09", "quick", res)
            passes.append("release-profile")
            if rep2 is None and "died from signal" in status2:
                _c09_journal(out, exe2, "quick", res, status2, {})
            elif rep2 is None:
                out.inconclusive.append("release-profile pass: " + status2)
            else:
                rep2["samples"] = []
                hcheck.absorb(out, rep2)
            _c09_valgrind(out, exe2, res)
            passes.append("valgrind-memcheck")
    out.coverage_extra["passes"] = passes


def _c09_journal(out, exe, tier, res, status, env):
    jpath = res + ".journal"
    e = {"VERIF_JOURNAL": jpath}
    e.update(env)
    rep, status2, err = _single(out, exe, "C09", tier, res, env_extra=e)
    if rep is not None:
        # did not reproduce single-threaded: cannot name the input
        out.inconclusive.append("harness %s but the single-threaded journal run completed; no witness" % status)
        hcheck.absorb(out, rep)
        return
    try:
        case = json.load(open(jpath, encoding="utf-8"))
    except Exception as ex:  # noqa
        out.inconclusive.append("harness %s; journal unreadable (%r)" % (status, ex))
        return
    where = "?"
    if "Token" in case:
        where = case["Token"]["p"]
    out.evaluations += 1
    out.violation("C09 process-death %s %s" % (where, status2.split("(")[-1].rstrip(")")),
                  "the process died (%s) inside a monitored decrypt/verify/parse call; last journaled case: %s" % (status2, json.dumps(case)[:300]),
                  {"cmd": "C09", "case": case, "death": status2, "stderr": err})


VG_ERR = re.compile(r"^==\d+== (Invalid (write|free|read)|Mismatched free|Conditional jump|Use of uninitialised|Process terminating)", re.M)


def _c09_valgrind(out, exe, res):
    """Reduced workload under memcheck.  Decides only on process death or invalid write/free below an
    entry point; everything else is recorded in the evidence (DESIGN.md section 1.4)."""
    nshards = 16
    procs = []
    for i in range(nshards):
        log = res + ".vg%d.log" % i
        env = dict(os.environ)
        env["VERIF_SHARD"] = "%d/%d" % (i * 40 + 7, nshards * 40)   # every 640th case per shard
        env["VERIF_THREADS"] = "1"
        env.setdefault("VERIF_FIXTURES", os.path.join(common.VERIF, "fixtures"))
        cmd = ["valgrind", "--tool=memcheck", "--error-exitcode=0", "--log-file=" + log, "--num-callers=30",
               exe, "run", "C09", "quick", str(common.seed()), res + ".vg%d.json" % i]
        procs.append((i, log, subprocess.Popen(cmd, env=env, stdout=subprocess.DEVNULL, stderr=subprocess.DEVNULL)))
    reports = {"invalid_write_or_free": 0, "invalid_read": 0, "uninitialised": 0, "process_terminating": 0}
    evals = 0
    for i, log, p in procs:
        try:
            p.wait(timeout=3 * 3600)
        except subprocess.TimeoutExpired:
            p.kill()
            out.inconclusive.append("valgrind shard %d watchdog fired" % i)
            continue
        txt = open(log, errors="replace").read() if os.path.exists(log) else ""
        for m in VG_ERR.finditer(txt):
            k = m.group(1)
            if k.startswith("Invalid write") or k.startswith("Invalid free") or k.startswith("Mismatched"):
                reports["invalid_write_or_free"] += 1
                blk = txt[m.start(): m.start() + 2500]
                if "rusty_paseto" in blk:
                    out.violation("C09 memcheck invalid-write-or-free", "valgrind memcheck: %s below a rusty_paseto frame:\n%s" % (k, blk[:1200]),
                                  {"cmd": "C09", "note": "valgrind shard %d" % i, "report": blk})
            elif k.startswith("Invalid read"):
                reports["invalid_read"] += 1
            elif k.startswith("Process terminating"):
                reports["process_terminating"] += 1
            else:
                reports["uninitialised"] += 1
        rj = res + ".vg%d.json" % i
        if os.path.exists(rj):
            try:
                r = json.load(open(rj))
                evals += r.get("evaluations", 0)
                for v in r.get("violations", []):
                    out.violation(v["sig"], "[under valgrind] " + v["desc"], v["replay"])
            except Exception:  # noqa
                pass
            os.remove(rj)
        elif p.returncode != 0:
            out.violation("C09 process-death under-valgrind", "harness died under valgrind (exit %s), log tail: %s" % (p.returncode, txt[-800:]),
                          {"cmd": "C09", "note": "valgrind shard %d" % i, "log_tail": txt[-3000:]})
        if os.path.exists(log):
            os.remove(log)
    out.evaluations += evals
    out.coverage_extra["sanitizer_reports"] = reports
    out.coverage_extra["valgrind_evaluations"] = evals


# ------------------------------------------------------------------------------------------------
# C10: the same workload in two separate processes; no nonce may occur in both (fixed-seed PRNG)
# ------------------------------------------------------------------------------------------------
def run_c10(out, exe, tier, res):
    reps = []
    for k in range(2):
        rep, status, err = _single(out, exe, "C10", tier, res)
        if rep is None:
            out.inconclusive.append("process %d: %s" % (k, status))
            return
        reps.append(rep)
    heads = []
    for rep in reps:
        h = {}
        for name, vals in rep.get("observed", {}).items():
            if name.startswith("nonce-heads "):
                h[name[len("nonce-heads "):]] = set(vals)
        heads.append(h)
    compared = 0
    for cfg, a in heads[0].items():
        b = heads[1].get(cfg, set())
        compared += len(a) + len(b)
        common_n = a & b
        if common_n:
            out.violation("C10 cross-process-nonce-repeat %s" % cfg,
                          "%s: two separate processes produced the same nonce(s) %s" % (cfg, sorted(common_n)[:3]),
                          {"cmd": "C10", "note": "cross-process comparison; re-run the check", "config": cfg, "nonces": sorted(common_n)[:5]})
    if compared == 0:
        out.inconclusive.append("no nonce heads to compare across processes")
    # evidence: first process in full, second contributes its counters
    for rep in reps:
        rep["observed"] = {k: v for k, v in rep.get("observed", {}).items() if not k.startswith("nonce-heads ")}
    hcheck.absorb(out, reps[0])
    reps[1]["samples"] = []
    d = out.distinct_nontrivial
    hcheck.absorb(out, reps[1])
    out.distinct_nontrivial = d   # same histories, second process: not more distinct cases
    out.coverage_extra["processes"] = 2
    out.coverage_extra["nonces_compared_across_processes"] = compared


# ------------------------------------------------------------------------------------------------
# C08: offline differential checker over event logs (both directions) against refpaseto
# ------------------------------------------------------------------------------------------------
def run_c08(out, exe, tier, res):
    from . import c08
    c08.run(out, exe, tier, res)
