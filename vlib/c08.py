"""C08 -- offline differential checker over recorded event logs, in both directions, against the
independent reference model refpaseto (pinned to the official vectors)."""
import json
import multiprocessing
import os
import subprocess
import sys

from . import common
from . import hcheck

sys.path.insert(0, common.VERIF)

VER = {"v1": 1, "v2": 2, "v3": 3, "v4": 4}


def _keys(rec):
    """(version, purpose, reference-side secret, reference-side public)"""
    import refpaseto  # noqa
    from refpaseto import asym as A
    v, purpose = rec["p"].split(".")
    ver = VER[v]
    k = rec["key"]
    if purpose == "local":
        return ver, purpose, bytes.fromhex(k["sym"]), None
    sk, pk = bytes.fromhex(k["sk"]), bytes.fromhex(k["pk"])
    if ver == 1:
        priv = A.rsa_private_from_pkcs8(sk) if sk else None
        return ver, purpose, priv, A.rsa_public_from_der(pk)
    return ver, purpose, sk, pk


def _b(s):
    return (s or "").encode("utf-8")


def check_lib_line(line):
    """Library -> reference direction.  Returns a dict: id, verdict ('ok' | violation kind), detail."""
    import refpaseto as R
    rec = json.loads(line)
    rid = rec["id"]
    tok = rec.get("token")
    res = {"id": rid, "p": rec["p"], "layer": rec["layer"], "kind": "ok", "detail": "", "class": ""}
    if tok is None:
        res["kind"] = "skip"
        return res
    try:
        ver, purpose, sk, pk = _keys(rec)
        f, i = _b(rec.get("footer")), _b(rec.get("ia"))
        segs = tok.split(".")
        # footer segment present iff the footer is non-empty
        if f:
            if len(segs) != 4 or segs[3] != R.b64e(f):
                res.update(kind="footer-segment-missing-or-wrong", detail="footer %r but segments %r" % (rec.get("footer"), [s[:20] for s in segs]))
                return res
        else:
            if len(segs) != 3:
                res.update(kind="footer-segment-for-empty-footer", detail="footer %r (empty) but the token has %d segments: %r" % (rec.get("footer"), len(segs), tok[-12:]))
                res["class"] = "explicit-empty" if rec.get("footer") == "" else "none"
                return res
        if purpose == "local":
            if rec["layer"] == "core":
                want = R.local_encrypt(ver, sk, bytes.fromhex(rec["nonce"]), _b(rec["msg"]), f, i)
                if want != tok:
                    res.update(kind="token-differs-from-specification", detail="|m|=%d footer=%r ia=%r nonce=%s: library %s... reference %s..." % (
                        len(_b(rec["msg"])), rec.get("footer"), rec.get("ia"), rec["nonce"][:16], tok[:60], want[:60]))
                    # where do they differ?
                    a, b = R.b64d(tok.split(".")[2]), R.b64d(want.split(".")[2])
                    first = next((k for k in range(min(len(a), len(b))) if a[k] != b[k]), min(len(a), len(b)))
                    res["detail"] += " (payload lengths %d/%d, first differing byte %d)" % (len(a), len(b), first)
                    return res
                res["class"] = "byte-identical"
            else:
                m = R.local_decrypt(ver, sk, tok, f, i)
                obj = json.loads(m.decode("utf-8"))
                if not isinstance(obj, dict) or "data" not in obj:
                    res.update(kind="builder-token-payload-unexpected", detail=m[:80].decode("utf-8", "replace"))
                    return res
                res["class"] = "builder-token-opened-by-reference"
        else:
            # the harness derives Ed25519 / P-384 pool keys with the crates the library also uses: cross-check the derivation
            from refpaseto import asym as A
            if ver in (2, 4) and A.ed25519_public(sk[:32]) != pk:
                res.update(kind="harness-key-pair-inconsistent", detail="Ed25519 public key does not belong to the seed")
                return res
            if ver == 3 and A.p384_public(int.from_bytes(sk, "big")) != pk:
                res.update(kind="harness-key-pair-inconsistent", detail="P-384 public key does not belong to the scalar")
                return res
            m = R.public_verify(ver, pk, tok, f, i)
            if rec["layer"] == "core":
                if m != _b(rec["msg"]):
                    res.update(kind="reference-verifies-different-message", detail="")
                    return res
                res["class"] = "verified-by-reference"
                if ver in (2, 3, 4):
                    mine = R.public_sign(ver, sk, _b(rec["msg"]), f, i)
                    res["sig_identical"] = mine == tok
            else:
                json.loads(m.decode("utf-8"))
                res["class"] = "builder-token-verified-by-reference"
    except Exception as e:  # noqa
        res.update(kind="reference-rejects-library-token", detail="%s: %r; token %s..." % (type(e).__name__, e, tok[:70]))
    return res


def make_ref_line(args):
    """Reference -> library direction: build a token with the reference for the inputs of a library-log line,
    with a FRESH nonce / salt and optionally a crafted wire nonce."""
    import hashlib
    import refpaseto as R
    line, variant = args
    rec = json.loads(line)
    if rec["layer"] != "core":
        return None
    ver, purpose, sk, pk = _keys(rec)
    f, i, m = _b(rec.get("footer")), _b(rec.get("ia")), _b(rec["msg"])
    h = hashlib.sha256(("%s-%s" % (rec["id"], variant)).encode()).digest()
    out = {"id": "%s/%s" % (rec["id"], variant), "p": rec["p"], "key": rec["key"], "footer": rec.get("footer"), "ia": rec.get("ia"),
           "msg": rec["msg"], "variant": variant}
    if purpose == "local":
        nl = 24 if ver == 2 else 32
        seed = (h * 2)[:nl]
        wire = None
        if variant.startswith("ctr-carry"):
            # v1: wire nonce[16:] IS the AES-CTR IV; v3: IV is derived, cannot be chosen -> only v1 gets crafted IVs
            if ver != 1:
                return None
            tail = {"ctr-carry-8bit": b"\x00" * 15 + b"\xff", "ctr-carry-32bit": b"\x00" * 12 + b"\xff" * 4,
                    "ctr-carry-64bit": h[:8] + b"\xff" * 8, "ctr-carry-128bit": b"\xff" * 16,
                    "ctr-carry-64bit-minus1": h[:8] + b"\xff" * 7 + b"\xfe"}[variant]
            wire = h[:16] + tail
        out["token"] = R.local_encrypt(ver, sk, seed, m, f, i, wire_nonce=wire)
        out["nonce"] = (wire or seed).hex()
    else:
        if ver == 1:
            out["token"] = R.public_sign(1, sk, m, f, i, salt=(h * 2)[:48])
        else:
            out["token"] = R.public_sign(ver, sk, m, f, i)
    return json.dumps(out)


def run(out, exe, tier, res):
    # 0. the oracle must reproduce the official vectors, else nothing it says counts
    st = subprocess.run([sys.executable, os.path.join(common.VERIF, "refpaseto", "selftest.py")], capture_output=True, text=True)
    if st.returncode != 0:
        out.inconclusive.append("reference model does not reproduce the official vectors: " + st.stdout[-400:])
        return
    work = os.path.dirname(res)
    lib_log = os.path.join(work, "c08-lib-%d.jsonl" % os.getpid())
    ref_log = os.path.join(work, "c08-ref-%d.jsonl" % os.getpid())
    out_log = os.path.join(work, "c08-out-%d.jsonl" % os.getpid())
    # 1. library emits
    rep, status, err = hcheck.run_harness(exe, ["run", "C08", tier, str(common.seed()), res, "emit", lib_log], res, hcheck.TIMEOUTS[tier])
    if rep is None:
        out.inconclusive.append("emit: " + status)
        return
    hcheck.absorb(out, rep)
    lines = [l for l in open(lib_log, encoding="utf-8") if l.strip()]
    nproc = min(16, os.cpu_count() or 4)
    with multiprocessing.Pool(nproc) as pool:
        # 2. reference checks every library token
        results = pool.map(check_lib_line, lines, chunksize=16)
        # 3. reference builds tokens for the library: fresh nonce for every core line, plus crafted CTR carries on v1
        jobs = [(l, "fresh") for l in lines]
        v1 = [l for l in lines if '"p":"v1.local"' in l and '"layer":"core"' in l]
        for variant in ("ctr-carry-8bit", "ctr-carry-32bit", "ctr-carry-64bit", "ctr-carry-128bit", "ctr-carry-64bit-minus1"):
            jobs += [(l, variant) for l in v1[:: (4 if tier == "quick" else 1)]]
        ref_lines = [x for x in pool.map(make_ref_line, jobs, chunksize=16) if x]
    with open(ref_log, "w", encoding="utf-8") as f:
        f.write("\n".join(ref_lines) + "\n")
    # 4. library consumes
    rep2, status2, err2 = hcheck.run_harness(exe, ["run", "C08", tier, str(common.seed()), res, "consume", ref_log, out_log], res, hcheck.TIMEOUTS[tier])
    if rep2 is None:
        out.inconclusive.append("consume: " + status2)
        return
    outcomes = {}
    for l in open(out_log, encoding="utf-8"):
        if l.strip():
            o = json.loads(l)
            outcomes[o["id"]] = o
    # 5. join
    by_id = {json.loads(l)["id"]: json.loads(l) for l in lines}
    classes = {}
    distinct = set()
    samples = []
    sig_ident = {}
    for r in results:
        if r["kind"] == "skip":
            continue
        key = "%s %s: %s" % (r["p"], r["layer"], r["class"] or r["kind"])
        classes[key] = classes.get(key, 0) + 1
        rec = by_id[r["id"]]
        if r["kind"] != "ok":
            sig = "C08 %s %s layer=%s" % (r["kind"], r["p"], "core" if r["layer"] == "core" else "builder")
            if r["kind"] == "footer-segment-for-empty-footer":
                sig = "C08 footer-segment-for-empty-footer %s" % ("explicit-empty-footer" if r.get("class") == "explicit-empty" else "no-footer")
            out.violation(sig, "%s (%s layer): %s" % (r["p"], r["layer"], r["detail"]), {"cmd": "C08", "direction": "library->reference", "record": rec})
        else:
            mlen = len(_b(rec.get("msg")))
            distinct.add((r["p"], r["layer"], r["class"], min(mlen, 140) if mlen <= 140 else mlen.bit_length() + 200,
                          "none" if rec.get("footer") is None else ("empty" if rec["footer"] == "" else "text"),
                          "none" if rec.get("ia") is None else ("empty" if rec["ia"] == "" else "text")))
            if "sig_identical" in r:
                k = "%s signatures byte-identical to the reference's (informational)" % r["p"]
                sig_ident.setdefault(k, [0, 0])
                sig_ident[k][0] += 1 if r["sig_identical"] else 0
                sig_ident[k][1] += 1
            if len(samples) < 4 and r["id"] % 97 == 5:
                samples.append({"direction": "library->reference", "protocol": r["p"], "msg_len": mlen, "footer": rec.get("footer"), "assertion": rec.get("ia"),
                                "nonce": rec.get("nonce"), "token": (rec["token"] or "")[:70] + "...", "verdict": r["class"]})
    n_ref = 0
    for l in ref_lines:
        rr = json.loads(l)
        n_ref += 1
        o = outcomes.get(rr["id"])
        variant = rr["variant"]
        key = "%s reference-built token [%s]" % (rr["p"], variant)
        if o is None:
            out.inconclusive.append("no outcome for reference token %s" % rr["id"])
            continue
        if o.get("ok") is not None and o["ok"] == rr["msg"]:
            classes[key + " opened by the library"] = classes.get(key + " opened by the library", 0) + 1
            mlen = len(_b(rr["msg"]))
            distinct.add((rr["p"], "ref->lib", variant, min(mlen, 140) if mlen <= 140 else mlen.bit_length() + 200))
            if len(samples) < 8 and n_ref % 211 == 3:
                samples.append({"direction": "reference->library", "protocol": rr["p"], "variant": variant, "msg_len": mlen, "token": rr["token"][:70] + "...", "verdict": "opened, message identical"})
        else:
            mlen = len(_b(rr["msg"]))
            carry64 = (variant in ("ctr-carry-64bit", "ctr-carry-128bit") and mlen > 16) or (variant == "ctr-carry-64bit-minus1" and mlen > 32)
            if carry64:
                sig = "C08 aes-ctr-64bit-carry version=v1"
            else:
                sig = "C08 reference-token-not-opened %s variant=%s" % (rr["p"], variant)
            got = o.get("error") or ("Ok(%r...)" % (o.get("ok") or "")[:40])
            out.violation(sig, "%s: a token built by the specification's algorithm (variant %s, |m|=%d, wire nonce %s) is not opened to its message by the library: %s" % (
                rr["p"], variant, mlen, rr.get("nonce", "")[:64], got), {"cmd": "C08", "direction": "reference->library", "record": rr, "library_outcome": o})
    out.evaluations += n_ref
    out.distinct_nontrivial = len(distinct)
    out.samples = samples + out.samples
    out.rule = ("event logs in both directions. library->reference: for every protocol the library seals/signs messages of EVERY length 0..130 (public: strided), the "
                "boundary catalogue to 4 KiB, 64 KiB (thorough 256 KiB) and random lengths, with footer/assertion in {none, explicit empty, ASCII, non-ASCII, JSON, random}, every fifth record re-using the previous record's nonce under another key, messages that begin with a byte-order mark / white space, plus series of tokens sealed through ONE key object and series sealed from ONE core builder object (every token of a series is judged); "
                "the reference recomputes local tokens from (key, nonce, message, footer, assertion) and demands byte identity, verifies public tokens, opens builder-produced "
                "tokens (generic and batteries layers, random internal nonce), and checks that the footer segment is present iff the footer is non-empty. reference->library: "
                "the reference builds a token for the same inputs with a fresh nonce/salt, plus v1.local tokens whose wire nonce puts the AES-CTR counter at 8/32/64/128-bit "
                "carry boundaries; the library must open each to exactly the message, presented alone and once more through ONE key object per (protocol, key) that opens the whole series. distinct_nontrivial = distinct (protocol, direction/layer, verdict class, message length "
                "(exact to 140, then bit length), footer class, assertion class) that agreed")
    out.assumptions += ["the reference model could share a misreading of the specification with the implementation; it is pinned to all 48 official vectors (selftest run at the start of this check) and every primitive carries its RFC/FIPS known-answer test",
                        "Ed25519/ECDSA byte identity of signatures is informational; the property asks for mutual verification"]
    out.coverage_extra.setdefault("classes", {}).update(classes)
    out.coverage_extra["signature_identity"] = {k: "%d of %d" % (a, b) for k, (a, b) in sig_ident.items()}
    out.coverage_extra["reference_selftest"] = st.stdout.strip().splitlines()[-1] if st.stdout.strip() else ""
    out.coverage_extra["library_tokens_checked_by_reference"] = len([r for r in results if r["kind"] != "skip"])
    out.coverage_extra["reference_tokens_presented_to_library"] = n_ref
    # minimum observations per protocol
    for p in ("v1.local", "v2.local", "v3.local", "v4.local"):
        if classes.get("%s core: byte-identical" % p, 0) < 100:
            out.inconclusive.append("fewer than 100 byte-identical comparisons for %s" % p)
        if classes.get("%s reference-built token [fresh] opened by the library" % p, 0) < 100 and not out.violations:
            out.inconclusive.append("fewer than 100 reference-built tokens opened for %s" % p)
    for p in ("v1.public", "v2.public", "v3.public", "v4.public"):
        if classes.get("%s core: verified-by-reference" % p, 0) < 15:
            out.inconclusive.append("fewer than 15 library-signed tokens verified by the reference for %s" % p)
    for fpath in (lib_log, ref_log, out_log):
        try:
            os.remove(fpath)
        except OSError:
            pass


def replay(out, exe, rec, res):
    """Re-execute one recorded C08 case against the current tree."""
    import refpaseto as R  # noqa
    st = subprocess.run([sys.executable, os.path.join(common.VERIF, "refpaseto", "selftest.py")], capture_output=True, text=True)
    if st.returncode != 0:
        out.inconclusive.append("reference model does not reproduce the official vectors")
        return
    work = os.path.dirname(res)
    record = rec.get("record") or {}
    if rec.get("direction") == "reference->library":
        ref_log = os.path.join(work, "c08-replay-ref.jsonl")
        out_log = os.path.join(work, "c08-replay-out.jsonl")
        open(ref_log, "w", encoding="utf-8").write(json.dumps(record) + "\n")
        rep, status, err = hcheck.run_harness(exe, ["run", "C08", "quick", "1", res, "consume", ref_log, out_log], res, 600)
        if rep is None:
            out.inconclusive.append("replay consume: " + status)
            return
        o = json.loads(open(out_log, encoding="utf-8").readline())
        out.evaluations = 1
        print("library outcome now:", json.dumps(o)[:300])
        if o.get("ok") != record.get("msg"):
            out.violation(rec.get("signature", "C08 replay"), "still violates: library outcome %s" % json.dumps(o)[:200], rec)
    else:
        # library -> reference: let the library seal the recorded inputs again, then ask the reference
        one = os.path.join(work, "c08-replay-one.json")
        json.dump({"cmd": "C08-seal", "case": record}, open(one, "w"))
        rep, status, err = hcheck.run_harness(exe, ["replay", one, res], res, 600)
        if rep is None:
            out.inconclusive.append("replay seal: " + status)
            return
        toks = rep.get("observed", {}).get("replay-token", [])
        out.evaluations = 1
        if not toks:
            out.inconclusive.append("replay: the library did not produce a token (builder-layer records cannot be re-sealed with the same nonce)")
            return
        record = dict(record)
        record["token"] = toks[0]
        r = check_lib_line(json.dumps(record))
        print("reference verdict now:", r["kind"], r["detail"][:300])
        if r["kind"] not in ("ok", "skip"):
            out.violation(rec.get("signature", "C08 replay"), "still violates: %s %s" % (r["kind"], r["detail"]), rec)
