"""C20 -- configuration matrix: build the smoke program for each feature configuration from the
current /repo tree (hooks OFF: this is about what users build), execute it, and compare the
set of "<protocol> <layer>" lines it printed with the set expected for that configuration."""
import itertools
import os
import re
import shutil
import subprocess
import sys
import threading
import queue
import time

from . import common

PROTOS = ["v1_local", "v2_local", "v3_local", "v4_local", "v1_public", "v2_public", "v3_public", "v4_public"]
LAYERS = ["core", "generic", "batteries_included"]


def configs(tier, rng_seed):
    out = []
    if tier == "quick":
        subsets = [(p,) for p in PROTOS] + list(itertools.combinations(PROTOS, 2)) + [tuple(PROTOS)]
    else:
        subsets = []
        for k in range(1, 9):
            subsets += list(itertools.combinations(PROTOS, k))
    for s in subsets:
        for layer in LAYERS:
            out.append({"name": "+".join(s) + "@" + layer, "protos": list(s), "layer": layer,
                        "features": list(s) + [layer]})
    if tier == "quick":
        # plus a seeded sample of larger subsets (sizes 3..7), one layer each: conflicts that need three or more features
        import random
        rnd = random.Random(rng_seed * 7919 + 13)
        seen = set()
        while len(seen) < 36:
            k = rnd.randint(3, 7)
            sub = tuple(sorted(rnd.sample(PROTOS, k), key=PROTOS.index))
            layer = rnd.choice(LAYERS)
            if (sub, layer) in seen:
                continue
            seen.add((sub, layer))
            out.append({"name": "+".join(sub) + "@" + layer, "protos": list(sub), "layer": layer, "features": list(sub) + [layer]})
    out.append({"name": "default", "protos": ["v4_local", "v4_public"], "layer": "batteries_included",
                "features": ["repo_default"]})
    out.append({"name": "none", "protos": [], "layer": "core", "features": []})
    return out


def expected_lines(cfg):
    exp = set()
    li = LAYERS.index(cfg["layer"])
    for p in cfg["protos"]:
        for l in LAYERS[: li + 1]:
            exp.add("%s %s" % (p, l))
    return exp


def prepare_workdir(w):
    os.makedirs(os.path.join(w, "src"), exist_ok=True)
    os.makedirs(os.path.join(w, "fixtures"), exist_ok=True)
    shutil.copy(os.path.join(common.VERIF, "smoke", "src", "main.rs"), os.path.join(w, "src", "main.rs"))
    for f in ("rsa_official_private.pk8", "rsa_official_public.der"):
        shutil.copy(os.path.join(common.VERIF, "fixtures", f), os.path.join(w, "fixtures", f))
    toml = open(os.path.join(common.VERIF, "smoke", "Cargo.toml.in")).read().replace("@REPO@", common.REPO)
    p = os.path.join(w, "Cargo.toml")
    if not os.path.exists(p) or open(p).read() != toml:
        open(p, "w").write(toml)
    shutil.copy(common.repo_lockfile(), os.path.join(w, "Cargo.lock"))


INFRA_PATTERNS = [
    r"failed to select a version", r"no matching package", r"failed to get .* as a dependency",
    r"unable to update registry", r"No space left on device", r"failed to load source for dependency",
    r"can't find crate for `(std|core)`", r"Blocking waiting for file lock",
    r"attempting to make an HTTP request", r"failed to download",
]


def classify_build_failure(stderr):
    for pat in INFRA_PATTERNS:
        if re.search(pat, stderr):
            return "infra"
    if "could not compile `rusty_paseto`" in stderr:
        return "repo"
    if "could not compile `vsmoke`" in stderr:
        return "smoke"
    if re.search(r"failed to parse manifest|feature `[^`]+` .* does not have|does not have (that|these) feature", stderr) or "rusty_paseto" in stderr:
        return "repo"
    return "infra"


def first_error(stderr):
    m = re.search(r"^(error(\[E\d+\])?: .*)$", stderr, re.M)
    return m.group(1)[:300] if m else stderr.strip().splitlines()[-1][:300] if stderr.strip() else "(no output)"


def run_config(w, cfg):
    env = common.offline_env({"RUSTFLAGS": os.environ.get("VERIF_C20_RUSTFLAGS", "-Awarnings"), "CARGO_TARGET_DIR": os.path.join(w, "target")})
    cmd = ["cargo", "build", "--offline", "--quiet", "--no-default-features"]
    if cfg["features"]:
        cmd += ["--features", ",".join(cfg["features"])]
    t = time.time()
    try:
        b = subprocess.run(cmd, cwd=w, env=env, capture_output=True, text=True, timeout=1800)
    except subprocess.TimeoutExpired:
        return {"cfg": cfg, "status": "infra", "detail": "cargo build watchdog (1800 s) fired"}
    if b.returncode != 0:
        kind = classify_build_failure(b.stderr)
        return {"cfg": cfg, "status": "build-" + kind, "detail": first_error(b.stderr), "stderr_tail": b.stderr[-3000:]}
    exe = os.path.join(w, "target", "debug", "vsmoke")
    try:
        r = subprocess.run([exe], capture_output=True, text=True, timeout=300)
    except subprocess.TimeoutExpired:
        return {"cfg": cfg, "status": "infra", "detail": "smoke binary watchdog (300 s) fired"}
    lines = [l.strip() for l in r.stdout.splitlines() if l.strip()]
    got = set(l for l in lines if l != "DONE" and not l.startswith("FAIL"))
    exp = expected_lines(cfg)
    res = {"cfg": cfg, "got": sorted(got), "secs": round(time.time() - t, 2)}
    if r.returncode != 0 or "DONE" not in lines:
        res["status"] = "run-fail"
        fails = [l for l in lines if l.startswith("FAIL")]
        res["detail"] = "exit=%s %s %s" % (r.returncode, "; ".join(fails), r.stderr.strip()[-400:])
    elif got != exp:
        res["status"] = "output-mismatch"
        res["detail"] = "missing=%s unexpected=%s" % (sorted(exp - got), sorted(got - exp))
    else:
        res["status"] = "ok"
    return res


def run(tier, replay=None):
    out = common.Outcome("C20", tier)
    out.is_replay = replay is not None
    out.rule = ("one case = one cargo feature configuration (set of protocol features x layer feature, plus 'default' and "
                "'none') built with hooks off from the current /repo tree and EXECUTED; non-trivial = the smoke binary "
                "was built, ran, and at least one protocol/layer round trip was observed in its output; distinct = "
                "distinct feature sets")
    out.assumptions = [
        "round trip per protocol/layer uses one fixed key, message, footer and assertion (breadth over inputs is C01/C02's job)",
        "debug profile, host target x86_64-unknown-linux-gnu only",
        "monotonicity of features follows from the construction of the smoke source (union of per-protocol cfg blocks)",
    ]
    if replay:
        rec = replay
        cfgs = [rec["config"]]
    else:
        cfgs = configs(tier, common.seed())
    nworkers = int(os.environ.get("VERIF_C20_WORKERS", "12" if tier == "thorough" else "8"))
    nworkers = max(1, min(nworkers, len(cfgs)))
    base = os.path.join(common.BUILD, "c20")
    # the worker directories are re-used from run to run (dependency cache) and each holds ONE configuration at a time:
    # two C20 runs at once (quick and thorough, two seeds) would execute each other's binaries, so they take turns
    os.makedirs(base, exist_ok=True)
    import fcntl
    lockf = open(os.path.join(base, ".lock"), "w")
    fcntl.flock(lockf, fcntl.LOCK_EX)
    out.t0 = __import__("time").time()
    q = queue.Queue()
    # order: put the full set first so every worker warms its dependency cache early, then the rest
    for c in cfgs:
        q.put(c)
    results = []
    lock = threading.Lock()

    def worker(i):
        w = os.path.join(base, "w%d" % i)
        try:
            prepare_workdir(w)
        except Exception as e:  # infrastructure
            with lock:
                results.append({"cfg": {"name": "(prepare)", "features": []}, "status": "infra", "detail": repr(e)})
            return
        while True:
            try:
                c = q.get_nowait()
            except queue.Empty:
                return
            r = run_config(w, c)
            with lock:
                results.append(r)

    ts = [threading.Thread(target=worker, args=(i,)) for i in range(nworkers)]
    for t in ts:
        t.start()
    for t in ts:
        t.join()

    ok = [r for r in results if r["status"] == "ok"]
    out.evaluations = len(results)
    out.distinct_nontrivial = len({tuple(r["cfg"]["features"]) for r in ok if r["got"]})
    lines_seen = set()
    for r in ok:
        lines_seen.update(r["got"])
    out.samples = [{"features": r["cfg"]["features"], "observed_lines": r["got"], "secs": r.get("secs")} for r in ok[:6]]
    statuses = {}
    for r in results:
        statuses[r["status"]] = statuses.get(r["status"], 0) + 1
    out.coverage_extra = {
        "configurations_planned": len(cfgs),
        "configurations_built_and_run_ok": len(ok),
        "status_counts": statuses,
        "distinct_protocol_layer_lines_observed": sorted(lines_seen),
        "exhaustive": tier == "thorough" and not replay,
        "workers": nworkers,
    }
    smoke_fail = [r for r in results if r["status"] == "build-smoke"]
    all_smoke_fail = smoke_fail and len(smoke_fail) == len([r for r in results if r["cfg"].get("protos")])
    for r in results:
        st = r["status"]
        name = r["cfg"].get("name")
        if st == "ok":
            continue
        if st == "infra" or st == "build-infra" or (st == "build-smoke" and all_smoke_fail):
            out.inconclusive.append("config %s: %s (%s)" % (name, st, r.get("detail")))
            continue
        feats = ",".join(sorted(r["cfg"]["features"]))
        if st in ("build-repo", "build-smoke"):
            m = re.search(r"E\d{4}", r.get("detail", ""))
            sig = "C20 build-fail config=%s" % name
            desc = "configuration [%s] does not compile: %s" % (feats, r.get("detail"))
        elif st == "run-fail":
            sig = "C20 run-fail config=%s" % name
            desc = "configuration [%s] builds but its round trips fail: %s" % (feats, r.get("detail"))
        else:
            sig = "C20 output-mismatch config=%s" % name
            desc = "configuration [%s]: protocols that ran differ from the enabled ones: %s" % (feats, r.get("detail"))
        out.violation(sig, desc, {"config": r["cfg"], "status": st, "detail": r.get("detail"),
                                  "stderr_tail": r.get("stderr_tail", ""), "expected_lines": sorted(expected_lines(r["cfg"])),
                                  "observed_lines": r.get("got")})
    if not replay and len(results) < len(cfgs):
        out.inconclusive.append("only %d of %d configurations were processed" % (len(results), len(cfgs)))
    if not ok and not out.violations:
        out.inconclusive.append("no configuration was built and executed")
    # summarise violations by failing-pair pattern to keep the console readable
    if out.violations:
        print("C20: %d configuration(s) failed; first: %s" % (len(out.violations), out.violations[0]["desc"][:300]))
    return out.finish()
