#!/usr/bin/env python3
"""Regenerates /verif/MANIFEST.json from the table below (single source of truth for the registered checks)."""
import json, os
VERIF = os.path.dirname(os.path.dirname(os.path.abspath(__file__)))

HOOK_COMMITS = ["34fc5d5", "8fe3f16", "cbf8df0"]

CHECKS = {
 "C01": dict(technique="runtime monitoring: round-trip monitor (identity oracle) over enumerated boundary/catalogue workloads and seeded random inputs at all three API layers",
   text="Every case seals with the real library and opens the result under the same key/footer/assertion; the monitor demands exactly the input back. Exhaustive over the boundary-length x footer x assertion catalogue on every catalogue key, plus seeded random cases (quick ~4e4, thorough ~1e6, messages to 1 MiB).",
   note="held on the executions listed in the evidence; SystemRandom and the clock are trusted; messages > 1 MiB not driven", ref="DESIGN.md section 4 C01"),
 "C02": dict(technique="runtime monitoring: round-trip monitor (identity oracle) over key pools, boundary/catalogue workloads and seeded random inputs at all three API layers",
   text="As C01 for sign/verify: official vector keys, 64 (thorough 400) derived Ed25519 pairs, 16 (100) P-384 pairs, RSA-2048 fixtures; each token must verify to exactly the signed message.",
   note="key pairs are derived with the curve crates the library also uses (generation only; C08 cross-checks against the independent reference); RSA-2048 only", ref="DESIGN.md section 4 C02"),
 "C03": dict(technique="runtime monitoring: mutation monitor over authentic tokens (operator/region oracle by construction, tolerated classes) plus a trace rule on the keystream hook (no decryption event during a rejected call) and a validator call log",
   text="Authentic base tokens of all 8 protocols are altered by exhaustive operators (all single-bit flips, all single-character substitutions, all prefixes, boundary shifts, splices, footer swaps, non-canonical base64, signature re-encodings) and seeded random edits; every mutant is presented to the real entry points at all three layers. A mutant must be rejected with a non-plaintext error, without a keystream event and without any validator call; only the two tolerated classes may be accepted, and only with the original content. quick ~7.5e5 evaluations.",
   note="authenticity of base tokens comes from the library itself; unforgeability of the primitives is assumed; hook placement inside CipherText::from", ref="DESIGN.md section 4 C03"),
 "C04": dict(technique="runtime monitoring: wrong-key monitor (oracle by construction: any acceptance under a different key is a violation) over all single-bit key neighbours, key pools, ECDSA keys recovered from the token's own signature and short-plaintext sweeps at all three layers, plus parser sessions (one parser object, the same token under the right key, another key, the right key again; right-wrong-wrong presentations of every refused key; fresh processes whose first library call presents a token under another key; long sessions; two parser objects alive at once)",
   text="Authentic tokens are presented under every single-bit neighbour of their key (symmetric, Ed25519, P-384 point, RSA DER), all-zero/all-one/random/rotated/half-zeroed keys and every other pool key; one parser object is handed the same token under changing keys and must answer like a fresh parser each time. quick ~1e5 evaluations.",
   note="forgery resistance of the primitives assumed; different encodings of the same key are out of scope", ref="DESIGN.md section 4 C04"),
 "C05": dict(technique="runtime monitoring: footer monitor (string-equality oracle in the harness, own base64url encoder) over the footer catalogue squared at all three layers, footer-segment edits (incl. non-canonical encodings and long extensions), a footer length sweep, parser sessions with a changing expected footer (also two parser objects alive at once) and builders used three times",
   text="For every protocol and layer a token is built with each catalogue footer and parsed with every catalogue footer; accept iff equal (none == empty). The footer segment of each produced token is compared with the harness's own encoder; removed/emptied/replaced/extended/truncated/padded/non-canonical/added footer segments must fail; one parser whose expected footer changes between parses; three tokens from one builder must all carry the footer. quick ~1.5e5 evaluations.",
   note="empty 4th segment for an explicitly empty footer is decided by C08", ref="DESIGN.md section 4 C05"),
 "C06": dict(technique="runtime monitoring: implicit-assertion monitor (string-equality oracle; length, substring and ciphertext-prefix checks; re-split attacks incl. across a PAE length prefix; assertion length sweep) for v3/v4 at all three layers, plus parser sessions with a changing assertion (also two parser objects alive at once) and builders used three times",
   text="Accept iff the supplied assertion equals the one used at build time (catalogue squared); token length independent of the assertion; assertion bytes (raw and base64url at 3 alignments) absent from token and decoded payload; nonce||ciphertext identical across assertions with a fixed nonce; (footer, assertion) re-splits rejected; one parser whose assertion is changed/cleared between parses of the same token; three tokens from one builder all bound. quick ~3e4 evaluations.",
   note="random assertions >= 12 base64 characters (chance occurrence < 2^-60)", ref="DESIGN.md section 4 C06"),
 "C07": dict(technique="runtime monitoring: cross-protocol monitor over all 56 ordered protocol pairs (exhaustive), verbatim and relabelled tokens (each first accepted by its own protocol), shared key material, layout-aligned message lengths, three layers",
   text="Tokens of protocol X are presented verbatim and with Y's header to Y's core/generic/batteries entry points using the same key bytes wherever types allow; any acceptance is a violation; message lengths 0..96 chosen so that foreign bodies line up with the target nonce/tag layout. quick ~4.5e4 evaluations over all 56 pairs.",
   note="forgery resistance of the primitives assumed", ref="DESIGN.md section 4 C07"),
 "C08": dict(technique="runtime monitoring: offline differential checker over recorded event logs in both directions against an independent executable reference (pure-Python refpaseto pinned to all 48 official vectors), incl. series sealed and opened through ONE key object and series sealed from ONE core builder",
   text="The library's tokens for explicit (key, nonce, message, footer, assertion) are recomputed by the reference and must be byte-identical (local) / verify (public); builder-produced tokens must open under the reference; the footer segment must be present iff the footer is non-empty; reference-built tokens (fresh nonces, and v1 wire nonces at AES-CTR carry boundaries) must be opened by the library to exactly the message. quick ~3.8e3 tokens each way, thorough ~6e4 with messages to 256 KiB.",
   note="the reference could share a misreading of the specification with the implementation: it is pinned to every official vector and each primitive to its RFC/FIPS known-answer test; no shared code, language or crypto library", ref="DESIGN.md section 4 C08", engine="c08-differential"),
 "C09": dict(technique="runtime monitoring: panic/crash monitor (catch_unwind + panic-location hook + parent-side death detection; thorough adds a plain-release pass, valgrind memcheck and a Miri pass over the ring-free paths) over hostile token strings at all 24 entry points, live-parser sessions (one parser object re-configured between parses) and Key::<N>::try_from",
   text="Any Ok/Err is accepted, a panic or process death is the violation. Exhaustive over decoded payload lengths 0..=400 per protocol x fill x footer, every prefix of authentic tokens, hex strings of every length 0..=200; seeded random and large inputs on top.",
   note="inputs above 3 MiB not driven; valgrind decides only on process death or invalid write/free below a library frame", ref="DESIGN.md section 4 C09"),
 "C10": dict(technique="runtime monitoring: history monitor over recorded nonce fields of N builds under one key (pairwise distinctness, per-bit Hoeffding bound, constant-byte check) on one thread, on 8-16 threads at once across idle pauses and alternating with parses of one token on the same thread, repeated in two separate processes and in a third one built with the plain release profile (no debug assertions), with a cross-process comparison, plus RNG fault injection through a guarded hook (no nonce may repeat while the RNG fails)",
   text="For v1-v4 local x {GenericBuilder, PasetoBuilder} x {fresh builder, one builder reused}: 4096 builds (thorough additionally 102400 from 16 threads) with identical claims/footer/assertion; nonces must be pairwise distinct, no byte position constant, every bit frequency within N/2 +- 5.3 sqrt(N); no nonce may occur in two of the three separate processes (two from the harness profile, one from a plain release build).",
   note="unpredictability proper is out of reach of observation: constants, counters, clocks, message-derived nonces, low entropy and fixed seeds are detected, a statistically clean but weak generator is not", ref="DESIGN.md section 4 C10"),
 "C11": dict(technique="runtime monitoring: time-claim monitor (instant known by construction, renderings from the harness's own calendar arithmetic) over the full UTC-offset x fraction rendering space and a non-timestamp catalogue, against PasetoParser::default(), plus clock-progress histories (the same parser object must change its answer when the claim crosses now)",
   text="Payloads with crafted exp are parsed by the default parser: every offset -23:59..+23:59 x 0-9 fraction digits x 13 instants on v4.local (thorough: all local protocols), sampled on the others; non-timestamps (numbers, booleans, arrays, objects, empty/near-miss strings) must be rejected; null/absent accepted; a token whose exp is 1.5 s ahead is parsed, 2.6 s pass, and the same parser (and a fresh one) must now reject it. quick ~3.8e5 evaluations.",
   note="clock margins 2 s / 60 s, stalled cases discarded not failed; leap seconds not driven", ref="DESIGN.md section 4 C11/C12"),
 "C12": dict(technique="runtime monitoring: time-claim monitor mirrored for nbf plus the 3x3 (exp, nbf) grid, against PasetoParser::default(), plus clock-progress histories",
   text="As C11 with the direction reversed (reject nbf >= now+60 s, accept <= now-2 s), non-timestamps rejected, and the independent combinations of (exp, nbf) in {past, future, absent} x 3 offsets on all 8 protocols. quick ~3.8e5 evaluations.",
   note="clock margins 2 s / 60 s, stalled cases discarded not failed", ref="DESIGN.md section 4 C11/C12"),
 "C13": dict(technique="runtime monitoring: reference-model monitor (property-level state machine of the batteries-included builder + clock bracket) over exhaustive call words and seeded random histories, including repeated builds, pairs of builders with interleaved operations, barrier-released rounds of builders on different threads, histories with a build that fails in the sealing step (unusable key material / injected RNG failure through a guarded hook) and builders created on a virtual clock (guarded hook)",
   text="All call words up to length 4 (thorough 6) over {set exp/nbf/iat/iss/custom, acknowledge, footer, assertion, build} on v4.local and random words to length 12 on all 8 protocols; every built token is read back and compared with the model: exp present iff not acknowledged, default exp = creation + 1 h exactly, default iat = nbf within the clock bracket, caller values present, nothing else.",
   note="local payloads are read back with the library's decrypt (C01 covers that); 5 ms clock slack", ref="DESIGN.md section 4 C13"),
 "C14": dict(technique="runtime monitoring: claim-map reference-model monitor (last write wins, remove deletes; serde_json equality) over seeded random set/remove histories with JSON trees, native Rust values and typed registered claims, incl. multi-build histories of one builder",
   text="GenericBuilder histories of up to 12 set_claim/remove_claim operations are built and parsed back with a validator-free GenericParser on every protocol; the whole parsed object must equal the harness's model object; one GenericBuilder driven through set/remove/footer/assertion/build steps must emit the model at every build. quick ~3.6e4 evaluations, thorough ~3e6.",
   note="trusted base: serde_json equality and number formatting; value domain restricted as the property states", ref="DESIGN.md section 4 C14"),
 "C15": dict(technique="runtime monitoring: expected-claim monitor (harness-side comparison of token claims S and expected set E, don't-care for int/float spelling) on GenericParser, PasetoParser::new() and ::default(), plus parser-reuse histories, sessions in which an expectation is replaced on the live parser, two parser objects alive at once, and authentic non-object payloads",
   text="For random S the expectation sets {equal, subset, superset, one value changed, one key changed, null cases} are checked: accept iff no discrepancy, Missing(k) only for a missing k, the error names a failing claim; one parser processing 8 tokens in 4 orders must answer like a fresh parser. quick ~1.1e5 evaluations.",
   note="int-vs-float spellings are don't-care; any failing claim may be the one reported", ref="DESIGN.md section 4 C15"),
 "C16": dict(technique="runtime monitoring: validator call-log monitor (thread-local log written by harness validators, behaviour table) over authentic and forged tokens, registration routes, parser-reuse sequences, validators added to a live parser between parses, and authentic non-object payloads",
   text="Validators registered through validate_claim / extend_validation_claims on all parser kinds: no call for any forged token; for authentic tokens each validator sees the real value exactly once, Ok only if all ran and accept, Err only from a rejecting validator/expectation; sequences of mixed tokens through one parser. quick ~1e4 parses.",
   note="validators are harness functions; forgeries are built by construction (wrong key/footer/assertion/header, bit flip, truncation)", ref="DESIGN.md section 4 C16"),
 "C17": dict(technique="runtime monitoring: reference-model monitor (duplicate-key state machine) over exhaustive call words, seeded random histories up to length 40, pairs of builders with interleaved operations, barrier-released rounds of builders on different threads (claim names new to the process in every round), histories with a build that fails in the sealing step and a dictionary of colliding key pairs",
   text="All words up to length 4 (thorough 5) over 9 claim keys + acknowledge + footer + build on v4.local, random words on all 8 protocols: after the first repeated key every build fails with the duplicate error naming a duplicated key; otherwise every build succeeds with the caller's values; exp-after-acknowledgement latitude encoded as two admissible outcomes.",
   note="local payloads are read back with the library's decrypt (C01 covers that)", ref="DESIGN.md section 4 C17"),
 "C18": dict(technique="runtime monitoring: constructor monitor (set-membership oracle; rendering generator; broad ISO 8601 date-prefix recogniser) over an exhaustive small key space, decorated reserved keys, random keys and the RFC 3339 rendering space",
   text="CustomClaim::try_from on all 69 905 strings of length <= 4 over a 16-symbol alphabet x 3 forms, decorated variants x 6 forms, 2e4 random keys: fails iff the key is literally reserved. Time constructors accept every strict RFC 3339 rendering verbatim (also through a built token) and refuse strings that cannot start with an ISO 8601 date. quick ~3e5 evaluations.",
   note="'must refuse' only outside a broad superset of ISO 8601 date prefixes", ref="DESIGN.md section 4 C18"),
 "C20": dict(technique="runtime monitoring: configuration-matrix runner that builds and EXECUTES a cfg-gated smoke program per feature set and checks the observed protocol/layer round-trip lines",
   text="Every listed feature configuration is built from the current tree (hooks off) and its binary executed; a configuration passes only if exactly the enabled protocols round-tripped at exactly the enabled layers. quick = 8 singletons + 28 pairs + full set x 3 layers + 36 seeded random subsets of 3-7 protocols + default + none (149); thorough = all 255 subsets x 3 layers + 2 (767, exhaustive over the documented feature lattice).",
   note="one fixed input per protocol/layer; debug profile; host target only; cargo's feature resolver is trusted", ref="DESIGN.md section 4 C20", engine="c20-matrix"),
}

NOT_APPLICABLE = [
 {"property_id": "C19", "reason": "quantifies over programs that must NOT compile; such programs have no execution for a runtime monitor, hook or sanitizer to observe (DESIGN.md section 5)"},
]

def main():
    props = [json.loads(l)["id"] for l in open(os.path.join(VERIF, "properties.jsonl"))]
    checks = []
    for pid in props:
        c = CHECKS.get(pid)
        if not c:
            continue
        checks.append({
            "property_id": pid,
            "quick_cmd": "./check %s quick" % pid,
            "thorough_cmd": "./check %s thorough" % pid,
            "evidence_file": "/verif/evidence/%s.json" % pid,
            "replay_cmd_template": "./check %s --replay {path}" % pid,
            "engine": c.get("engine", "vh-harness"),
            "technique": c["technique"],
            "level_claimed": {"category": "exploration", "text": c["text"], "design_ref": c["ref"]},
            "level_note": c["note"],
        })
    na = list(NOT_APPLICABLE)
    claimed = {c["property_id"] for c in checks}
    listed = {n["property_id"] for n in na}
    for pid in props:
        if pid not in claimed and pid not in listed:
            na.append({"property_id": pid, "reason": "check not built yet (work in progress); will be claimed once its monitor exists"})
    m = {
        "version": 1,
        "setup_cmd": "./setup.sh",
        "hooks": {
            "guard": "rusty_paseto_verif",
            "enable": "RUSTFLAGS='--cfg rusty_paseto_verif' (set by ./check when it builds the harness crate against /repo; C20 builds with the guard off)",
            "baseline_off_cmd": "cd /repo && cargo nextest run --workspace --no-fail-fast --test-threads 8 --offline",
            "source_commits": HOOK_COMMITS,
            "add_only": True,
        },
        "engines": [
            {"name": "vh-harness", "path": "harness/", "serves_properties": sorted(p for p in claimed if p not in ("C20", "C08")),
             "kind_free_text": "Rust binary linked against /repo (all 8 protocol features, hooks on): workload drivers + online monitors, one driver per property; ./check wraps it (build, watchdog, known-findings filter, evidence)"},
            {"name": "c08-differential", "path": "vlib/c08.py + refpaseto/ + harness/src/c08.rs", "serves_properties": ["C08"],
             "kind_free_text": "offline checker joining the library's token log with the reference model's, both directions; refpaseto = pure-Python transcription of the PASETO spec with from-scratch AES/ChaCha20/Poly1305/Ed25519/P-384/RSA-PSS"},
            {"name": "c20-matrix", "path": "vlib/c20.py + smoke/", "serves_properties": ["C20"],
             "kind_free_text": "feature-configuration matrix: cargo build + execute a cfg-gated smoke program per configuration"},
        ],
        "checks": checks,
        "not_applicable": na,
        "notes": "Exit codes: 0 held on everything observed, 1 violation (VIOLATION line + replay file), 2 inconclusive (infrastructure; never folded into 0 or 1). Known findings: KNOWN_FINDINGS.txt.",
    }
    json.dump(m, open(os.path.join(VERIF, "MANIFEST.json"), "w"), indent=1)
    print("MANIFEST.json: %d checks, %d not_applicable" % (len(checks), len(na)))

if __name__ == "__main__":
    main()
