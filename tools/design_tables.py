#!/usr/bin/env python3
"""Prints the markdown tables of DESIGN.md sections 8 (self-test catalogue) and 11 (seeded changes) from
selftest/last_run.json and seeded/*/meta.json, and splices them into DESIGN.md between the marker comments."""
import json, os, re, glob
VERIF = os.path.dirname(os.path.dirname(os.path.abspath(__file__)))

def selftest_table():
    p = os.path.join(VERIF, "selftest", "last_run.json")
    if not os.path.exists(p):
        return "(selftest/last_run.json not present)\n"
    rows = ["| mutant | what it does | pinned tests | checks that must fire (quick) |", "|---|---|---|---|"]
    for r in json.load(open(p)):
        if "error" in r:
            rows.append("| `%s` | %s | – | CANNOT APPLY: %s |" % (r["id"], r["desc"], r["error"]))
            continue
        ch = ", ".join("%s: %s" % (k, "**caught**" if v["exit"] == 1 else ("MISSED" if v["exit"] == 0 else "inconclusive")) for k, v in r["checks"].items())
        rows.append("| `%s` | %s | %s | %s |" % (r["id"], r["desc"], {True: "pass", False: "FAIL (mutant visible to the pinned suite)", None: "n/a"}[r.get("repo_tests_pass")], ch))
    return "\n".join(rows) + "\n"

try:
    SUMMARIES = json.load(open(os.path.join(VERIF, "seeded", "summaries.json")))
except (OSError, ValueError):
    SUMMARIES = {}


def seeded_table():
    rows = ["| seeded change | breaks | what it does / what it needs to manifest | confirmed | caught by (quick tier) |", "|---|---|---|---|---|"]
    for d in sorted(glob.glob(os.path.join(VERIF, "seeded", "*"))):
        mp = os.path.join(d, "meta.json")
        if not os.path.exists(mp):
            continue
        m = json.load(open(mp))
        summ = m.get("summary") or SUMMARIES.get(os.path.basename(d), "see notes.md")
        conf = "yes" if m.get("kept") else "NO (not kept)"
        target = m["breaks_property"]
        caught = m.get("caught_by", [])
        c = ", ".join(("**%s**" % x) if x == target else x for x in caught) or "—"
        if target not in caught and m.get("kept"):
            c += " (target %s: %s)" % (target, m.get("target_note", "MISSED"))
        rows.append("| `%s` | %s | %s | %s | %s |" % (os.path.basename(d), target, summ, conf, c))
    return "\n".join(rows) + "\n"

def summary_table():
    man = json.load(open(os.path.join(VERIF, "MANIFEST.json")))
    rows = ["| id | decided by (technique) | last committed evidence: tier, evaluations, distinct non-trivial, wall |", "|---|---|---|"]
    for c in man["checks"]:
        pid = c["property_id"]
        ev = {}
        p = os.path.join(VERIF, "evidence", pid + ".json")
        if os.path.exists(p):
            ev = json.load(open(p))
        cov = ev.get("coverage", {})
        rows.append("| %s | %s | %s: %s evaluations, %s distinct, %.0f s |" % (pid, c.get("technique", "").replace("runtime monitoring: ", ""), ev.get("tier", "?"),
                    format(cov.get("evaluations", 0), ","), format(cov.get("distinct_nontrivial", 0), ","), ev.get("wall_s", 0)))
    for n in man.get("not_applicable", []):
        rows.append("| %s | **not applicable** — %s | – |" % (n["property_id"], n["reason"]))
    return "\n".join(rows) + "\n"

def splice(text, marker, body):
    a, b = "<!-- %s:begin -->" % marker, "<!-- %s:end -->" % marker
    if a not in text:
        return text
    return re.sub(re.escape(a) + r".*?" + re.escape(b), lambda _: a + "\n" + body + b, text, flags=re.S)

if __name__ == "__main__":
    p = os.path.join(VERIF, "DESIGN.md")
    t = open(p).read()
    t = splice(t, "selftest-table", selftest_table())
    t = splice(t, "seeded-table", seeded_table())
    t = splice(t, "summary-table", summary_table())
    open(p, "w").write(t)
    print("DESIGN.md tables refreshed")
