#!/usr/bin/env python3
"""Regenerates the RSA-2048 fixture pool (fixtures/rsa_<i>_private.pk8, rsa_<i>_public.der) from fixed seeds with
the pure-Python reference (Miller-Rabin).  The files are committed; this script documents their provenance."""
import os, sys
VERIF = os.path.dirname(os.path.dirname(os.path.abspath(__file__)))
sys.path.insert(0, VERIF)
from refpaseto import asym as A
for i in range(4):
    k = A.rsa_generate(b"rusty_paseto verif rsa fixture %d" % i)
    open(os.path.join(VERIF, "fixtures", "rsa_%d_private.pk8" % i), "wb").write(A.rsa_private_to_pkcs8(k["n"], k["e"], k["d"], k["p"], k["q"]))
    open(os.path.join(VERIF, "fixtures", "rsa_%d_public.der" % i), "wb").write(A.rsa_public_to_der(k["n"], k["e"]))
    print(i, k["n"].bit_length(), k["p"] > k["q"])
