#!/usr/bin/env python3
"""One-off: transcribe the official PASETO vectors out of /repo/tests/version{1,2,3,4}_test_vectors.rs
(at the pinned commit) into fixtures/official_vectors.json.  The JSON file is committed; this script is
kept for provenance."""
import json, re, sys, os
VERIF = os.path.dirname(os.path.dirname(os.path.abspath(__file__)))
out = []
for v in (1, 2, 3, 4):
    src = open('/repo/tests/version%d_test_vectors.rs' % v).read()
    # strip line comments
    src = '\n'.join(l for l in src.split('\n') if not l.strip().startswith('//'))
    fns = re.split(r'\n\s*fn (test_\d_[a-z]_\d+)\(\)', src)
    for i in range(1, len(fns), 2):
        name, body = fns[i], fns[i + 1]
        m = re.match(r'test_(\d)_([esf])_(\d+)', name)
        kind = m.group(2)
        if kind == 'f':
            continue
        rec = {'name': '%s-%s-%s' % (m.group(1), kind.upper(), m.group(3)), 'version': v, 'purpose': 'local' if kind == 'e' else 'public'}
        tok = re.search(r'assert_eq!\(\s*token(?:\.to_string\(\))?,\s*"([^"]+)"', body)
        rec['token'] = tok.group(1) if tok else None
        pl = re.search(r'let payload\s*=\s*json!\((\{.*?\})\)\s*\.to_string\(\)', body, re.S)
        if pl:
            rec['payload'] = json.dumps(json.loads(pl.group(1)), separators=(',', ':'), sort_keys=True, ensure_ascii=False)
        else:
            pl = re.search(r'let payload\s*=\s*"((?:[^"\\]|\\.)*)"', body)
            rec['payload'] = json.loads('"' + pl.group(1) + '"') if pl else None
        ft = re.search(r'let footer\s*=\s*json!\((\{.*?\})\)\s*\.to_string\(\)', body, re.S)
        if ft:
            rec['footer'] = json.dumps(json.loads(ft.group(1)), separators=(',', ':'), sort_keys=True, ensure_ascii=False)
        else:
            ft = re.search(r'Footer::from\(\s*"((?:[^"\\]|\\.)*)"\s*\)', body) or re.search(r'let footer\s*=\s*"((?:[^"\\]|\\.)*)"', body)
            rec['footer'] = json.loads('"' + ft.group(1) + '"') if ft else ''
        ia = re.search(r'let (?:implicit_)?assertion\s*=\s*json!\((\{.*?\})\)\s*\.to_string\(\)', body, re.S)
        if ia:
            rec['implicit_assertion'] = json.dumps(json.loads(ia.group(1)), separators=(',', ':'), sort_keys=True, ensure_ascii=False)
        else:
            ia = re.search(r'ImplicitAssertion::from\(\s*"((?:[^"\\]|\\.)*)"\s*\)', body)
            rec['implicit_assertion'] = json.loads('"' + ia.group(1) + '"') if ia else ''
        hexes = re.findall(r'Key::<(\d+)>::try_from\(\s*"([0-9a-fA-F]+)"', body)
        if kind == 'e':
            rec['key'] = [h for n, h in hexes if n == '32'][0]
            rec['nonce'] = [h for n, h in hexes if n in ('32', '24')][1]
        else:
            d = {n: h for n, h in hexes}
            if v in (2, 4):
                rec['secret_key'] = d.get('64'); rec['public_key'] = d.get('32')
            elif v == 3:
                rec['secret_key'] = d.get('48'); rec['public_key'] = d.get('49')
            else:
                rec['secret_key_pk8_file'] = 'rsa_official_private.pk8'; rec['public_key_der_file'] = 'rsa_official_public.der'
        out.append(rec)
json.dump(out, open(os.path.join(VERIF, 'fixtures', 'official_vectors.json'), 'w'), indent=1, ensure_ascii=False)
for r in out:
    print(r['name'], r['purpose'], 'tok' if r['token'] else 'NO-TOKEN', repr(r['payload'])[:50], repr(r['footer'])[:40], repr(r.get('implicit_assertion'))[:40], r.get('nonce', '')[:8])
