#!/bin/sh
# usage: tools/run_all.sh quick|thorough [ids...]   -- runs the registered checks one after the other, prints one line each
cd "$(dirname "$0")/.."
tier=${1:-quick}; shift
ids=${*:-C01 C02 C03 C04 C05 C06 C07 C08 C09 C10 C11 C12 C13 C14 C15 C16 C17 C18 C20}
for p in $ids; do
  s=$(date +%s)
  out=$(./check $p $tier 2>&1); code=$?
  e=$(date +%s)
  echo "$p exit=$code $((e-s))s :: $(echo "$out" | tail -1)"
  if [ $code -ne 0 ]; then echo "$out" | grep -E "VIOLATION|INCONCLUSIVE|KNOWN" | head -5; fi
done
