// C20 smoke program: one cfg-gated block per protocol feature; inside it one round trip per
// enabled layer.  A line "<protocol> <layer>" is printed only AFTER the round trip at that layer
// succeeded and returned exactly what went in.  The matrix runner compares the printed set with
// the set expected for the configuration.  The code compiled for a feature set S is the union of
// the per-protocol blocks, hence a subset of the code compiled for every superset of S.
#![allow(unused_imports, unused_macros, dead_code)]

const SYM_KEY: [u8; 32] = *b"wubbalubbadubdubwubbalubbadubdub";
const NONCE: [u8; 32] = [0x5a; 32];
const ED_PRIV_HEX: &str = "b4cbfb43df4ce210727d953e4a713307fa19bb7d9f85041438d9e11b942a37741eb9dbbbbc047c03fd70604e0071f0987e16b28b757225c11f00415d0e20b1a2";
const ED_PUB_HEX: &str = "1eb9dbbbbc047c03fd70604e0071f0987e16b28b757225c11f00415d0e20b1a2";
const P384_PRIV_HEX: &str = "20347609607477aca8fbfbc5e6218455f3199669792ef8b466faa87bdc67798144c848dd03661eed5ac62461340cea96";
const P384_PUB_HEX: &str = "02fbcb7c69ee1c60579be7a334134878d9c5c5bf35d552dab63c0140397ed14cef637d7720925c44699ea30e72874c72fb";
static RSA_PRIV: &[u8] = include_bytes!("../fixtures/rsa_official_private.pk8");
static RSA_PUB: &[u8] = include_bytes!("../fixtures/rsa_official_public.der");

const MSG: &str = "{\"data\":\"smoke \u{1F980} message\",\"n\":1}";
const FOOTER: &str = "smoke-footer";
const ASSERTION: &str = "smoke-assertion";

fn fail(what: &str) -> ! {
    println!("FAIL {}", what);
    std::process::exit(3)
}

fn settle() {
    // default nbf is the builder's creation instant; the default parser wants now > nbf
    std::thread::sleep(std::time::Duration::from_millis(3));
}

// ---------- per-protocol key construction (core types, available in every layer) ----------
macro_rules! local_key {
    ($v:ident) => {
        PasetoSymmetricKey::<$v, Local>::from(Key::<32>::from(SYM_KEY))
    };
}

// ---------- core layer ----------
macro_rules! core_local {
    ($name:literal, $v:ident, noassert) => {{
        use rusty_paseto::core::*;
        let key = local_key!($v);
        let n = Key::<32>::from(NONCE);
        let nonce = PasetoNonce::<$v, Local>::from(&n);
        let tok = Paseto::<$v, Local>::builder()
            .set_payload(Payload::from(MSG))
            .set_footer(Footer::from(FOOTER))
            .try_encrypt(&key, &nonce)
            .unwrap_or_else(|e| fail(&format!("{} core encrypt: {:?}", $name, e)));
        let back = Paseto::<$v, Local>::try_decrypt(&tok, &key, Footer::from(FOOTER))
            .unwrap_or_else(|e| fail(&format!("{} core decrypt: {:?}", $name, e)));
        if back != MSG { fail(concat!($name, " core mismatch")); }
        println!("{} core", $name);
    }};
    ($name:literal, $v:ident, assert) => {{
        use rusty_paseto::core::*;
        let key = local_key!($v);
        let n = Key::<32>::from(NONCE);
        let nonce = PasetoNonce::<$v, Local>::from(&n);
        let tok = Paseto::<$v, Local>::builder()
            .set_payload(Payload::from(MSG))
            .set_footer(Footer::from(FOOTER))
            .set_implicit_assertion(ImplicitAssertion::from(ASSERTION))
            .try_encrypt(&key, &nonce)
            .unwrap_or_else(|e| fail(&format!("{} core encrypt: {:?}", $name, e)));
        let back = Paseto::<$v, Local>::try_decrypt(&tok, &key, Footer::from(FOOTER), ImplicitAssertion::from(ASSERTION))
            .unwrap_or_else(|e| fail(&format!("{} core decrypt: {:?}", $name, e)));
        if back != MSG { fail(concat!($name, " core mismatch")); }
        println!("{} core", $name);
    }};
}

macro_rules! core_public {
    ($name:literal, $v:ident, $sk:expr, $pk:expr, noassert) => {{
        use rusty_paseto::core::*;
        let sk = $sk;
        let pk = $pk;
        let tok = Paseto::<$v, Public>::builder()
            .set_payload(Payload::from(MSG))
            .set_footer(Footer::from(FOOTER))
            .try_sign(&sk)
            .unwrap_or_else(|e| fail(&format!("{} core sign: {:?}", $name, e)));
        let back = Paseto::<$v, Public>::try_verify(&tok, &pk, Footer::from(FOOTER))
            .unwrap_or_else(|e| fail(&format!("{} core verify: {:?}", $name, e)));
        if back != MSG { fail(concat!($name, " core mismatch")); }
        println!("{} core", $name);
    }};
    ($name:literal, $v:ident, $sk:expr, $pk:expr, assert) => {{
        use rusty_paseto::core::*;
        let sk = $sk;
        let pk = $pk;
        let tok = Paseto::<$v, Public>::builder()
            .set_payload(Payload::from(MSG))
            .set_footer(Footer::from(FOOTER))
            .set_implicit_assertion(ImplicitAssertion::from(ASSERTION))
            .try_sign(&sk)
            .unwrap_or_else(|e| fail(&format!("{} core sign: {:?}", $name, e)));
        let back = Paseto::<$v, Public>::try_verify(&tok, &pk, Footer::from(FOOTER), ImplicitAssertion::from(ASSERTION))
            .unwrap_or_else(|e| fail(&format!("{} core verify: {:?}", $name, e)));
        if back != MSG { fail(concat!($name, " core mismatch")); }
        println!("{} core", $name);
    }};
}

// ---------- generic layer ----------
macro_rules! generic_rt {
    ($name:literal, $v:ident, $p:ident, $build:ident, $bk:expr, $pk:expr, $($assert:tt)*) => {{
        use rusty_paseto::generic::*;
        let bk = $bk;
        let pk = $pk;
        let mut b = GenericBuilder::<$v, $p>::default();
        b.set_claim(AudienceClaim::from("smoke-aud"))
            .set_claim(CustomClaim::try_from(("n", 7)).unwrap_or_else(|_| fail("custom claim")))
            .set_footer(Footer::from(FOOTER));
        generic_assert_b!(b, $($assert)*);
        let tok = b.$build(&bk).unwrap_or_else(|e| fail(&format!("{} generic build: {:?}", $name, e)));
        let mut p = GenericParser::<$v, $p>::default();
        p.check_claim(AudienceClaim::from("smoke-aud")).set_footer(Footer::from(FOOTER));
        generic_assert_b!(p, $($assert)*);
        let json = p.parse(&tok, &pk).unwrap_or_else(|e| fail(&format!("{} generic parse: {:?}", $name, e)));
        if json["aud"].as_str() != Some("smoke-aud") || json["n"].as_i64() != Some(7) {
            fail(concat!($name, " generic mismatch"));
        }
        println!("{} generic", $name);
    }};
}
macro_rules! generic_assert_b {
    ($b:ident, assert) => { $b.set_implicit_assertion(ImplicitAssertion::from(ASSERTION)); };
    ($b:ident, noassert) => {};
}

// ---------- batteries_included layer ----------
macro_rules! batteries_rt {
    ($name:literal, $v:ident, $p:ident, $bk:expr, $pk:expr, $($assert:tt)*) => {{
        use rusty_paseto::prelude::*;
        let bk = $bk;
        let pk = $pk;
        let mut b = PasetoBuilder::<$v, $p>::default();
        b.set_claim(SubjectClaim::from("smoke-sub"))
            .set_claim(CustomClaim::try_from(("n", 9)).unwrap_or_else(|_| fail("custom claim")))
            .set_footer(Footer::from(FOOTER));
        generic_assert_b!(b, $($assert)*);
        let tok = b.build(&bk).unwrap_or_else(|e| fail(&format!("{} batteries build: {:?}", $name, e)));
        settle();
        let mut p = PasetoParser::<$v, $p>::default();
        p.check_claim(SubjectClaim::from("smoke-sub")).set_footer(Footer::from(FOOTER));
        generic_assert_b!(p, $($assert)*);
        let json = p.parse(&tok, &pk).unwrap_or_else(|e| fail(&format!("{} batteries parse: {:?}", $name, e)));
        if json["sub"].as_str() != Some("smoke-sub") || json["n"].as_i64() != Some(9) || !json["exp"].is_string() {
            fail(concat!($name, " batteries mismatch"));
        }
        println!("{} batteries_included", $name);
    }};
}

macro_rules! local_proto {
    ($name:literal, $v:ident, $($assert:tt)*) => {{
        core_local!($name, $v, $($assert)*);
        #[cfg(any(feature = "generic", feature = "repo_default"))]
        {
            use rusty_paseto::core::*;
            generic_rt!($name, $v, Local, try_encrypt, local_key!($v), local_key!($v), $($assert)*);
        }
        #[cfg(any(feature = "batteries_included", feature = "repo_default"))]
        {
            use rusty_paseto::core::*;
            batteries_rt!($name, $v, Local, local_key!($v), local_key!($v), $($assert)*);
        }
    }};
}

macro_rules! ed_proto {
    ($name:literal, $v:ident, $($assert:tt)*) => {{
        use rusty_paseto::core::*;
        let skb = Key::<64>::try_from(ED_PRIV_HEX).unwrap_or_else(|_| fail("ed priv hex"));
        let pkb = Key::<32>::try_from(ED_PUB_HEX).unwrap_or_else(|_| fail("ed pub hex"));
        core_public!($name, $v, PasetoAsymmetricPrivateKey::<$v, Public>::from(&skb), PasetoAsymmetricPublicKey::<$v, Public>::from(&pkb), $($assert)*);
        #[cfg(any(feature = "generic", feature = "repo_default"))]
        generic_rt!($name, $v, Public, try_sign, PasetoAsymmetricPrivateKey::<$v, Public>::from(&skb), PasetoAsymmetricPublicKey::<$v, Public>::from(&pkb), $($assert)*);
        #[cfg(any(feature = "batteries_included", feature = "repo_default"))]
        batteries_rt!($name, $v, Public, PasetoAsymmetricPrivateKey::<$v, Public>::from(&skb), PasetoAsymmetricPublicKey::<$v, Public>::from(&pkb), $($assert)*);
    }};
}

// What downstream code relies on besides the round trips: the error types can be boxed as `dyn Error + Send + Sync`
// (anyhow, `?` into Box<dyn Error + Send + Sync>, results returned from threads or held across .await) in EVERY
// configuration - a feature that adds a non-Send payload to an error enum breaks code that compiled without it.
#[cfg(any(feature = "core", feature = "repo_default", feature = "v1_local", feature = "v2_local", feature = "v3_local", feature = "v4_local", feature = "v1_public", feature = "v2_public", feature = "v3_public", feature = "v4_public"))]
fn error_types_are_send_sync() {
    fn is<T: std::error::Error + Send + Sync + 'static>() {}
    is::<rusty_paseto::core::PasetoError>();
    #[cfg(any(feature = "generic", feature = "repo_default"))]
    {
        is::<rusty_paseto::generic::GenericBuilderError>();
        is::<rusty_paseto::generic::GenericParserError>();
        is::<rusty_paseto::generic::PasetoClaimError>();
    }
}

fn main() {
    #[cfg(feature = "v1_local")]
    local_proto!("v1_local", V1, noassert);
    #[cfg(feature = "v2_local")]
    local_proto!("v2_local", V2, noassert);
    #[cfg(feature = "v3_local")]
    local_proto!("v3_local", V3, assert);
    #[cfg(any(feature = "v4_local", feature = "repo_default"))]
    local_proto!("v4_local", V4, assert);

    #[cfg(feature = "v1_public")]
    {
        use rusty_paseto::core::*;
        core_public!("v1_public", V1, PasetoAsymmetricPrivateKey::<V1, Public>::from(RSA_PRIV), PasetoAsymmetricPublicKey::<V1, Public>::from(RSA_PUB), noassert);
        #[cfg(any(feature = "generic", feature = "repo_default"))]
        generic_rt!("v1_public", V1, Public, try_sign, PasetoAsymmetricPrivateKey::<V1, Public>::from(RSA_PRIV), PasetoAsymmetricPublicKey::<V1, Public>::from(RSA_PUB), noassert);
        #[cfg(any(feature = "batteries_included", feature = "repo_default"))]
        batteries_rt!("v1_public", V1, Public, PasetoAsymmetricPrivateKey::<V1, Public>::from(RSA_PRIV), PasetoAsymmetricPublicKey::<V1, Public>::from(RSA_PUB), noassert);
    }
    #[cfg(feature = "v2_public")]
    ed_proto!("v2_public", V2, noassert);
    #[cfg(feature = "v3_public")]
    {
        use rusty_paseto::core::*;
        let skb = Key::<48>::try_from(P384_PRIV_HEX).unwrap_or_else(|_| fail("p384 priv hex"));
        let pkb = Key::<49>::try_from(P384_PUB_HEX).unwrap_or_else(|_| fail("p384 pub hex"));
        macro_rules! pk3 { () => { PasetoAsymmetricPublicKey::<V3, Public>::try_from(&pkb).unwrap_or_else(|_| fail("p384 pub")) }; }
        core_public!("v3_public", V3, PasetoAsymmetricPrivateKey::<V3, Public>::from(&skb), pk3!(), assert);
        #[cfg(any(feature = "generic", feature = "repo_default"))]
        generic_rt!("v3_public", V3, Public, try_sign, PasetoAsymmetricPrivateKey::<V3, Public>::from(&skb), pk3!(), assert);
        #[cfg(any(feature = "batteries_included", feature = "repo_default"))]
        batteries_rt!("v3_public", V3, Public, PasetoAsymmetricPrivateKey::<V3, Public>::from(&skb), pk3!(), assert);
    }
    #[cfg(any(feature = "v4_public", feature = "repo_default"))]
    ed_proto!("v4_public", V4, assert);

    println!("DONE");
}
