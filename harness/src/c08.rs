//! C08: event-log side of the differential check against the independent reference (refpaseto, Python).
//!   emit     : run the real library on a case list, write one JSON line per produced token
//!   consume  : open reference-built tokens with the real library, write one JSON line per outcome
//! The verdicts are computed by the offline checker (monitors/c08.py) that joins the logs.
use crate::gens::{self, Pools};
use crate::proto::*;
use crate::report::Report;
use crate::rng::Rng;
use crate::util;
use serde_json::{json, Value};
use std::io::{BufRead, Write};

fn opt_cat(rng: &mut Rng, k: usize) -> Option<String> {
    match k % 7 {
        // long values: beyond any fixed comparison / encoding buffer (192, 384, 768, 1024, 4096, 65536 bytes)
        6 => Some("L".repeat([193usize, 385, 769, 1025, 4097, 8193, 70_000][(k / 7) % 7])),
        0 => None,
        1 => Some(String::new()),
        2 => Some("footer-ascii".into()),
        3 => Some("f\u{fc}\u{df}-\u{6f22}-\u{1F980}".into()),
        4 => Some("{\"kid\":\"zVhMiPBP9fRf2snEcT7gFTioeA9COcNy9DfgL1W60haN\"}".into()),
        _ => match k % 5 {
            0 => Some(" ".into()),
            1 => Some("\n".into()),
            2 => Some("\u{3000}\t".into()),
            4 if (k / 5) % 2 == 0 => Some(["{\"kid\":\"k\",\"ctx\":{\"roles\":[\"admin\"]}}", "{\"kid\":\"x\",\"note\":\"see [[wiki]] {{x}}\"}", "{not json", "{\"a\":[[[[[[[[[[[[[[[[[[1]]]]]]]]]]]]]]]]]]}"][(k / 35) % 4].to_string()),
            3 => Some(["~~~", "{\"kid\":\"k-1\",\"jku\":\"https://example.com/keys?id=1\"}", "\u{65e5}\u{672c}\u{8a9e}\u{306e}\u{30d5}\u{30c3}\u{30bf}\u{30fc}", "ab?", "kid:\u{FFFD}7"][(k / 30) % 5].into()),
            _ => Some(rng.utf8_upto(40)),
        },
    }
}

pub fn emit(tier: &str, seed: u64, path: &str) -> Report {
    let thorough = tier == "thorough";
    let mut r = Report::new();
    let pools = Pools::new(seed, if thorough { 40 } else { 10 }, if thorough { 12 } else { 4 });
    if pools.rsa.is_empty() {
        r.inconclusive.push("no RSA key fixtures found".into());
        return r;
    }
    let mut f = std::io::BufWriter::new(std::fs::File::create(path).expect("create lib log"));
    let mut rng = Rng::new(seed, "c08-emit", 0);
    let mut id = 0u64;
    let mut line = |f: &mut std::io::BufWriter<std::fs::File>, v: Value| {
        let _ = writeln!(f, "{}", v);
    };
    for &p in &ALL {
        // message lengths: every length 0..=130, the boundary catalogue, 64 KiB (thorough: to 256 KiB), random
        let mut lens: Vec<usize> = if p.is_local() { (0..=130).collect() } else { (0..=130).step_by(if p == P::V2P || p == P::V4P { 3 } else { 9 }).collect() };
        if p.is_local() {
            lens.extend_from_slice(gens::BOUNDARY_LENGTHS);
            lens.extend_from_slice(&[8191, 8192, 8193, 16384, 32768, 65535, 65536]);
            for _ in 0..6 {
                lens.push(4098 + rng.below(61000));
            }
            if thorough {
                lens.extend_from_slice(&[65537, 131071, 262144]);
            }
        } else {
            lens.extend_from_slice(&[255, 256, 257, 1024, 4095, 4096, 4097, 8192, 65536]);
        }
        let extra = match (p.is_local(), thorough) {
            (true, false) => 150,
            (true, true) => 30_000,
            (false, false) => 20,
            (false, true) => if p == P::V1P || p == P::V3P { 2000 } else { 6000 },
        };
        for _ in 0..extra {
            lens.push(rng.below(if p.is_local() { 3000 } else { 600 }));
        }
        let mut prev: Option<(Vec<u8>, usize)> = None;
        for (k, &n) in lens.iter().enumerate() {
            let mut ki = rng.below(pools.count(p));
            let mut nonce = if p == P::V2L && k % 2 == 1 { rng.bytes(24) } else { rng.bytes(32) };
            // every fifth record re-uses the nonce of the record before it under ANOTHER key (what is derived from a nonce must
            // not be remembered apart from the key)
            if k % 5 == 4 && pools.count(p) > 1 {
                if let Some((pn, pk)) = &prev {
                    nonce = pn.clone();
                    if ki == *pk {
                        ki = (ki + 1) % pools.count(p);
                    }
                }
            }
            prev = Some((nonce.clone(), ki));
            let key = pools.key(p, ki);
            let msg = match k % 3 {
                0 => gens::ascii_of_len(n, k as u8),
                1 => gens::utf8_of_len(n, &mut rng),
                _ => {
                    let mut s = rng.utf8(n);
                    while s.len() > n && !s.is_empty() {
                        s.pop();
                    }
                    s
                }
            };
            // messages that begin with a byte-order mark or white space / end in white space are messages like any other
            let msg = match k % 7 {
                3 => format!("\u{feff}{}", msg),
                5 => format!(" {}\n", msg),
                _ => msg,
            };
            let footer = opt_cat(&mut rng, k);
            let ia = if p.has_assertion() { opt_cat(&mut rng, k / 6 + k) } else { None };
            let (out, _) = core_seal(p, &key, &nonce, &msg, footer.as_deref(), ia.as_deref());
            r.evaluations += 1;
            id += 1;
            let rec = json!({"id": id, "layer": "core", "p": p.name(), "key": key, "nonce": util::hex(&nonce), "msg": msg, "footer": footer, "ia": ia,
                "token": out.ok(), "error": match &out { Out::Ok(_) => None, o => Some(o.brief()) }});
            line(&mut f, rec);
            if out.is_ok() {
                r.count(&format!("{} core tokens emitted", p.name()));
            } else {
                r.violation(format!("C08 seal-failed {}", p.name()), format!("{}: the library failed to produce a token: {}", p.name(), out.brief()), json!({"cmd": "C08", "note": "seal failure", "p": p.name()}));
            }
        }
        // ONE key object sealing a whole series (applications keep their key objects): every token of the series must be the
        // specification's, not only the first
        for ki in 0..pools.count(p).min(2) {
            let key = pools.key(p, ki);
            let n = match (p, thorough) {
                (P::V1P, false) => 4,
                (P::V3P, false) => 8,
                (_, false) => 24,
                (P::V1P | P::V3P, true) => 60,
                (_, true) => 600,
            };
            let mut steps = Vec::new();
            for k in 0..n {
                let nonce = if p == P::V2L && k % 2 == 1 { rng.bytes(24) } else { rng.bytes(32) };
                let len = [0usize, 1, 15, 16, 17, 31, 32, 33, 64, 100, 255, 256, 1000][k % 13];
                let msg = if k % 2 == 0 { gens::ascii_of_len(len, k as u8) } else { gens::utf8_of_len(len, &mut rng) };
                let footer = opt_cat(&mut rng, k);
                let ia = if p.has_assertion() { opt_cat(&mut rng, k / 6 + k) } else { None };
                steps.push(KStep::Seal { nonce, msg, footer, ia });
            }
            let outs = core_key_session(p, &key, &steps);
            for (st, out) in steps.iter().zip(outs.into_iter()) {
                if let KStep::Seal { nonce, msg, footer, ia } = st {
                    r.evaluations += 1;
                    id += 1;
                    let rec = json!({"id": id, "layer": "core", "p": p.name(), "key": key, "nonce": util::hex(nonce), "msg": msg, "footer": footer, "ia": ia,
                        "token": out.clone().ok(), "error": match &out { Out::Ok(_) => None, o => Some(o.brief()) }});
                    line(&mut f, rec);
                    if out.is_ok() {
                        r.count(&format!("{} core tokens emitted from ONE key object", p.name()));
                    } else {
                        r.violation(format!("C08 seal-failed {}", p.name()), format!("{}: the library failed to produce a token from a key object used before: {}", p.name(), out.brief()), json!({"cmd": "C08", "note": "seal failure", "p": p.name()}));
                    }
                }
            }
        }
        // ONE core builder object sealed from several times (configured once): every token must be the specification's token
        // for the configured (message, footer, assertion), not only the first
        for k in 0..(match (p, thorough) { (P::V1P | P::V3P, false) => 2, (_, false) => 8, (P::V1P | P::V3P, true) => 30, (_, true) => 300 }) {
            let key = pools.key(p, k % pools.count(p));
            let n = 2 + k % 3;
            let nonces: Vec<Vec<u8>> = (0..n).map(|j| if p == P::V2L && (j + k) % 2 == 1 { rng.bytes(24) } else { rng.bytes(32) }).collect();
            let msg = gens::utf8_of_len([0usize, 5, 16, 33, 100, 1000][k % 6], &mut rng);
            let footer = opt_cat(&mut rng, k + 1);
            let ia = if p.has_assertion() { opt_cat(&mut rng, k / 2 + k + 3) } else { None };
            let outs = core_seal_many(p, &key, &nonces, &msg, footer.as_deref(), ia.as_deref(), false);
            for (nonce, out) in nonces.iter().zip(outs.into_iter()) {
                r.evaluations += 1;
                id += 1;
                let rec = json!({"id": id, "layer": "core", "p": p.name(), "key": key, "nonce": util::hex(nonce), "msg": msg, "footer": footer, "ia": ia,
                    "token": out.clone().ok(), "error": match &out { Out::Ok(_) => None, o => Some(o.brief()) }});
                line(&mut f, rec);
                if out.is_ok() {
                    r.count(&format!("{} core tokens emitted from ONE core builder", p.name()));
                } else {
                    r.violation(format!("C08 seal-failed {}", p.name()), format!("{}: the library failed to produce a token from a core builder used before: {}", p.name(), out.brief()), json!({"cmd": "C08", "note": "seal failure", "p": p.name()}));
                }
            }
        }
        // builder-produced tokens (random internal nonce): the reference must be able to open them; footer presence rule
        let nb = match (p, thorough) {
            (P::V1P | P::V3P, false) => 12,
            (_, false) => 60,
            (P::V1P | P::V3P, true) => 200,
            (_, true) => 1500,
        };
        for k in 0..nb {
            let key = pools.key(p, k % pools.count(p));
            let footer = opt_cat(&mut rng, k);
            let ia = if p.has_assertion() { opt_cat(&mut rng, k + 3) } else { None };
            let claims = vec![ClaimOp::Set(Claim::Custom("data".into(), json!(rng.utf8_upto(60)))), ClaimOp::Set(Claim::Custom("n".into(), json!(k)))];
            let (layer, out) = if k % 2 == 0 {
                ("generic", generic_seal(p, &key, &claims, footer.as_deref(), ia.as_deref()).0)
            } else {
                let mut ops: Vec<BOp> = claims.iter().filter_map(|c| if let ClaimOp::Set(c) = c { Some(BOp::Set(c.clone())) } else { None }).collect();
                if let Some(fo) = &footer {
                    ops.push(BOp::Footer(fo.clone()));
                }
                if let Some(a) = &ia {
                    ops.push(BOp::Assertion(a.clone()));
                }
                ops.push(BOp::Build);
                ("batteries", batteries_run(p, &key, &ops).pop().unwrap_or(Out::Err("no build".into())))
            };
            r.evaluations += 1;
            id += 1;
            line(&mut f, json!({"id": id, "layer": layer, "p": p.name(), "key": key, "nonce": Value::Null, "msg": Value::Null, "footer": footer, "ia": ia, "token": out.ok(),
                "error": match &out { Out::Ok(_) => None, o => Some(o.brief()) }}));
            if out.is_ok() {
                r.count(&format!("{} builder tokens emitted", p.name()));
            }
        }
        // ONE builder whose footer is changed before the build: the token must follow the footer in force (incl. back to empty)
        for (k, (first, last)) in [("old-footer", ""), ("", "new-footer"), ("old-footer", " "), ("old-footer", "new-footer"), (" ", "")].iter().enumerate() {
            let key = pools.key(p, k % pools.count(p));
            let ops = vec![GOp::Set(Claim::Custom("data".into(), json!("footer changed"))), GOp::Footer(first.to_string()), GOp::Footer(last.to_string()), GOp::Build];
            let out = generic_run(p, &key, &ops).pop().unwrap_or(Out::Err("no build".into()));
            r.evaluations += 1;
            id += 1;
            line(&mut f, json!({"id": id, "layer": "generic", "p": p.name(), "key": key, "nonce": Value::Null, "msg": Value::Null, "footer": last, "ia": Value::Null, "token": out.ok(),
                "error": match &out { Out::Ok(_) => None, o => Some(o.brief()) }}));
            if out.is_ok() {
                r.count(&format!("{} builder tokens emitted", p.name()));
            }
        }
    }
    let _ = f.flush();
    r
}

pub fn consume(inp: &str, outp: &str) -> Report {
    let mut r = Report::new();
    let fin = std::io::BufReader::new(std::fs::File::open(inp).expect("open ref log"));
    let mut f = std::io::BufWriter::new(std::fs::File::create(outp).expect("create outcome log"));
    let mut recs: Vec<(Value, P, KeyMat, String, Option<String>, Option<String>, Out<String>)> = Vec::new();
    let mut groups: std::collections::BTreeMap<(String, String), Vec<usize>> = std::collections::BTreeMap::new();
    for l in fin.lines() {
        let l = match l {
            Ok(l) if !l.trim().is_empty() => l,
            _ => continue,
        };
        let v: Value = match serde_json::from_str(&l) {
            Ok(v) => v,
            Err(e) => {
                r.inconclusive.push(format!("bad line in reference log: {}", e));
                continue;
            }
        };
        let p = match v["p"].as_str().and_then(P::from_name) {
            Some(p) => p,
            None => continue,
        };
        let key: KeyMat = match serde_json::from_value(v["key"].clone()) {
            Ok(k) => k,
            Err(e) => {
                r.inconclusive.push(format!("bad key in reference log: {}", e));
                continue;
            }
        };
        let token = v["token"].as_str().unwrap_or("");
        let footer = v["footer"].as_str();
        let ia = v["ia"].as_str();
        let (out, _) = core_open(p, &key, token, footer, ia);
        r.evaluations += 1;
        r.count(&format!("{} reference tokens opened by the library [{}]", p.name(), out.class()));
        groups.entry((p.name().to_string(), v["key"].to_string())).or_default().push(recs.len());
        recs.push((v["id"].clone(), p, key, token.to_string(), footer.map(|s| s.to_string()), ia.map(|s| s.to_string()), out));
    }
    // every token once more through ONE key object per (protocol, key): applications keep their key objects, and state that a
    // key object accumulates (a cached derivation, a remembered salt) shows from the second token on
    for ((pname, _), idxs) in &groups {
        if idxs.len() < 2 {
            continue;
        }
        for chunk in idxs.chunks(64) {
            let (p, key) = (recs[chunk[0]].1, recs[chunk[0]].2.clone());
            let steps: Vec<KStep> = chunk.iter().map(|&i| KStep::Open { token: Some(recs[i].3.clone()), footer: recs[i].4.clone(), ia: recs[i].5.clone() }).collect();
            let outs = core_key_session(p, &key, &steps);
            for (&i, o) in chunk.iter().zip(outs.into_iter()) {
                r.evaluations += 1;
                r.count(&format!("{} reference tokens opened through a shared key object [{}]", pname, o.class()));
                if o.clone().ok() != recs[i].6.clone().ok() {
                    // the two ways of opening disagree: the outcome that is not the plain success is reported
                    if recs[i].6.is_ok() {
                        recs[i].6 = match o {
                            Out::Ok(s) => Out::Ok(s),
                            other => Out::Err(format!("through a key object that opened other tokens before: {}", other.brief())),
                        };
                    }
                }
            }
        }
    }
    for (id, _, _, _, _, _, out) in &recs {
        let rec = json!({"id": id, "ok": out.clone().ok(), "error": match out { Out::Ok(_) => None, o => Some(o.brief()) }});
        let _ = writeln!(f, "{}", rec);
    }
    let _ = f.flush();
    r
}

/// replay helper: seal the recorded inputs again with the current library and hand the token to the parent
pub fn replay_seal(rec: &Value) -> Report {
    let mut r = Report::new();
    let p = match rec["p"].as_str().and_then(P::from_name) {
        Some(p) => p,
        None => {
            r.inconclusive.push("replay record has no protocol".into());
            return r;
        }
    };
    let key: KeyMat = match serde_json::from_value(rec["key"].clone()) {
        Ok(k) => k,
        Err(e) => {
            r.inconclusive.push(format!("bad key: {}", e));
            return r;
        }
    };
    r.evaluations += 1;
    let footer = rec["footer"].as_str();
    let ia = rec["ia"].as_str();
    if rec["layer"].as_str() == Some("core") {
        let nonce = rec["nonce"].as_str().and_then(util::unhex).unwrap_or_else(|| vec![0u8; 32]);
        if let Out::Ok(t) = core_seal(p, &key, &nonce, rec["msg"].as_str().unwrap_or(""), footer, ia).0 {
            r.see("replay-token", &t);
        }
    } else {
        let claims = vec![ClaimOp::Set(Claim::Custom("data".into(), json!("replay")))];
        if let Out::Ok(t) = generic_seal(p, &key, &claims, footer, ia).0 {
            r.see("replay-token", &t);
        }
    }
    r
}
