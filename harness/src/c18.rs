//! C18: custom claims cannot shadow registered claims; time-claim constructors validate input.
use crate::c11::{render, Style};
use crate::proto::*;
use crate::report::{parallel, Report};
use crate::rng::Rng;
use crate::util;
use rusty_paseto::prelude::*;
use serde::{Deserialize, Serialize};
use serde_json::{json, Value};

const RESERVED: [&str; 7] = ["iss", "sub", "aud", "exp", "nbf", "iat", "jti"];

#[derive(Clone, Debug, Serialize, Deserialize)]
pub enum Case {
    Key { key: String, form: u8, class: String },
    Time { ctor: u8, owned: bool, text: String, expect_ok: Option<bool>, class: String },
}

fn reserved_variant(e: &PasetoClaimError) -> String {
    claim_err(e)
}

/// returns (outcome, key stored, value stored as JSON) for the three constructor forms and a few value types
fn custom_try(key: &str, form: u8) -> Out<(String, Value)> {
    match form {
        0 => guard(|| CustomClaim::<&str>::try_from(key).map(|c| (c.as_ref().0.clone(), json!(c.as_ref().1))), reserved_variant).0,
        1 => guard(|| CustomClaim::try_from((key, 42i64)).map(|c| (c.as_ref().0.clone(), json!(c.as_ref().1))), reserved_variant).0,
        2 => guard(|| CustomClaim::try_from((key.to_string(), true)).map(|c| (c.as_ref().0.clone(), json!(c.as_ref().1))), reserved_variant).0,
        3 => guard(|| CustomClaim::try_from((key, json!({"nested": [1, 2]}))).map(|c| (c.as_ref().0.clone(), c.as_ref().1.clone())), reserved_variant).0,
        4 => guard(|| CustomClaim::try_from((key.to_string(), vec!["a".to_string()])).map(|c| (c.as_ref().0.clone(), json!(c.as_ref().1))), reserved_variant).0,
        5 => guard(|| CustomClaim::try_from((key, "text")).map(|c| (c.as_ref().0.clone(), json!(c.as_ref().1))), reserved_variant).0,
        // value types a JSON *value* cannot hold but a claim may (the builder serialises them through the writer): 128-bit
        // integers beyond 64 bits, also inside Option / Vec; and a few more native kinds
        6 => guard(|| CustomClaim::try_from((key, u128::MAX)).map(|c| (c.as_ref().0.clone(), json!(c.as_ref().1.to_string()))), reserved_variant).0,
        7 => guard(|| CustomClaim::try_from((key.to_string(), i128::MIN)).map(|c| (c.as_ref().0.clone(), json!(c.as_ref().1.to_string()))), reserved_variant).0,
        8 => guard(|| CustomClaim::try_from((key, Some(u128::MAX))).map(|c| (c.as_ref().0.clone(), json!(format!("{:?}", c.as_ref().1)))), reserved_variant).0,
        9 => guard(|| CustomClaim::try_from((key.to_string(), vec![u128::MAX, 1])).map(|c| (c.as_ref().0.clone(), json!(format!("{:?}", c.as_ref().1)))), reserved_variant).0,
        10 => guard(|| CustomClaim::try_from((key, 1.5f32)).map(|c| (c.as_ref().0.clone(), json!(c.as_ref().1))), reserved_variant).0,
        11 => guard(|| CustomClaim::try_from((key.to_string(), ())).map(|c| (c.as_ref().0.clone(), Value::Null)), reserved_variant).0,
        12 => guard(|| CustomClaim::try_from((key, 'c')).map(|c| (c.as_ref().0.clone(), json!(c.as_ref().1))), reserved_variant).0,
        _ => guard(|| CustomClaim::try_from((key.to_string(), (1u8, "t"))).map(|c| (c.as_ref().0.clone(), json!(c.as_ref().1))), reserved_variant).0,
    }
}
fn form_value(form: u8) -> Value {
    match form {
        0 => json!(""),
        1 => json!(42),
        2 => json!(true),
        3 => json!({"nested": [1, 2]}),
        4 => json!(["a"]),
        5 => json!("text"),
        6 => json!(u128::MAX.to_string()),
        7 => json!(i128::MIN.to_string()),
        8 => json!(format!("{:?}", Some(u128::MAX))),
        9 => json!(format!("{:?}", vec![u128::MAX, 1])),
        10 => json!(1.5f32),
        11 => Value::Null,
        12 => json!('c'),
        _ => json!((1u8, "t")),
    }
}
const FORM_NAMES: [&str; 14] = ["&str", "(&str,i64)", "(String,bool)", "(&str,Value)", "(String,Vec<String>)", "(&str,&str)", "(&str,u128)", "(String,i128)", "(&str,Option<u128>)", "(String,Vec<u128>)", "(&str,f32)", "(String,())", "(&str,char)", "(String,(u8,&str))"];

fn time_try(ctor: u8, owned: bool, text: &str) -> Out<(String, String)> {
    macro_rules! go {
        ($T:ident) => {
            if owned {
                guard(|| $T::try_from(text.to_string()).map(|c| c.as_ref().clone()), reserved_variant).0
            } else {
                guard(|| $T::try_from(text).map(|c| c.as_ref().clone()), reserved_variant).0
            }
        };
    }
    match ctor {
        0 => go!(ExpirationClaim),
        1 => go!(NotBeforeClaim),
        _ => go!(IssuedAtClaim),
    }
}
const CTOR_NAMES: [&str; 3] = ["ExpirationClaim", "NotBeforeClaim", "IssuedAtClaim"];
const CTOR_KEYS: [&str; 3] = ["exp", "nbf", "iat"];

/// Could `s` START with an ISO 8601 date (calendar, week or ordinal; basic or extended; expanded years)?
/// Deliberately broad: only strings OUTSIDE this superset are required to be rejected.
fn may_start_with_iso_date(s: &str) -> bool {
    let s = s.strip_prefix('\u{2212}').unwrap_or(s); // a Unicode minus might be read as a sign
    let b = s.as_bytes();
    let mut i = 0;
    if i < b.len() && (b[i] == b'+' || b[i] == b'-') {
        i += 1;
    }
    let mut digits = 0;
    while i < b.len() && b[i].is_ascii_digit() {
        digits += 1;
        i += 1;
    }
    digits >= 4
}

pub fn run_case(c: &Case, r: &mut Report) {
    r.evaluations += 1;
    let replay = || json!({"cmd": "C18", "case": c});
    match c {
        Case::Key { key, form, class } => {
            let must_fail = RESERVED.contains(&key.as_str());
            let out = custom_try(key, *form);
            let f = FORM_NAMES[*form as usize];
            match (&out, must_fail) {
                (Out::Panic(loc), _) => r.violation(format!("C18 panic CustomClaim form={}", f), format!("CustomClaim::try_from({:?}) [{}] panicked: {}", key, f, loc), replay()),
                (Out::Ok(_), true) => r.violation(
                    format!("C18 reserved-key-accepted key={} form={}", key, f),
                    format!("CustomClaim::try_from with the reserved key {:?} (form {}) SUCCEEDED", key, f),
                    replay(),
                ),
                (Out::Err(e), true) => {
                    if *e == format!("Claim/Reserved({})", key) {
                        r.count("reserved key refused");
                        r.distinct(format!("reserved|{}|{}", key, f));
                    } else {
                        r.violation(format!("C18 reserved-key-wrong-error key={} err={}", key, e), format!("CustomClaim::try_from({:?}) [{}] failed with {} instead of the reserved-key error", key, f, e), replay());
                    }
                }
                (Out::Err(e), false) => r.violation(
                    format!("C18 non-reserved-key-refused class={} form={}", class, f),
                    format!("CustomClaim::try_from({:?}) [{}] FAILED with {} although the key is none of the seven reserved keys", key, f, e),
                    replay(),
                ),
                (Out::Ok((k, v)), false) => {
                    if k != key || *v != form_value(*form) {
                        r.violation(format!("C18 custom-claim-altered form={}", f), format!("CustomClaim::try_from({:?}) [{}] stored key {:?} value {}", key, f, k, v), replay());
                    } else {
                        r.count("non-reserved key accepted");
                        r.distinct(format!("free|{}|{}|{}", class, f, if key.len() <= 4 { key.clone() } else { format!("len{}", key.len()) }));
                        if r.samples.len() < 5 && r.evaluations % 9973 == 1 {
                            r.sample(json!({"constructor": format!("CustomClaim::try_from [{}]", f), "key": key, "class": class, "outcome": "Ok, key and value kept"}));
                        }
                    }
                }
            }
        }
        Case::Time { ctor, owned, text, expect_ok, class } => {
            let out = time_try(*ctor, *owned, text);
            let name = format!("{}::try_from({})", CTOR_NAMES[*ctor as usize], if *owned { "String" } else { "&str" });
            match (&out, expect_ok) {
                (Out::Panic(loc), _) => r.violation(format!("C18 panic {}", CTOR_NAMES[*ctor as usize]), format!("{}({:?}) panicked: {}", name, text, loc), replay()),
                (Out::Err(e), Some(true)) => r.violation(
                    format!("C18 valid-rfc3339-refused {} class={}", CTOR_NAMES[*ctor as usize], class),
                    format!("{}({:?}) FAILED ({}) although the text is an RFC 3339 date-time with upper-case T/Z", name, text, e),
                    replay(),
                ),
                (Out::Ok(_), Some(false)) => r.violation(
                    format!("C18 non-date-accepted {} class={}", CTOR_NAMES[*ctor as usize], class),
                    format!("{}({:?}) SUCCEEDED although the text does not start with an ISO 8601 date", name, text),
                    replay(),
                ),
                (Out::Ok((k, v)), _) => {
                    if k != CTOR_KEYS[*ctor as usize] || v != text {
                        r.violation(format!("C18 time-claim-not-verbatim {}", CTOR_NAMES[*ctor as usize]), format!("{}({:?}) stored ({:?}, {:?})", name, text, k, v), replay());
                    } else {
                        r.count(&format!("time claim accepted verbatim [{}]", class));
                        r.distinct(format!("time-ok|{}|{}|{}|{}", ctor, owned, class, text.len()));
                        if r.samples.len() < 9 && r.evaluations % 7919 == 1 {
                            r.sample(json!({"constructor": name, "text": text, "class": class, "outcome": "Ok, kept verbatim"}));
                        }
                    }
                }
                (Out::Err(e), _) => {
                    r.count(&format!("time claim refused [{}]", class));
                    r.see("time-claim-refusal-variants", e);
                    r.distinct(format!("time-err|{}|{}|{}|{}", ctor, owned, class, util::clip(text, 12)));
                }
            }
        }
    }
}

/// a stored time claim must come back verbatim through a built token too
fn through_token(r: &mut Report, text: &str, ctor: u8) {
    r.evaluations += 1;
    let key = KeyMat::sym(*b"wubbalubbadubdubwubbalubbadubdub");
    let claim = match ctor {
        0 => Claim::Exp(text.to_string()),
        1 => Claim::Nbf(text.to_string()),
        _ => Claim::Iat(text.to_string()),
    };
    let tok = generic_seal(P::V4L, &key, &[ClaimOp::Set(claim)], None, None).0;
    let back = tok.ok().map(|t| generic_open(P::V4L, &key, t, &ParserCfg::default()).0);
    match back {
        Some(Out::Ok(v)) if v[CTOR_KEYS[ctor as usize]] == json!(text) => r.count("time claim verbatim through a built token"),
        other => r.violation(
            format!("C18 time-claim-not-verbatim-through-token {}", CTOR_NAMES[ctor as usize]),
            format!("{} {:?} set on a GenericBuilder did not come back verbatim: {:?}", CTOR_NAMES[ctor as usize], text, other.map(|o| o.brief())),
            json!({"cmd": "C18", "case": Case::Time { ctor, owned: false, text: text.to_string(), expect_ok: Some(true), class: "through-token".into() }}),
        ),
    }
}

pub fn run(tier: &str, seed: u64) -> Report {
    let thorough = tier == "thorough";
    let mut cases: Vec<Case> = Vec::new();
    // (1) all strings of length <= 4 over the 13 letters of the reserved keys + 'E', ' ', NUL
    let alpha: Vec<char> = "isubadexpnftjE \0".chars().collect();
    let k = alpha.len();
    for len in 0..=4usize {
        for mut idx in 0..k.pow(len as u32) {
            let mut s = String::new();
            for _ in 0..len {
                s.push(alpha[idx % k]);
                idx /= k;
            }
            for form in 0..3u8 {
                cases.push(Case::Key { key: s.clone(), form, class: "exhaustive<=4".into() });
            }
        }
    }
    // (1a) all strings of length <= 3 (thorough: 4) over the 13 letters plus the separators and quotes a packed or joined
    // representation of the reserved list might contain (",sub" / "ss," inside "iss,sub,aud,..."; "|", ";", ":", quotes ...)
    let alpha2: Vec<char> = "isubadexpnftj,;|: .\t\n/-_\"'[]{}".chars().collect();
    let k2 = alpha2.len();
    for len in 1..=(if thorough { 4usize } else { 3 }) {
        for mut idx in 0..k2.pow(len as u32) {
            let mut s = String::new();
            for _ in 0..len {
                s.push(alpha2[idx % k2]);
                idx /= k2;
            }
            if !s.chars().any(|c| !c.is_ascii_lowercase()) {
                continue; // pure letter strings are covered above / below
            }
            let form = (cases.len() % 3) as u8;
            cases.push(Case::Key { key: s, form, class: "exhaustive-with-separators".into() });
        }
    }
    // (1b) ALL lower-case ASCII strings of length 1..=3 (18 278 keys: every three-letter name a maintainer might think of reserving)
    for len in 1..=3usize {
        for mut idx in 0..26usize.pow(len as u32) {
            let mut s = String::new();
            for _ in 0..len {
                s.push((b'a' + (idx % 26) as u8) as char);
                idx /= 26;
            }
            cases.push(Case::Key { key: s.clone(), form: (cases.len() % 3) as u8, class: "all-lowercase<=3".into() });
            if len == 3 && RESERVED.contains(&s.as_str()) {
                continue;
            }
        }
    }
    // (1c) a dictionary of names from neighbouring specifications (JWT/JOSE/OIDC/PASETO footers/PASERK) and common usage
    for name in [
        "kid", "wpk", "typ", "alg", "cty", "crit", "jku", "jwk", "x5u", "x5c", "x5t", "zip", "enc", "epk", "apu", "apv", "nonce", "azp", "scope", "scp", "auth_time", "acr", "amr", "at_hash", "c_hash", "sid",
        "name", "given_name", "family_name", "email", "email_verified", "roles", "role", "groups", "permissions", "tenant", "client_id", "cnf", "act", "may_act", "data", "id", "uid", "user", "user_id",
        "key", "keys", "footer", "implicit", "assertion", "version", "purpose", "paseto", "token", "payload", "expires", "expiration", "not_before", "issued_at", "issuer", "subject", "audience", "jwt", "exp2",
        "k4.lid", "k4.pid", "k4.sid", "local", "public", "v4", "seal", "wrap", "pw",
    ] {
        for form in 0..14u8 {
            cases.push(Case::Key { key: name.to_string(), form, class: "dictionary".into() });
        }
    }
    // (2) decorated variants of the seven keys
    for rk in RESERVED {
        let up = rk.to_uppercase();
        let cap = format!("{}{}", &up[..1], &rk[1..]);
        let mut vars: Vec<String> = vec![
            up.clone(), cap, format!(" {}", rk), format!("{} ", rk), format!("\t{}", rk), format!("{}\n", rk), format!("{}\0", rk), format!("\0{}", rk), format!("{}{}", rk, rk), format!("{}.", rk),
            format!("\"{}\"", rk), format!("{}\u{200b}", rk), format!("\u{feff}{}", rk), rk.replace('s', "\u{17f}"), rk.replace('i', "\u{131}"), rk.replace('a', "\u{430}"), rk.replace('e', "\u{435}"),
            rk.chars().rev().collect(), rk[..2].to_string(), rk[1..].to_string(), format!("{}x", rk), format!("x{}", rk),
        ];
        // look-alikes under narrowing / bit-packing: three-character keys whose characters agree with the reserved key's
        // modulo 2^7, 2^8 or 2^16, or whose bits spill into the neighbouring character's field when the key is packed as
        // (a << 16 | b << 8 | c); all of them are different strings and must be accepted
        let ch: Vec<u32> = rk.chars().map(|c| c as u32).collect();
        let mk = |v: [u32; 3]| -> Option<String> { v.iter().map(|&x| char::from_u32(x)).collect::<Option<String>>() };
        for i in 0..3 {
            for add in [0x80u32, 0x100, 0x200, 0x7800, 0x10000, 0x20000, 0x100000] {
                let mut v = [ch[0], ch[1], ch[2]];
                v[i] += add;
                if let Some(k) = mk(v) {
                    vars.push(k);
                }
            }
        }
        for v in [
            [ch[0], ch[1], ch[1] << 8 | ch[2]],
            [ch[0], 0, ch[1] << 8 | ch[2]],
            [ch[0], ch[0] << 8 | ch[1], ch[2]],
            [0, ch[0] << 8 | ch[1], ch[2]],
            [0, 0, ch[0] << 16 | ch[1] << 8 | ch[2]],
            [ch[0], ch[1] | 0x7800, ch[2]],
        ] {
            if let Some(k) = mk(v) {
                vars.push(k);
            }
        }
        vars.push(rk.to_string());
        for v in vars {
            for form in 0..14u8 {
                cases.push(Case::Key { key: v.clone(), form, class: "decorated".into() });
            }
        }
    }
    // (3) random Unicode keys
    let mut rng = Rng::new(seed, "c18", 0);
    for _ in 0..(if thorough { 2_000_000 } else { 20_000 }) {
        let key = match rng.below(3) {
            0 => rng.utf8_upto(12),
            1 => rng.alnum_upto(6),
            _ => {
                let mut s = RESERVED[rng.below(7)].to_string();
                let pos = rng.below(s.len() + 1);
                s.insert(pos, *rng.pick(&['\0', ' ', 'x', 'É', '\u{1F980}']));
                s
            }
        };
        cases.push(Case::Key { key, form: rng.below(14) as u8, class: "random".into() });
    }
    // (4) time constructors: the C11 rendering space
    // ... incl. the first and last representable years (0000-01-01, 0000-12-31, 0001-01-01, 9999-12-31T23:59:59) and 1969
    let instants: [i64; 19] = [
        946_684_800, 45_964_800, 32_472_144_000, 221_845_392_000, 1_790_000_000, 1_600_000_000, 0, 951_782_400, 1_709_164_800, 4_107_542_399, 253_402_128_000, 86_399, 1_000_000_000,
        -62_167_219_200, -62_135_683_200, -62_135_596_800, 253_402_300_799, -1, -86_400,
    ];
    let stride = if thorough { 1 } else { 7 };
    for (ii, &t) in instants.iter().enumerate() {
        for off in (-1439..=1439i32).filter(|o| thorough || (o + 1439 + ii as i32) % stride == 0 || o.abs() >= 1430 || o.abs() <= 2) {
            for frac in 0..=9usize {
                // the rendering must stay a four-digit-year string
                let ly = crate::c11::civil_from_days((t + off as i64 * 60).div_euclid(86400)).0;
                if !(0..=9999).contains(&ly) {
                    continue;
                }
                let nanos = (rng.next() % 1_000_000_000) as u32;
                let text = render(t, nanos, off, frac, Style::Strict);
                let ctor = ((off + 1439) as usize + frac + ii) % 3;
                cases.push(Case::Time { ctor: ctor as u8, owned: (frac + ii) % 2 == 0, text, expect_ok: Some(true), class: "rfc3339-strict".into() });
            }
        }
        for frac in 0..=9usize {
            for style in [Style::StrictZ, Style::MinusZero] {
                for ctor in 0..3u8 {
                    let nanos = (rng.next() % 1_000_000_000) as u32;
                    cases.push(Case::Time { ctor, owned: frac % 2 == 1, text: render(t, nanos, 0, frac, style), expect_ok: Some(true), class: "rfc3339-strict".into() });
                }
            }
            for style in [Style::Space, Style::LowerT, Style::LowerZ] {
                let nanos = (rng.next() % 1_000_000_000) as u32;
                cases.push(Case::Time { ctor: (frac % 3) as u8, owned: false, text: render(t, nanos, 0, frac, style), expect_ok: None, class: "lenient-rendering".into() });
            }
        }
    }
    // (5) strings that cannot start with an ISO 8601 date
    let mut nondates: Vec<String> = vec![
        "", " ", "tomorrow", "never", "x2999-01-01T00:00:00Z", " 2999-01-01T00:00:00Z", "T00:00:00Z", "Z", "null", "true", "-", "+", "--01-01", "abc", "\0", "\u{1F980}", "Mon, 01 Jan 2999 00:00:00 GMT", "Jan 1 2999",
        "01/01/2999", "1-1-2999", "99-01-01", "299-01-01T00:00:00Z", "二千年", "２９９９-01-01T00:00:00Z", "{\"exp\":1}", "[2999]", "e9", "1e9", "12", "123", ":", "T", "P1Y", "R/2999", "W01", "Q1 2999",
    ]
    .into_iter()
    .map(|s| s.to_string())
    .collect();
    for _ in 0..(if thorough { 1_000_000 } else { 10_000 }) {
        let n = rng.range(0, 30);
        let s = rng.utf8(n);
        nondates.push(s);
    }
    // long refusals whose multi-byte characters straddle every byte offset up to 130 (an error message that quotes or
    // truncates the value on a byte index must not turn the refusal into a panic)
    for n in 0..=130usize {
        nondates.push(format!("{}{}", "x".repeat(n), "\u{e9}\u{20ac}\u{1F980}".repeat(4)));
        if n % 9 == 0 {
            nondates.push(format!("am {}. Januar zweitausendneunzehn, f\u{fc}nf nach zw\u{f6}lf {}", n, "\u{65e5}".repeat(n)));
        }
    }
    // strings in the exact RFC 3339 layout whose month or day field is impossible (00, 13+, 32+): the calendar date they
    // would have to start with does not exist, so they are refused (a structural fast path that only checks upper bounds
    // lets month / day 00 through).  Days that merely do not exist in that month (02-30, 04-31) are NOT demanded to be refused:
    // the property speaks of the ISO 8601 date syntax, and the unchanged constructors accept them
    let mut impossible: Vec<String> = Vec::new();
    for (mo, d) in [("00", "10"), ("01", "00"), ("00", "00"), ("13", "01"), ("01", "32"), ("99", "99")] {
        for tail in ["T00:00:00Z", "T23:59:59+00:00", "T12:30:00.5-08:00"] {
            impossible.push(format!("2019-{}-{}{}", mo, d, tail));
            impossible.push(format!("0000-{}-{}{}", mo, d, tail));
        }
    }
    for s in &impossible {
        for ctor in 0..3u8 {
            for owned in [false, true] {
                cases.push(Case::Time { ctor, owned, text: s.clone(), expect_ok: Some(false), class: "rfc3339-layout-with-impossible-month-or-day".into() });
            }
        }
    }
    // RFC 3339 allows a seconds field of 60 (leap seconds; section 5.8 has these very examples): upper-case T and Z, accepted
    for s in ["1990-12-31T23:59:60Z", "1990-12-31T15:59:60-08:00", "2016-12-31T23:59:60Z", "2016-12-31T23:59:60.5Z", "2015-06-30T23:59:60+00:00", "1972-06-30T23:59:60.123456789Z"] {
        for ctor in 0..3u8 {
            for owned in [false, true] {
                cases.push(Case::Time { ctor, owned, text: s.to_string(), expect_ok: Some(true), class: "rfc3339-strict".into() });
            }
        }
    }
    // RFC 3339 puts no upper bound on the number of fraction digits (time-secfrac = "." 1*DIGIT): fractions of 10..=40 digits,
    // incl. digit strings that overflow a u32 / u64 / u128 when read as ONE integer, all-nines, all-zeros and a long zero tail
    {
        let mut fracs: Vec<String> = vec![
            "4294967295".into(), "4294967296".into(), "5000000000".into(), "9999999999".into(), "99999999999".into(), "0000000000".into(), "0000000001".into(), "1000000000".into(),
            "18446744073709551615".into(), "18446744073709551616".into(), "99999999999999999999".into(), "340282366920938463463374607431768211456".into(),
            "1234567890123456789012345678901234567890".into(), "123456789000000000000000000000".into(), "000000000000000000000000000001".into(),
        ];
        for n in 10..=40usize {
            fracs.push((0..n).map(|_| char::from(b'0' + rng.below(10) as u8)).collect());
            fracs.push("9".repeat(n));
        }
        for (fi, f) in fracs.iter().enumerate() {
            for (ti, head) in ["2019-01-01T00:00:00", "2999-12-31T23:59:59", "0000-01-01T00:00:00", "1969-12-31T23:59:59", "2024-02-29T12:30:45"].iter().enumerate() {
                let tail = ["Z", "+00:00", "-08:00", "+14:00", "-00:00"][(fi + ti) % 5];
                cases.push(Case::Time { ctor: ((fi + ti) % 3) as u8, owned: (fi + ti) % 2 == 0, text: format!("{}.{}{}", head, f, tail), expect_ok: Some(true), class: "rfc3339-strict-long-fraction".into() });
            }
        }
    }
    // the fixed catalogue goes to all three constructors in both forms; random strings are spread over them
    let fixed = 36.min(nondates.len());
    for s in nondates.iter().take(fixed) {
        for ctor in 0..3u8 {
            for owned in [false, true] {
                let e = if may_start_with_iso_date(s) { None } else { Some(false) };
                cases.push(Case::Time { ctor, owned, text: s.clone(), expect_ok: e, class: if e.is_none() { "possibly-a-date (no verdict)".into() } else { "not-a-date".into() } });
            }
        }
    }
    // decorated strict renderings: acceptance is not decided (they still START with a date), but an accepted value must be kept verbatim
    for deco in [" ", "\n", "\t", "\0", " trailing", "Z", "\u{a0}"] {
        for ctor in 0..3u8 {
            for owned in [false, true] {
                let base = render(32_472_144_000, 0, 0, 0, Style::StrictZ);
                cases.push(Case::Time { ctor, owned, text: format!("{}{}", base, deco), expect_ok: None, class: "date+trailing-decoration (verbatim-or-refused)".into() });
                cases.push(Case::Time { ctor, owned, text: format!("{}{}", deco, base), expect_ok: if may_start_with_iso_date(&format!("{}{}", deco, base)) { None } else { Some(false) }, class: "leading-decoration+date".into() });
            }
        }
    }
    for (i, s) in nondates.into_iter().enumerate().skip(fixed) {
        if may_start_with_iso_date(&s) {
            cases.push(Case::Time { ctor: (i % 3) as u8, owned: i % 2 == 0, text: s, expect_ok: None, class: "possibly-a-date (no verdict)".into() });
        } else {
            cases.push(Case::Time { ctor: (i % 3) as u8, owned: i % 2 == 0, text: s, expect_ok: Some(false), class: "not-a-date".into() });
        }
    }
    let mut total = parallel(cases.len(), util::threads(), |i, r| run_case(&cases[i], r));
    // (6) verbatim through a built token
    let mut r = Report::new();
    for (i, &t) in instants.iter().enumerate() {
        for (j, off) in [-1439, -330, 0, 1, 765, 1439].iter().enumerate() {
            if !(0..=9999).contains(&crate::c11::civil_from_days((t + *off as i64 * 60).div_euclid(86400)).0) {
                continue;
            }
            through_token(&mut r, &render(t, 123_456_789, *off, (i + j) % 10, Style::Strict), ((i + j) % 3) as u8);
        }
        through_token(&mut r, &render(t, 5, 0, 9, Style::StrictZ), (i % 3) as u8);
    }
    total.merge(r);
    total.require("reserved key refused", 7 * 3);
    total.require("non-reserved key accepted", 50_000);
    total.require("time claim accepted verbatim [rfc3339-strict]", 10_000);
    total.require("time claim refused [not-a-date]", 1000);
    total.require("time claim verbatim through a built token", 50);
    total
}

pub fn replay(case: &Value) -> Report {
    let mut r = Report::new();
    match serde_json::from_value::<Case>(case.clone()) {
        Ok(c) => run_case(&c, &mut r),
        Err(e) => r.inconclusive.push(format!("cannot decode replay case: {}", e)),
    }
    r
}

pub const RULE: &str = "CustomClaim::try_from: ALL strings of length 0..=4 over the 13 letters of the reserved keys plus 'E', space and NUL (69 905 keys) x the three constructor forms (&str, (&str,T), (String,T)); ALL strings of length 1..3 (thorough 4) over those 13 letters plus 19 separator / quote characters (, ; | : . space TAB LF / - _ quotes brackets braces: what a joined or packed representation of the reserved list contains); ALL 18 278 lower-case ASCII strings of length 1..3; a dictionary of 75 names from neighbouring specifications (kid, wpk, typ, nonce, scope, email ...) x fourteen forms; ~50 decorated variants (case, whitespace, NUL, zero-width, homoglyphs, reversed, truncated, extended, and three-character look-alikes under narrowing to 7/8/16 bits or under (a<<16|b<<8|c) bit-packing) of each of the seven keys x fourteen forms/value types (incl. u128/i128 beyond 64 bits, alone and inside Option/Vec, f32, unit, char, tuple); 20 000 (thorough 2 000 000) random Unicode keys; oracle: fails with the reserved-key error iff the key is literally one of the seven, otherwise succeeds keeping key and value. Time constructors (ExpirationClaim, NotBeforeClaim, IssuedAtClaim x &str/String): 19 instants (incl. 0000-01-01, 0001-01-01, 1969, 9999-12-31T23:59:59) x UTC offsets -23:59..+23:59 (every 7th plus the extremes; thorough: all) x 0..9 fractional digits, 'Z' and '-00:00' forms and leap seconds (seconds field 60, the examples of RFC 3339 section 5.8) must be accepted and kept verbatim, and so must fractions of 10..40 digits (RFC 3339 sets no upper bound; incl. digit strings beyond u32/u64/u128 when read as one integer); strings in the RFC 3339 layout with a month or day outside 01-12 / 01-31 must be refused (also read back through a built token); strings outside a deliberately broad recogniser of ISO 8601 date prefixes (optional sign + >= 4 digits) must be refused — incl. long ones whose multi-byte characters straddle every byte offset up to 130, and a panic is not a refusal; lenient renderings and possibly-date strings are recorded without verdict. distinct_nontrivial = distinct (class, form/constructor, key or text shape) tuples";
