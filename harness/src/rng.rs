//! Deterministic PRNG (SplitMix64 seeding + xoshiro256**).  No external crate: every random case is
//! reproducible from (VERIF_SEED, property id, shard).

#[derive(Clone)]
pub struct Rng {
    s: [u64; 4],
}

fn splitmix(x: &mut u64) -> u64 {
    *x = x.wrapping_add(0x9E37_79B9_7F4A_7C15);
    let mut z = *x;
    z = (z ^ (z >> 30)).wrapping_mul(0xBF58_476D_1CE4_E5B9);
    z = (z ^ (z >> 27)).wrapping_mul(0x94D0_49BB_1331_11EB);
    z ^ (z >> 31)
}

impl Rng {
    pub fn new(seed: u64, stream: &str, shard: u64) -> Self {
        let mut x = seed ^ 0xA076_1D64_78BD_642F;
        for b in stream.bytes() {
            x = x.wrapping_mul(0x100_0000_01B3).wrapping_add(b as u64);
        }
        x ^= shard.wrapping_mul(0xD6E8_FEB8_6659_FD93);
        let mut sm = x;
        let s = [splitmix(&mut sm), splitmix(&mut sm), splitmix(&mut sm), splitmix(&mut sm)];
        Rng { s }
    }
    pub fn next(&mut self) -> u64 {
        let r = self.s[1].wrapping_mul(5).rotate_left(7).wrapping_mul(9);
        let t = self.s[1] << 17;
        self.s[2] ^= self.s[0];
        self.s[3] ^= self.s[1];
        self.s[1] ^= self.s[2];
        self.s[0] ^= self.s[3];
        self.s[2] ^= t;
        self.s[3] = self.s[3].rotate_left(45);
        r
    }
    pub fn below(&mut self, n: usize) -> usize {
        if n == 0 {
            return 0;
        }
        (self.next() % n as u64) as usize
    }
    pub fn range(&mut self, lo: usize, hi_incl: usize) -> usize {
        lo + self.below(hi_incl - lo + 1)
    }
    pub fn shuffle<T>(&mut self, v: &mut [T]) {
        for i in (1..v.len()).rev() {
            let j = self.below(i + 1);
            v.swap(i, j);
        }
    }
    pub fn chance(&mut self, num: usize, den: usize) -> bool {
        self.below(den) < num
    }
    pub fn bytes(&mut self, n: usize) -> Vec<u8> {
        let mut v = Vec::with_capacity(n);
        while v.len() < n {
            let x = self.next().to_le_bytes();
            let take = (n - v.len()).min(8);
            v.extend_from_slice(&x[..take]);
        }
        v
    }
    pub fn arr32(&mut self) -> [u8; 32] {
        let mut a = [0u8; 32];
        a.copy_from_slice(&self.bytes(32));
        a
    }
    pub fn pick<'a, T>(&mut self, xs: &'a [T]) -> &'a T {
        &xs[self.below(xs.len())]
    }
    /// random valid UTF-8 string of about `n` bytes mixing 1-4 byte code points
    pub fn utf8(&mut self, n: usize) -> String {
        let mut s = String::with_capacity(n + 4);
        while s.len() < n {
            let c = match self.below(10) {
                0..=4 => (0x20 + self.below(0x5f)) as u32,
                5 => self.below(0x20) as u32, // controls incl. NUL
                6 => 0x80 + self.below(0x780) as u32,
                7 => 0x800 + self.below(0xD000) as u32,
                8 => 0x1_0000 + self.below(0xF_FFFF) as u32,
                _ => *self.pick(&[0x2e, 0x22, 0x5c, 0x7b, 0x7d, 0xe9, 0x301, 0x202e, 0x1F980, 0x10FFFF]),
            };
            if let Some(ch) = char::from_u32(c) {
                s.push(ch);
            }
        }
        s
    }
    pub fn utf8_upto(&mut self, n: usize) -> String {
        let k = self.below(n);
        self.utf8(k)
    }
    pub fn utf8_1upto(&mut self, n: usize) -> String {
        let k = 1 + self.below(n);
        self.utf8(k)
    }
    pub fn alnum_upto(&mut self, n: usize) -> String {
        let k = self.below(n);
        self.ascii_alnum(k)
    }
    pub fn bytes_upto(&mut self, n: usize) -> Vec<u8> {
        let k = self.below(n);
        self.bytes(k)
    }
    pub fn ascii_alnum(&mut self, n: usize) -> String {
        const A: &[u8] = b"ABCDEFGHIJKLMNOPQRSTUVWXYZabcdefghijklmnopqrstuvwxyz0123456789-_";
        (0..n).map(|_| A[self.below(64)] as char).collect()
    }
}
