//! C14 (parsed claims equal the claims set), C15 (expected-claim checks), C16 (custom validators).
use crate::c01::model_object;
use crate::gens::{self, Pools};
use crate::proto::*;
use crate::report::{parallel, Report};
use crate::rng::Rng;
use crate::util;
use serde::{Deserialize, Serialize};
use serde_json::{json, Map, Value};

const RESERVED: [&str; 7] = ["iss", "sub", "aud", "exp", "nbf", "iat", "jti"];

fn custom_key(rng: &mut Rng) -> String {
    loop {
        let k = match rng.below(8) {
            0 => format!("c{}", rng.below(4)),
            1 | 2 => gens::json_key(rng),
            3 => "data".into(),
            4 => rng.utf8_1upto(12),
            5 => ["Exp", "EXP", " exp", "exp ", "exp\0", "is", "iss2", "sub.", "aud/", "jti\u{200b}"][rng.below(10)].to_string(),
            6 => gens::ascii_of_len(200, rng.below(20) as u8),
            _ => { let n = 1 + rng.below(8); rng.ascii_alnum(n) }
        };
        if !k.is_empty() && !RESERVED.contains(&k.as_str()) {
            return k;
        }
    }
}

fn random_claim(rng: &mut Rng, existing: &[String]) -> Claim {
    // RFC 3339 renderings in every strict spelling: numeric offsets, "+00:00", "Z", "-00:00", fractions with trailing zeros
    // (a constructor that re-formats what it parsed would turn +00:00 into Z and .500 into .5)
    let ts = |rng: &mut Rng| {
        let style = [crate::c11::Style::Strict, crate::c11::Style::Strict, crate::c11::Style::StrictZ, crate::c11::Style::MinusZero][rng.below(4)];
        let off = if matches!(style, crate::c11::Style::Strict) && rng.chance(2, 3) { rng.below(2879) as i32 - 1439 } else { 0 };
        let nanos = if rng.chance(1, 3) { (rng.below(1000) as u32) * 1_000_000 } else { (rng.next() % 1_000_000_000) as u32 };
        crate::c11::render(946_684_800 + rng.below(2_000_000_000) as i64, nanos, off, rng.below(10), style)
    };
    match rng.below(14) {
        0 => Claim::Iss(rng.utf8_upto(20)),
        1 => Claim::Sub(rng.utf8_upto(20)),
        2 => Claim::Aud(rng.utf8_upto(20)),
        3 => Claim::Jti(rng.utf8_upto(20)),
        4 => Claim::Exp(ts(rng)),
        5 => Claim::Nbf(ts(rng)),
        6 => Claim::Iat(ts(rng)),
        7 | 8 => {
            let k = custom_key(rng);
            Claim::Native(k, gens::native(rng, 2))
        }
        9 => {
            // the {key:{key:..}} unwrapping corner: the value is an object whose only/first member is named like the claim
            let k = custom_key(rng);
            let inner = gens::json_tree(rng, 2);
            let mut m = Map::new();
            m.insert(k.clone(), inner);
            if rng.chance(1, 2) {
                m.insert("other".into(), json!(1));
            }
            Claim::Custom(k, Value::Object(m))
        }
        10 if !existing.is_empty() => {
            // overwrite an existing key
            let k = rng.pick(existing).clone();
            if RESERVED.contains(&k.as_str()) {
                Claim::Sub(rng.utf8_upto(10))
            } else {
                Claim::Custom(k, gens::json_tree(rng, 3))
            }
        }
        _ => {
            let k = custom_key(rng);
            let d = rng.below(6);
            Claim::Custom(k, gens::json_tree(rng, d))
        }
    }
}

pub fn random_history(rng: &mut Rng, maxops: usize) -> Vec<ClaimOp> {
    let n = rng.below(maxops + 1);
    let mut ops = Vec::new();
    let mut keys: Vec<String> = Vec::new();
    for _ in 0..n {
        if !keys.is_empty() && rng.chance(1, 5) {
            let k = if rng.chance(4, 5) { rng.pick(&keys).clone() } else { custom_key(rng) };
            ops.push(ClaimOp::Remove(k));
        } else if rng.chance(1, 8) {
            // extend_claims: a map of plain values, stored under their keys as they are (may overwrite earlier claims)
            let mut kvs = Vec::new();
            for _ in 0..(1 + rng.below(3)) {
                let k = if !keys.is_empty() && rng.chance(1, 3) { rng.pick(&keys).clone() } else { custom_key(rng) };
                if kvs.iter().any(|(kk, _): &(String, Value)| *kk == k) {
                    continue;
                }
                let d = rng.below(4);
                let mut v = gens::json_tree(rng, d);
                if rng.chance(1, 4) {
                    // a value that is an object whose only member is named like its own key
                    let mut m = Map::new();
                    m.insert(k.clone(), v);
                    v = Value::Object(m);
                }
                kvs.push((k.clone(), v));
                keys.push(k);
            }
            ops.push(ClaimOp::Extend(kvs));
        } else {
            let c = random_claim(rng, &keys);
            keys.push(c.key().to_string());
            ops.push(ClaimOp::Set(c));
        }
    }
    ops
}

// ==========================================================================================
// C14
// ==========================================================================================
#[derive(Clone, Debug, Serialize, Deserialize)]
pub struct C14Case {
    pub p: P,
    pub key: KeyMat,
    pub ops: Vec<ClaimOp>,
}

fn diff_objects(want: &Map<String, Value>, got: &Map<String, Value>) -> String {
    let mut d = Vec::new();
    for (k, v) in want {
        match got.get(k) {
            None => d.push(format!("missing member {:?} (want {})", k, util::clip(&v.to_string(), 60))),
            Some(g) if g != v => d.push(format!("member {:?}: want {} got {}", k, util::clip(&v.to_string(), 60), util::clip(&g.to_string(), 60))),
            _ => {}
        }
    }
    for k in got.keys() {
        if !want.contains_key(k) {
            d.push(format!("extra member {:?} = {}", k, util::clip(&got[k].to_string(), 60)));
        }
    }
    d.join("; ")
}

fn shape(v: &Value, depth: usize) -> String {
    match v {
        Value::Null => "n".into(),
        Value::Bool(_) => "b".into(),
        Value::Number(n) => {
            if n.is_f64() {
                "f".into()
            } else if n.is_u64() {
                "u".into()
            } else {
                "i".into()
            }
        }
        Value::String(s) => {
            if s.is_ascii() {
                "s".into()
            } else {
                "S".into()
            }
        }
        Value::Array(a) => {
            if depth == 0 {
                "[..]".into()
            } else {
                format!("[{}]", a.iter().take(3).map(|x| shape(x, depth - 1)).collect::<Vec<_>>().join(""))
            }
        }
        Value::Object(o) => {
            if depth == 0 {
                "{..}".into()
            } else {
                format!("{{{}}}", o.values().take(3).map(|x| shape(x, depth - 1)).collect::<Vec<_>>().join(""))
            }
        }
    }
}

fn c14_eval(c: &C14Case, r: &mut Report) {
    r.evaluations += 1;
    let replay = || json!({"cmd": "C14", "case": c});
    let tag = c.p.name();
    let (tok, _) = generic_seal(c.p, &c.key, &c.ops, None, None);
    let tok = match tok {
        Out::Ok(t) => t,
        o => {
            r.violation(format!("C14 build-failed {} {}", tag, o.class()), format!("{}: GenericBuilder failed on a history of {} ops: {}", tag, c.ops.len(), o.brief()), replay());
            return;
        }
    };
    let (back, _) = generic_open(c.p, &c.key, &tok, &ParserCfg::default());
    let want = model_object(&c.ops);
    match &back {
        Out::Ok(Value::Object(got)) if *got == want => {
            r.count(&format!("{} equal", tag));
            let sets = c.ops.iter().filter(|o| matches!(o, ClaimOp::Set(_))).count();
            let shapes: Vec<String> = want.values().take(4).map(|v| shape(v, 2)).collect();
            r.distinct(format!("{}|ops{}|sets{}|members{}|{}", tag, c.ops.len(), sets, want.len(), shapes.join(",")));
            for op in &c.ops {
                if let ClaimOp::Extend(_) = op {
                    r.count("claims set: extend_claims map");
                }
                if let ClaimOp::Set(cl) = op {
                    r.count(match cl {
                        Claim::Custom(..) => "claims set: custom JSON value",
                        Claim::Native(..) => "claims set: native Rust value through Serialize",
                        _ => "claims set: registered typed constructor",
                    });
                }
            }
            // ... and the same token through parsers that carry validators / an expectation (accepting ones, also for a claim the
            // token does NOT carry) and through PasetoParser::default(): a successful parse must still return exactly the claims set
            if r.evaluations % 4 == 0 {
                let absent: Vec<String> = ["absent", "nbf", "zz-absent"].iter().map(|k| k.to_string()).filter(|k| !want.contains_key(k)).collect();
                let mut validators: Vec<VSpec> = Vec::new();
                for (i, k) in absent.iter().enumerate() {
                    let claim = if k == "nbf" { Claim::Nbf("2001-01-01T00:00:00+00:00".into()) } else { Claim::Custom(k.clone(), json!("dummy")) };
                    validators.push(VSpec { claim, behave: VBehave::Accept, reg: if i % 2 == 0 { VReg::ValidateClaim } else { VReg::ExtendOnly }, second: false, odd: 0 });
                }
                let present_custom = want.iter().find(|(k, _)| !RESERVED.contains(&k.as_str()) && !k.is_empty());
                let mut expected: Vec<Claim> = Vec::new();
                if let Some((k, v)) = present_custom {
                    expected.push(Claim::Custom(k.clone(), v.clone()));
                }
                // ... accepting validators for claims the token DOES carry as well, through both registration routes (a validator
                // that is handed the value must not consume or alter it); the key of the expectation is left alone
                let exp_key = expected.first().map(|e| e.key().to_string());
                for (i, (k, _)) in want.iter().filter(|(k, _)| !RESERVED.contains(&k.as_str()) && !k.is_empty() && Some(k.as_str()) != exp_key.as_deref()).take(3).enumerate() {
                    validators.push(VSpec { claim: Claim::Custom(k.clone(), json!("dummy")), behave: VBehave::Accept, reg: if i % 2 == 0 { VReg::ExtendOnly } else { VReg::ValidateClaim }, second: false, odd: 0 });
                }
                if let Some(Value::String(_)) = want.get("sub") {
                    validators.push(VSpec { claim: Claim::Sub("dummy".into()), behave: VBehave::Accept, reg: if r.evaluations % 8 == 0 { VReg::ExtendOnly } else { VReg::ValidateClaim }, second: false, odd: 0 });
                }
                let cfgs = [
                    ("generic parser with accepting validators (incl. for absent claims) and a matching expectation", false, ParserCfg { validators: validators.clone(), expected: expected.clone(), ..Default::default() }),
                    ("PasetoParser::new() with accepting validators (incl. for absent claims)", true, ParserCfg { validators: validators.iter().cloned().map(|mut v| { v.reg = VReg::ValidateClaim; v }).collect(), ..Default::default() }),
                    ("PasetoParser::default()", true, ParserCfg { default_parser: true, ..Default::default() }),
                ];
                for (what, batteries, cfg) in cfgs {
                    let out = if batteries { batteries_open(c.p, &c.key, &tok, &cfg).0 } else { generic_open(c.p, &c.key, &tok, &cfg).0 };
                    let _ = vlog_take();
                    match out {
                        Out::Ok(Value::Object(got)) if got == want => r.count("configured parsers return exactly the claims set"),
                        Out::Ok(Value::Object(got)) => r.violation(format!("C14 claims-differ-through-configured-parser {}", tag), format!("{}: {} returned claims that differ from the claims set: {}", tag, what, diff_objects(&want, &got)), replay()),
                        Out::Ok(other) => r.violation(format!("C14 claims-differ-through-configured-parser {}", tag), format!("{}: {} returned {}", tag, what, util::clip(&other.to_string(), 80)), replay()),
                        Out::Panic(loc) => r.violation(format!("C14 panic {}", tag), format!("{}: {} panicked: {}", tag, what, loc), replay()),
                        // a refusal is a matter for C11/C12/C15/C16 (e.g. the default parser on an expired exp), not for C14
                        Out::Err(e) => r.count(&format!("configured parser refused ({})", e.split('(').next().unwrap_or(""))),
                    }
                }
            }
            if r.samples.len() < 8 && r.evaluations % 211 == 3 {
                r.sample(json!({"protocol": tag, "history": c.ops.iter().map(|o| match o { ClaimOp::Set(cl) => format!("set {:?}", cl.key()), ClaimOp::Remove(k) => format!("remove {:?}", k), ClaimOp::Extend(kv) => format!("extend_claims {:?}", kv.iter().map(|x| x.0.as_str()).collect::<Vec<_>>()) }).collect::<Vec<_>>(), "parsed_equals_model": want}));
            }
        }
        Out::Ok(Value::Object(got)) => {
            r.violation(format!("C14 claims-differ {}", tag), format!("{}: parsed claims differ from the claims set: {}", tag, diff_objects(&want, got)), replay());
        }
        other => r.violation(format!("C14 parse-failed {} {}", tag, other.class()), format!("{}: parse of a freshly built token failed: {}", tag, other.brief()), replay()),
    }
}

pub fn run_c14(tier: &str, seed: u64) -> Report {
    let thorough = tier == "thorough";
    let pools = Pools::new(seed, 4, 2);
    let mut total = Report::new();
    if pools.rsa.is_empty() {
        total.inconclusive.push("no RSA key fixtures found".into());
        return total;
    }
    let n_for = |p: P| match (p, thorough) {
        (P::V4L, false) => 20_000,
        (P::V1P, false) => 250,
        (P::V3P, false) => 400,
        (_, false) => 1500,
        (P::V4L, true) => 2_000_000,
        (P::V1P, true) => 10_000,
        (P::V3P, true) => 20_000,
        (_, true) => 150_000,
    };
    let mut items: Vec<(P, usize)> = Vec::new();
    for &p in &ALL {
        for j in 0..n_for(p) {
            items.push((p, j));
        }
    }
    let r = parallel(items.len(), util::threads(), |i, r| {
        let (p, j) = items[i];
        let mut rng = Rng::new(seed, "c14", (p as u64) << 32 | j as u64);
        // mostly short histories; every 16th one is long (many more claims than any initial map capacity)
        let ops = random_history(&mut rng, if j % 16 == 7 { 60 } else { 12 });
        let c = C14Case { p, key: pools.key(p, j % pools.count(p)), ops };
        c14_eval(&c, r);
    });
    total.merge(r);
    // one builder, several builds with set/remove in between
    let nm = |p: P| match (p, thorough) {
        (P::V4L, false) => 1500,
        (P::V1P, false) => 30,
        (P::V3P, false) => 50,
        (_, false) => 150,
        (P::V4L, true) => 40_000,
        (P::V1P, true) => 600,
        (P::V3P, true) => 1000,
        (_, true) => 5000,
    };
    let mut mitems: Vec<(P, usize)> = Vec::new();
    for &p in &ALL {
        for j in 0..nm(p) {
            mitems.push((p, j));
        }
    }
    let r = parallel(mitems.len(), util::threads(), |i, r| {
        let (p, j) = mitems[i];
        let mut rng = Rng::new(seed, "c14-multi", (p as u64) << 32 | j as u64);
        let c = C14Multi { p, key: pools.key(p, j % pools.count(p)), ops: random_multi(&mut rng), prop: "C14".into() };
        c14_multi_eval(&c, r);
    });
    total.merge(r);
    total.require("multi-build: later builds equal", 500);
    // fixed corner catalogue on v4.local
    let key = pools.key(P::V4L, 0);
    let corners: Vec<Vec<ClaimOp>> = vec![
        vec![],
        vec![ClaimOp::Set(Claim::Custom("k".into(), json!({"k": {"k": 1}})))],
        vec![ClaimOp::Set(Claim::Custom("k".into(), json!({"k": null})))],
        vec![ClaimOp::Set(Claim::Custom("k".into(), json!({})))],
        vec![ClaimOp::Set(Claim::Custom("k".into(), json!([])))],
        vec![ClaimOp::Set(Claim::Custom("k".into(), json!([[], {}, [{}], null])))],
        vec![ClaimOp::Set(Claim::Custom("k".into(), Value::Null))],
        vec![ClaimOp::Set(Claim::Custom("k".into(), json!(1))), ClaimOp::Set(Claim::Custom("k".into(), json!("two")))],
        vec![ClaimOp::Set(Claim::Custom("k".into(), json!(1))), ClaimOp::Remove("k".into())],
        vec![ClaimOp::Set(Claim::Custom("k".into(), json!(1))), ClaimOp::Remove("k".into()), ClaimOp::Set(Claim::Custom("k".into(), json!(2)))],
        vec![ClaimOp::Set(Claim::Custom("k".into(), json!(u64::MAX))), ClaimOp::Set(Claim::Custom("l".into(), json!(i64::MIN)))],
        vec![ClaimOp::Set(Claim::Sub("s1".into())), ClaimOp::Set(Claim::Sub("s2".into()))],
        vec![ClaimOp::Set(Claim::Aud("".into())), ClaimOp::Set(Claim::Iss("\0".into())), ClaimOp::Set(Claim::Jti("\u{1F980}".into()))],
        vec![ClaimOp::Set(Claim::Native("n".into(), Native::Struct { id: 1, name: "x".into(), tags: vec![], inner: Some(Box::new(Native::Tuple(1, "t".into(), true))) }))],
        vec![ClaimOp::Set(Claim::Native("unit".into(), Native::Unit)), ClaimOp::Set(Claim::Native("none".into(), Native::OptNone))],
        vec![ClaimOp::Remove("never-set".into())],
    ];
    let mut corners = corners;
    // keys that collide under common hashes / truncations: both members of a pair in one builder, in both orders, and all at once
    let pairs = gens::colliding_key_pairs();
    for (a, b) in &pairs {
        corners.push(vec![ClaimOp::Set(Claim::Custom(a.clone(), json!(1))), ClaimOp::Set(Claim::Custom(b.clone(), json!("two")))]);
        corners.push(vec![ClaimOp::Set(Claim::Custom(b.clone(), json!(1))), ClaimOp::Set(Claim::Custom(a.clone(), json!("two"))), ClaimOp::Remove(b.clone())]);
    }
    corners.push(pairs.iter().flat_map(|(a, b)| [ClaimOp::Set(Claim::Custom(a.clone(), json!(a))), ClaimOp::Set(Claim::Custom(b.clone(), json!(b)))]).collect());
    // many claims on one builder: beyond any 8-bit (thorough: 16-bit) counter or initial capacity
    for n in if thorough { vec![255usize, 256, 257, 1000, 70_000] } else { vec![255usize, 256, 257, 1000] } {
        let mut ops: Vec<ClaimOp> = (0..n).map(|i| ClaimOp::Set(Claim::Custom(format!("c{}", i), json!(i)))).collect();
        ops.push(ClaimOp::Remove(format!("c{}", n / 2)));
        ops.push(ClaimOp::Set(Claim::Custom("c0".into(), json!("rewritten"))));
        corners.push(ops);
    }
    let mut r = Report::new();
    for ops in corners {
        c14_eval(&C14Case { p: P::V4L, key: key.clone(), ops }, &mut r);
        r.count("corner catalogue");
    }
    total.merge(r);
    for &p in &ALL {
        total.require(&format!("{} equal", p.name()), 50);
    }
    total.require("configured parsers return exactly the claims set", 1000);
    total.require("claims set: native Rust value through Serialize", 100);
    total.require("claims set: registered typed constructor", 100);
    total
}

/// ONE GenericBuilder, several builds, claims set and removed in between: every token must equal the model at that point
#[derive(Clone, Debug, Serialize, Deserialize)]
pub struct C14Multi {
    pub p: P,
    pub key: KeyMat,
    pub ops: Vec<GOp>,
    /// the property on whose behalf the history runs (C14; C01/C02 run the same histories as round trips)
    #[serde(default = "c14_name")]
    pub prop: String,
}
fn c14_name() -> String {
    "C14".into()
}

/// the same ONE-builder histories on behalf of another property (C01: local protocols, C02: public protocols)
pub fn multi_round_trips(prop: &str, protos: &[P], n_per_proto: usize, seed: u64, pools: &Pools) -> Report {
    let mut items: Vec<(P, usize)> = Vec::new();
    for &p in protos {
        let n = if p == P::V1P { n_per_proto / 6 } else if p == P::V3P { n_per_proto / 3 } else { n_per_proto };
        for j in 0..n.max(8) {
            items.push((p, j));
        }
    }
    let mut rep = parallel(items.len(), util::threads(), |i, r| {
        let (p, j) = items[i];
        let mut rng = Rng::new(seed, "multi-round-trips", (p as u64) << 32 | j as u64);
        let c = C14Multi { p, key: pools.key(p, j % pools.count(p)), ops: random_multi(&mut rng), prop: prop.to_string() };
        c14_multi_eval(&c, r);
    });
    rep.require("multi-build: later builds equal", (n_per_proto / 2) as u64);
    rep
}

fn c14_multi_eval(c: &C14Multi, r: &mut Report) {
    let outs = generic_run(c.p, &c.key, &c.ops);
    let replay = || json!({"cmd": "C14-multi", "case": c});
    let tag = c.p.name();
    let mut model: Vec<ClaimOp> = Vec::new();
    let mut footer: Option<String> = None;
    let mut ia: Option<String> = None;
    let mut bi = 0;
    let mut nth = 0;
    let word: Vec<String> = c.ops.iter().map(|o| match o { GOp::Set(cl) => format!("set({})", cl.key()), GOp::Remove(k) => format!("remove({})", k), GOp::Extend(kv) => format!("extend({})", kv.iter().map(|x| x.0.as_str()).collect::<Vec<_>>().join(",")), GOp::Footer(_) => "footer".into(), GOp::Assertion(_) => "assertion".into(), GOp::Build => "BUILD".into(), GOp::UseKey(_) => "use-key".into() }).collect();
    for op in &c.ops {
        match op {
            GOp::Set(Claim::Native(_, Native::Unserialisable)) => {}
            GOp::Set(cl) => model.push(ClaimOp::Set(cl.clone())),
            GOp::Remove(k) => model.push(ClaimOp::Remove(k.clone())),
            GOp::Extend(kv) => model.push(ClaimOp::Extend(kv.clone())),
            GOp::Footer(f) => footer = Some(f.clone()),
            GOp::Assertion(a) if c.p.has_assertion() => ia = Some(a.clone()),
            GOp::Assertion(_) => {}
            GOp::UseKey(_) => {}
            GOp::Build => {
                nth += 1;
                r.evaluations += 1;
                let out = outs.get(bi).cloned().unwrap_or(Out::Err("harness: missing build outcome".into()));
                bi += 1;
                let tok = match out {
                    Out::Ok(t) => t,
                    o => {
                        r.violation(format!("{} multi-build build-failed {}", c.prop, tag), format!("{} [{}] build #{} failed: {}", tag, word.join(" "), nth, o.brief()), replay());
                        continue;
                    }
                };
                let cfg = ParserCfg { footer: footer.clone(), assertion: ia.clone(), ..Default::default() };
                let want = model_object(&model);
                match generic_open(c.p, &c.key, &tok, &cfg).0 {
                    Out::Ok(Value::Object(got)) if got == want => {
                        r.count(&format!("{} multi-build token equals the model", tag));
                        r.count(if nth == 1 { "multi-build: first builds equal" } else { "multi-build: later builds equal" });
                        r.distinct(format!("{}|multi|{}|{}", tag, word.len(), nth));
                        if r.samples.len() < 10 && nth >= 2 && r.evaluations % 37 == 1 {
                            r.sample(json!({"protocol": tag, "one_builder_history": word, "build_no": nth, "parsed_equals_model": want}));
                        }
                    }
                    Out::Ok(Value::Object(got)) => r.violation(
                        format!("{} multi-build claims-differ {} build={}", c.prop, tag, if nth == 1 { "first" } else { "later" }),
                        format!("{} ONE builder [{}] build #{}: {}", tag, word.join(" "), nth, diff_objects(&want, &got)),
                        replay(),
                    ),
                    o => r.violation(format!("{} multi-build parse-failed {} {}", c.prop, tag, o.class()), format!("{} ONE builder [{}] build #{}: token does not parse with the footer/assertion in force: {}", tag, word.join(" "), nth, o.brief()), replay()),
                }
            }
        }
    }
}

fn random_multi(rng: &mut Rng) -> Vec<GOp> {
    let n = 3 + rng.below(14);
    let mut ops = Vec::new();
    let mut keys: Vec<String> = Vec::new();
    for _ in 0..n {
        match rng.below(10) {
            0..=3 => {
                let c = random_claim(rng, &keys);
                keys.push(c.key().to_string());
                ops.push(GOp::Set(c));
            }
            4 | 5 if !keys.is_empty() => ops.push(GOp::Remove(rng.pick(&keys).clone())),
            4 => {
                let k = custom_key(rng);
                let d = rng.below(3);
                ops.push(GOp::Extend(vec![(k.clone(), gens::json_tree(rng, d))]));
                keys.push(k);
            }
            6 if rng.chance(1, 4) => {
                // a value that fails in Serialize after producing some output: the call cannot succeed and gets no verdict, but
                // whatever it leaves behind must not affect the claims set afterwards (a fresh key: it never enters the model)
                ops.push(GOp::Set(Claim::Native(format!("unserialisable-{}", ops.len()), Native::Unserialisable)));
            }
            6 => ops.push(GOp::Footer(rng.utf8_upto(12))),
            7 => ops.push(GOp::Assertion(rng.utf8_upto(12))),
            _ => ops.push(GOp::Build),
        }
    }
    ops.push(GOp::Build);
    ops
}

pub fn replay_c14_multi(case: &Value) -> Report {
    let mut r = Report::new();
    match serde_json::from_value::<C14Multi>(case.clone()) {
        Ok(c) => c14_multi_eval(&c, &mut r),
        Err(e) => r.inconclusive.push(format!("cannot decode replay case: {}", e)),
    }
    r
}

pub fn replay_c14(case: &Value) -> Report {
    let mut r = Report::new();
    match serde_json::from_value::<C14Case>(case.clone()) {
        Ok(c) => c14_eval(&c, &mut r),
        Err(e) => r.inconclusive.push(format!("cannot decode replay case: {}", e)),
    }
    r
}

pub const RULE_C14: &str = "seeded random histories of 0..12 (every 16th: 0..60) set_claim/remove_claim/extend_claims operations on GenericBuilder (20000 on v4.local, 250-1500 on each other protocol; thorough 2e6 / 1e4-1.5e5) plus a fixed corner catalogue: keys = non-empty Unicode (escapes, NUL, non-BMP, 200-byte keys, near-reserved names, keys equal to a member name inside their own value, 255/256/257/1000 (thorough 70000) claims on one builder, and ~45 pairs of different keys that collide under FNV-1/1a, the 31-multiplier hash, djb2, CRC-32, byte sums, truncation to 8..256 bytes or to u8/u16 characters, NFC/NFD, embedded NUL); values = JSON trees of depth <= 5 (i64/u64 extremes, exact short decimals, empty containers, null), native Rust values through Serialize (structs, tuples, Option, Vec, BTreeMap, enums, char, bytes) and registered claims through their typed constructors; the token is parsed back with a validator-free GenericParser and the whole object compared (serde_json equality) with a model map (last write wins, remove deletes) built by the harness. Plus multi-build histories (1500 on v4.local, 30-150 elsewhere; thorough 4e4): ONE GenericBuilder is driven through 3-17 set/remove/footer/assertion/build steps (now and then a set_claim with a value whose Serialize impl fails part-way: no verdict on that call, which the unchanged library answers with a panic, but nothing it leaves behind may affect later claims) and EVERY token it emits must equal the model at that point. distinct_nontrivial = distinct (protocol, #ops, #sets, #members, value-shape signature) that built, parsed and compared equal; every fourth token is also parsed through parsers carrying accepting validators (for absent claims and for claims the token carries, registered one at a time and in bulk), a matching expectation, and PasetoParser::default(): a successful parse must return exactly the claims set";

// ==========================================================================================
// C15
// ==========================================================================================
#[derive(Clone, Debug, Serialize, Deserialize)]
pub struct C15Case {
    pub p: P,
    pub key: KeyMat,
    /// claims of the token
    pub s: Vec<ClaimOp>,
    /// expected claims
    pub e: Vec<Claim>,
    pub layer: Layer,
    pub default_parser: bool,
    pub class: String,
    /// when set: the token is sealed at the CORE layer around this text (a payload that is valid JSON but not an object —
    /// what another implementation or the core builder can produce); `s` is empty then: every expected claim is absent
    #[serde(default)]
    pub raw_payload: Option<String>,
    /// harness validators registered on the same parser (accepting ones: the expectation must still be enforced)
    #[serde(default)]
    pub validators: Vec<VSpec>,
    #[serde(default)]
    pub validators_first: bool,
}

/// authentic tokens whose payload is JSON but not an object: no claim is present in them
pub const NON_OBJECT_PAYLOADS: [&str; 10] = ["[]", "[\"aud\",\"customers\"]", "\"aud\"", "137", "true", "null", "[{\"aud\":\"customers\",\"k\":1}]", "\"{\\\"aud\\\":\\\"customers\\\"}\"", "0.5", "[[]]"];

#[derive(Debug, PartialEq)]
enum Disc {
    Missing(String),
    Mismatch(String),
    DontCare(String),
}

fn same_number_different_spelling(a: &Value, b: &Value) -> bool {
    match (a, b) {
        (Value::Number(x), Value::Number(y)) => x != y && x.as_f64() == y.as_f64(),
        (Value::Array(x), Value::Array(y)) => x.len() == y.len() && x.iter().zip(y).all(|(p, q)| p == q || same_number_different_spelling(p, q)) && x != y,
        (Value::Object(x), Value::Object(y)) => x.len() == y.len() && x.iter().all(|(k, v)| y.get(k).map(|w| v == w || same_number_different_spelling(v, w)).unwrap_or(false)) && x != y,
        _ => false,
    }
}

fn discrepancies(s: &Map<String, Value>, e: &[Claim]) -> Vec<Disc> {
    // the parser keeps ONE expectation per key (last check_claim wins)
    let mut last: std::collections::BTreeMap<&str, Value> = std::collections::BTreeMap::new();
    for c in e {
        last.insert(c.key(), c.value());
    }
    let mut d = Vec::new();
    for (k, v) in last {
        match s.get(k) {
            None | Some(Value::Null) => d.push(Disc::Missing(k.to_string())),
            Some(x) if *x == v => {}
            Some(x) if same_number_different_spelling(x, &v) => d.push(Disc::DontCare(k.to_string())),
            Some(_) => d.push(Disc::Mismatch(k.to_string())),
        }
    }
    d
}

fn err_key(e: &str) -> Option<(&str, &str)> {
    // "Claim/Missing(aud)" -> ("Missing", "aud")
    let rest = e.strip_prefix("Claim/")?;
    let (variant, k) = rest.split_once('(')?;
    Some((variant, k.strip_suffix(')')?))
}

fn c15_verdict(c: &C15Case, tok_claims: &Map<String, Value>, out: &Out<Value>, r: &mut Report, ctx: &str) -> bool {
    let replay = || json!({"cmd": "C15", "case": c});
    let tag = format!("{}/{}{}", c.p.name(), c.layer.name(), if c.default_parser { "-default" } else { "" });
    if let Out::Err(e) = out {
        if e.starts_with("ClaimCtor/") || e.starts_with("KeyCtor/") {
            r.inconclusive.push(format!("C15 harness could not even construct the expectation: {}", e));
            return false;
        }
    }
    let d = discrepancies(tok_claims, &c.e);
    if d.iter().any(|x| matches!(x, Disc::DontCare(_))) {
        r.discard("integer-vs-float spelling of the same number: property does not settle it");
        return true;
    }
    let missing: Vec<&String> = d.iter().filter_map(|x| if let Disc::Missing(k) = x { Some(k) } else { None }).collect();
    let mismatch: Vec<&String> = d.iter().filter_map(|x| if let Disc::Mismatch(k) = x { Some(k) } else { None }).collect();
    let shadowed: Vec<&String> = if c.default_parser { d.iter().filter_map(|x| match x { Disc::Mismatch(k) | Disc::Missing(k) if k == "exp" || k == "nbf" => Some(k), _ => None }).collect() } else { vec![] };
    match out {
        Out::Panic(loc) => {
            r.violation(format!("C15 panic {}", tag), format!("{}{}: panic: {}", tag, ctx, loc), replay());
            false
        }
        Out::Ok(_) if d.is_empty() => {
            r.count(&format!("{} accepted-all-match", tag));
            r.distinct(format!("{}|ok|{}|e{}", tag, c.class, c.e.len()));
            true
        }
        Out::Ok(_) => {
            if !shadowed.is_empty() && shadowed.len() == d.len() {
                for k in &shadowed {
                    r.violation(
                        format!("C15 default-validator-shadows-check_claim key={}", k),
                        format!("{}{}: PasetoParser::default().check_claim({}=..) ACCEPTED a token whose {} is {:?} (expected {:?}): the default validator registered for the key replaces the equality check", tag, ctx, k, k, tok_claims.get(k.as_str()), c.e.iter().rev().find(|x| x.key() == k.as_str()).map(|x| x.value())),
                        replay(),
                    );
                }
            } else {
                r.violation(
                    format!("C15 accepted-despite-{} {} class={}", if !mismatch.is_empty() { "different-value" } else { "missing-claim" }, tag, c.class),
                    format!("{}{}: token ACCEPTED although expected claims are missing {:?} / differ {:?}; token claims {}, expected {}", tag, ctx, missing, mismatch, util::clip(&Value::Object(tok_claims.clone()).to_string(), 200), util::clip(&format!("{:?}", c.e.iter().map(|x| (x.key().to_string(), x.value())).collect::<Vec<_>>()), 200)),
                    replay(),
                );
            }
            false
        }
        Out::Err(e) if d.is_empty() => {
            r.violation(
                format!("C15 rejected-although-all-match {} err={}", tag, e.split('(').next().unwrap_or(e)),
                format!("{}{}: token REJECTED ({}) although every expected claim is present with an equal value; token claims {}, expected {:?}", tag, ctx, e, util::clip(&Value::Object(tok_claims.clone()).to_string(), 200), c.e.iter().map(|x| (x.key().to_string(), x.value())).collect::<Vec<_>>()),
                replay(),
            );
            false
        }
        Out::Err(e) => {
            r.see("claim-error-variants", e.split('(').next().unwrap_or(e));
            // "a missing claim yields a missing-claim error, a differing value yields an error": Missing(k) must name a claim that IS
            // missing; when something differs any claim error will do (whatever it names); non-claim errors never will
            let ok = match err_key(e) {
                Some(("Missing", k)) => missing.iter().any(|m| m.as_str() == k),
                Some(_) => !mismatch.is_empty(),
                None => e.starts_with("Claim/") && !mismatch.is_empty(),
            };
            if !ok {
                let kind = match err_key(e) {
                    Some(("Missing", _)) => "missing-reported-for-present-claim",
                    Some(_) if mismatch.is_empty() => "non-missing-error-for-missing-claim",
                    _ => "error-names-wrong-claim",
                };
                r.violation(
                    format!("C15 {} {}", kind, tag),
                    format!("{}{}: rejected with {} but the discrepancies are missing {:?} / differing {:?}", tag, ctx, e, missing, mismatch),
                    replay(),
                );
                return false;
            }
            r.count(&format!("{} rejected-{}", tag, if !missing.is_empty() && mismatch.is_empty() { "missing" } else { "mismatch" }));
            r.distinct(format!("{}|rej|{}|{}", tag, c.class, e.split('(').next().unwrap_or(e)));
            true
        }
    }
}

fn open_c15(c: &C15Case, tok: &str) -> Out<Value> {
    let cfg = ParserCfg { expected: c.e.clone(), default_parser: c.default_parser, expected_via_extend: c.class.ends_with("[extend_check_claims]"), validators: c.validators.clone(), validators_first: c.validators_first, ..Default::default() };
    match c.layer {
        Layer::Generic => generic_open(c.p, &c.key, tok, &cfg).0,
        _ => batteries_open(c.p, &c.key, tok, &cfg).0,
    }
}

fn c15_eval(c: &C15Case, r: &mut Report) {
    r.evaluations += 1;
    let sealed = match &c.raw_payload {
        Some(text) => core_seal(c.p, &c.key, &[0x5a; 32], text, None, None).0,
        None => generic_seal(c.p, &c.key, &c.s, None, None).0,
    };
    let tok = match sealed {
        Out::Ok(t) => t,
        o => {
            r.inconclusive.push(format!("C15: could not build the token: {}", o.brief()));
            return;
        }
    };
    let s = model_object(&c.s);
    let out = open_c15(c, &tok);
    let ok = c15_verdict(c, &s, &out, r, "");
    if ok && r.samples.len() < 8 && r.evaluations % 331 == 7 {
        r.sample(json!({"parser": format!("{}/{}{}", c.p.name(), c.layer.name(), if c.default_parser {"-default"} else {""}), "class": c.class, "token_claims": s, "expected": c.e.iter().map(|x| json!({x.key(): x.value()})).collect::<Vec<_>>(), "outcome": out.brief()}));
    }
}

/// mutate a JSON value into something unequal of the given kind
fn perturb(v: &Value, rng: &mut Rng) -> (Value, &'static str) {
    match v {
        Value::String(s) => match rng.below(10) {
            0 => (json!(s.to_uppercase() + if s.to_uppercase() == *s { "x" } else { "" }), "case"),
            1 => (json!(format!("{} ", s)), "trailing-space"),
            2 => (json!(s.len()), "type"),
            3 => (json!(format!("{}\0", s)), "nul-suffix"),
            // one value a proper prefix of the other with a length difference that a narrow integer loses
            4 => (json!(format!("{}{}", s, "a".repeat(256))), "extended-by-256-bytes"),
            5 => (json!(format!("{}{}", s, "a".repeat(512))), "extended-by-512-bytes"),
            6 => (json!(format!("{}{}", s, "a".repeat(65536))), "extended-by-65536-bytes"),
            7 if s.len() > 256 && s.is_char_boundary(s.len() - 256) => (json!(s[..s.len() - 256].to_string()), "shortened-by-256-bytes"),
            8 if !s.is_empty() => (json!(""), "emptied"),
            _ => (json!(format!("{}x", s)), "one-byte-longer"),
        },
        Value::Number(n) => {
            if let Some(i) = n.as_i64() {
                match rng.below(3) {
                    0 => (json!(i.wrapping_add(1)), "off-by-one"),
                    1 => (json!(i.to_string()), "type"),
                    _ => (json!(i as f64 + 0.5), "fraction"),
                }
            } else if let Some(f) = n.as_f64() {
                // a float that differs only far behind the decimal point (beyond single precision), or its string form
                match rng.below(3) {
                    0 => (json!(f * (1.0 + 1e-9)), "float-differs-beyond-f32-precision"),
                    1 => (json!(f + f.abs() * 2e-8 + 1e-300), "float-differs-beyond-f32-precision"),
                    _ => (json!(n.to_string()), "type"),
                }
            } else {
                (json!(n.to_string()), "type")
            }
        }
        Value::Bool(b) => (json!(!b), "negated"),
        Value::Null => (json!("null"), "type"),
        Value::Array(a) => {
            let mut a2 = a.clone();
            a2.push(json!(0));
            (Value::Array(a2), "extra-element")
        }
        Value::Object(o) => {
            let mut o2 = o.clone();
            o2.insert("extra".into(), json!(1));
            (Value::Object(o2), "extra-member")
        }
    }
}

fn to_claim(k: &str, v: &Value) -> Claim {
    // registered keys must go through their typed constructors (strings only)
    match (k, v) {
        ("iss", Value::String(s)) => Claim::Iss(s.clone()),
        ("sub", Value::String(s)) => Claim::Sub(s.clone()),
        ("aud", Value::String(s)) => Claim::Aud(s.clone()),
        ("jti", Value::String(s)) => Claim::Jti(s.clone()),
        ("exp", Value::String(s)) => Claim::Exp(s.clone()),
        ("nbf", Value::String(s)) => Claim::Nbf(s.clone()),
        ("iat", Value::String(s)) => Claim::Iat(s.clone()),
        _ => Claim::Custom(k.to_string(), v.clone()),
    }
}

fn c15_token_claims(rng: &mut Rng, allow_time: bool) -> Vec<ClaimOp> {
    let mut ops = Vec::new();
    let mut seen = std::collections::HashSet::new();
    let n = 1 + rng.below(6);
    for i in 0..n {
        let c = match rng.below(9) {
            0 => Claim::Iss(rng.utf8_1upto(10)),
            1 => Claim::Sub(rng.utf8_1upto(10)),
            2 => Claim::Aud(rng.utf8_1upto(10)),
            3 => Claim::Jti(rng.utf8_1upto(10)),
            4 if allow_time => match i % 3 {
                0 => Claim::Iat("2020-01-01T00:00:00+00:00".into()),
                1 => Claim::Nbf("2020-01-01T00:00:00+00:00".into()),
                _ => Claim::Iat("2020-01-01T00:00:00+00:00".into()),
            },
            5 if rng.chance(1, 3) => Claim::Custom(["Role", "userId", "X-Seats", "ÄB", "roLE"][rng.below(5)].to_string(), json!(format!("v{}", rng.below(50)))),
            5 => Claim::Custom(format!("n{}", i), json!(rng.below(100) as i64)),
            6 if rng.chance(1, 2) => Claim::Custom(format!("f{}", i), json!([3.141526f64, 16_777_216.25, 0.1, 1e39, 2.5e-7, 1234.5678][rng.below(6)])),
            6 => Claim::Custom(format!("b{}", i), json!(rng.chance(1, 2))),
            7 => Claim::Custom(format!("o{}", i), gens::json_tree(rng, 2)),
            _ if rng.chance(1, 5) => Claim::Custom(format!("s{}", i), json!(format!("{}{}", rng.utf8_1upto(8), "a".repeat(256 + 256 * rng.below(2))))),
            _ if rng.chance(1, 8) => Claim::Custom(format!("s{}", i), json!("")),
            _ => Claim::Custom(format!("s{}", i), json!(rng.utf8_1upto(8))),
        };
        if seen.insert(c.key().to_string()) {
            ops.push(ClaimOp::Set(c));
        }
    }
    // keys that look like paths / pointers / indices: they must be treated as plain member names
    if rng.chance(1, 3) {
        let k = ["https://example.com/role", "a/b", "/", "a~1b", "~0", "o/x", "a.b", "a[0]", "0", "$.a", "role/"][rng.below(11)].to_string();
        if seen.insert(k.clone()) {
            ops.push(ClaimOp::Set(Claim::Custom(k.clone(), json!(format!("v-{}", rng.below(100))))));
        }
        // ... including when a nested member with that "path" exists and holds something else
        if k == "a/b" && seen.insert("a".into()) {
            ops.push(ClaimOp::Set(Claim::Custom("a".into(), json!({"b": "nested-b", "c": 1}))));
        }
        if k == "o/x" && seen.insert("o".into()) {
            ops.push(ClaimOp::Set(Claim::Custom("o".into(), json!({"x": 1}))));
        }
    }
    ops
}

pub fn run_c15(tier: &str, seed: u64) -> Report {
    let thorough = tier == "thorough";
    let pools = Pools::new(seed, 4, 2);
    let mut total = Report::new();
    if pools.rsa.is_empty() {
        total.inconclusive.push("no RSA key fixtures found".into());
        return total;
    }
    let n_for = |p: P| match (p, thorough) {
        (P::V4L, false) => 3000,
        (P::V4P, false) => 800,
        (P::V1P, false) => 60,
        (P::V3P, false) => 100,
        (_, false) => 300,
        (P::V4L, true) => 60_000,
        (P::V1P, true) => 1500,
        (P::V3P, true) => 2500,
        (_, true) => 8000,
    };
    let mut items: Vec<(P, usize)> = Vec::new();
    for &p in &ALL {
        for j in 0..n_for(p) {
            items.push((p, j));
        }
    }
    let r = parallel(items.len(), util::threads(), |i, r| {
        let (p, j) = items[i];
        let mut rng = Rng::new(seed, "c15", (p as u64) << 32 | j as u64);
        let key = pools.key(p, j % pools.count(p));
        let s = c15_token_claims(&mut rng, true);
        let sm = model_object(&s);
        let entries: Vec<(String, Value)> = sm.iter().map(|(k, v)| (k.clone(), v.clone())).collect();
        if entries.is_empty() {
            return;
        }
        // expected sets: equal, subset, superset(missing key), one value changed, one key changed by a character, expected null
        let mut variants: Vec<(Vec<Claim>, String)> = Vec::new();
        variants.push((entries.iter().map(|(k, v)| to_claim(k, v)).collect(), "equal".into()));
        let sub: Vec<Claim> = entries.iter().filter(|_| rng.chance(1, 2)).map(|(k, v)| to_claim(k, v)).collect();
        variants.push((sub, "subset".into()));
        let mut sup: Vec<Claim> = entries.iter().map(|(k, v)| to_claim(k, v)).collect();
        sup.push(match rng.below(4) {
            0 => Claim::Aud("absent-audience".into()),
            1 => Claim::Custom("absent".into(), json!(1)),
            2 => Claim::Jti("absent-id".into()),
            _ => Claim::Custom("zzz".into(), json!({"a": 1})),
        });
        let sup_ok = !sm.contains_key(sup.last().unwrap().key());
        if sup_ok {
            variants.push((sup, "superset-missing-claim".into()));
        }
        let (ck, cv) = &entries[rng.below(entries.len())];
        // time claims: another instant, or the SAME instant / second spelled differently (JSON-unequal strings all the same)
        let (pv, kind) = if ["exp", "nbf", "iat"].contains(&ck.as_str()) {
            match rng.below(5) {
                0 => (json!("2021-06-01T00:00:00+00:00"), "other-instant"),
                1 => (json!("2020-01-01T00:00:00Z"), "same-instant-Z-spelling"),
                2 => (json!("2020-01-01T01:00:00+01:00"), "same-instant-other-offset"),
                3 => (json!("2020-01-01T00:00:00.900+00:00"), "same-second-with-fraction"),
                _ => (json!("2020-01-01T00:00:00.000+00:00"), "same-instant-with-zero-fraction"),
            }
        } else {
            perturb(cv, &mut rng)
        };
        if RESERVED.contains(&ck.as_str()) && !pv.is_string() {
            return;
        }
        let changed = to_claim(ck, &pv);
        // registered keys only take strings: a type change there cannot be expressed through the typed constructor
        if changed.value() != *cv && (changed.key() == ck) {
            let mut e: Vec<Claim> = entries.iter().filter(|(k, _)| k != ck).map(|(k, v)| to_claim(k, v)).collect();
            e.insert(rng.below(e.len() + 1), changed);
            variants.push((e, format!("one-value-changed[{}]", kind)));
        }
        let (kk, kv) = &entries[rng.below(entries.len())];
        if !RESERVED.contains(&kk.as_str()) {
            let mut k2 = kk.clone();
            k2.push('x');
            if !sm.contains_key(&k2) {
                let mut e: Vec<Claim> = entries.iter().filter(|(k, _)| k != kk).map(|(k, v)| to_claim(k, v)).collect();
                e.push(Claim::Custom(k2, kv.clone()));
                variants.push((e, "one-key-changed".into()));
            }
        }
        // an expectation on a key that is present with value null in the token
        let mut s_null = s.clone();
        s_null.push(ClaimOp::Set(Claim::Custom("nullish".into(), Value::Null)));
        // number spellings (don't-care class)
        if let Some((nk, nv)) = entries.iter().find(|(_, v)| v.is_i64()) {
            let f = nv.as_i64().unwrap() as f64;
            variants.push((vec![Claim::Custom(nk.clone(), json!(f))], "number-spelling".into()));
        }
        for (layer, dp) in [(Layer::Generic, false), (Layer::Batteries, false), (Layer::Batteries, true)] {
            for (e, class) in &variants {
                let c = C15Case { p, key: key.clone(), s: s.clone(), e: e.clone(), layer, default_parser: dp, class: class.clone(), raw_payload: None, validators: vec![], validators_first: false };
                c15_eval(&c, r);
                if layer == Layer::Generic && j % 3 == 0 {
                    // the same expectations registered through one extend_check_claims(map) call
                    let c = C15Case { p, key: key.clone(), s: s.clone(), e: e.clone(), layer, default_parser: dp, class: format!("{} [extend_check_claims]", class), raw_payload: None, validators: vec![], validators_first: false };
                    c15_eval(&c, r);
                    r.count("expectations registered through extend_check_claims");
                }
            }
            let c = C15Case { p, key: key.clone(), s: s_null.clone(), e: vec![Claim::Custom("nullish".into(), Value::Null)], layer, default_parser: dp, class: "expected-null-present-null".into(), raw_payload: None, validators: vec![], validators_first: false };
            c15_eval(&c, r);
            let c = C15Case { p, key: key.clone(), s: s_null.clone(), e: vec![Claim::Custom("nullish".into(), json!(1))], layer, default_parser: dp, class: "expected-value-present-null".into(), raw_payload: None, validators: vec![], validators_first: false };
            c15_eval(&c, r);
        }
    });
    total.merge(r);

    // ---- payloads written by ANOTHER implementation (sealed at the core layer): the same numbers spelled differently must
    // still match, and objects that merely look like serde_json's internal number / raw-value encodings are objects
    let mut rf = Report::new();
    let foreign: Vec<(&str, Vec<ClaimOp>, Vec<Claim>, bool)> = vec![
        ("{\"f\":2.5e3,\"n\":1}", vec![ClaimOp::Set(Claim::Custom("f".into(), json!(2500.0))), ClaimOp::Set(Claim::Custom("n".into(), json!(1)))], vec![Claim::Custom("f".into(), json!(2500.0))], true),
        ("{\"f\":1.50}", vec![ClaimOp::Set(Claim::Custom("f".into(), json!(1.5)))], vec![Claim::Custom("f".into(), json!(1.5))], true),
        ("{\"f\":1E2}", vec![ClaimOp::Set(Claim::Custom("f".into(), json!(100.0)))], vec![Claim::Custom("f".into(), json!(100.0))], true),
        ("{\"f\":0.10,\"s\":\"\\u0061\"}", vec![ClaimOp::Set(Claim::Custom("f".into(), json!(0.1))), ClaimOp::Set(Claim::Custom("s".into(), json!("a")))], vec![Claim::Custom("f".into(), json!(0.1)), Claim::Custom("s".into(), json!("a"))], true),
        // a value that is an object with ONE member named like the claim is an object, not the member's value
        ("{\"role\":{\"role\":\"admin\"}}", vec![ClaimOp::Set(Claim::Custom("role".into(), json!({"role": "admin"})))], vec![Claim::Custom("role".into(), json!("admin"))], false),
        ("{\"aud\":{\"aud\":\"customers\"},\"n\":1}", vec![ClaimOp::Set(Claim::Custom("aud".into(), json!({"aud": "customers"}))), ClaimOp::Set(Claim::Custom("n".into(), json!(1)))], vec![Claim::Aud("customers".into())], false),
        ("{\"seats\":[4]}", vec![ClaimOp::Set(Claim::Custom("seats".into(), json!([4])))], vec![Claim::Custom("seats".into(), json!(4))], false),
        ("{\"seats\":{\"$serde_json::private::Number\":\"4\"}}", vec![ClaimOp::Set(Claim::Custom("seats".into(), json!({"$serde_json::private::Number": "4"})))], vec![Claim::Custom("seats".into(), json!(4))], false),
        ("{\"seats\":{\"$serde_json::private::RawValue\":\"4\"}}", vec![ClaimOp::Set(Claim::Custom("seats".into(), json!({"$serde_json::private::RawValue": "4"})))], vec![Claim::Custom("seats".into(), json!(4))], false),
        ("{\"aud\":{\"$serde_json::private::RawValue\":\"\\\"customers\\\"\"}}", vec![ClaimOp::Set(Claim::Custom("aud".into(), json!({"$serde_json::private::RawValue": "\"customers\""})))], vec![Claim::Aud("customers".into())], false),
    ];
    // member NAMES that only another implementation (or the core layer) can emit - the builders ignore a claim with an empty
    // key: the empty string, a NUL, a quote, a byte-order mark and a 300-character name are member names like any other
    let long_key = "k".repeat(300);
    let long_text = format!("{{\"{}\":1,\"n\":2}}", long_key);
    let mut foreign = foreign;
    foreign.extend(vec![
        ("{\"\":7,\"n\":1}", vec![ClaimOp::Extend(vec![("".into(), json!(7)), ("n".into(), json!(1))])], vec![Claim::Custom("".into(), json!(7))], true),
        ("{\"\":8,\"n\":1}", vec![ClaimOp::Extend(vec![("".into(), json!(8)), ("n".into(), json!(1))])], vec![Claim::Custom("".into(), json!(7))], false),
        ("{\"\":\"7\"}", vec![ClaimOp::Extend(vec![("".into(), json!("7"))])], vec![Claim::Custom("".into(), json!(7))], false),
        ("{\"n\":1}", vec![ClaimOp::Extend(vec![("n".into(), json!(1))])], vec![Claim::Custom("".into(), json!(7))], false),
        ("{\"n\":1,\" \":7}", vec![ClaimOp::Extend(vec![("n".into(), json!(1)), (" ".into(), json!(7))])], vec![Claim::Custom("".into(), json!(7))], false),
        ("{\"\\u0000k\":1}", vec![ClaimOp::Extend(vec![("\u{0}k".into(), json!(1))])], vec![Claim::Custom("\u{0}k".into(), json!(1))], true),
        ("{\"k\":1}", vec![ClaimOp::Extend(vec![("k".into(), json!(1))])], vec![Claim::Custom("\u{0}k".into(), json!(1))], false),
        ("{\"k\\\"q\":1}", vec![ClaimOp::Extend(vec![("k\"q".into(), json!(1))])], vec![Claim::Custom("k\"q".into(), json!(1))], true),
        ("{\"\\ufeffk\":1}", vec![ClaimOp::Extend(vec![("\u{feff}k".into(), json!(1))])], vec![Claim::Custom("k".into(), json!(1))], false),
        (long_text.as_str(), vec![ClaimOp::Extend(vec![(long_key.clone(), json!(1)), ("n".into(), json!(2))])], vec![Claim::Custom(long_key.clone(), json!(1)), Claim::Custom("n".into(), json!(2))], true),
        (long_text.as_str(), vec![ClaimOp::Extend(vec![(long_key.clone(), json!(1)), ("n".into(), json!(2))])], vec![Claim::Custom(long_key[..299].to_string(), json!(1))], false),
    ]);
    for &p in &[P::V4L, P::V2L, P::V4P, P::V3L] {
        let key = pools.key(p, 0);
        for (layer, dp) in [(Layer::Generic, false), (Layer::Batteries, false), (Layer::Batteries, true)] {
            for (text, model, e, _accept) in &foreign {
                let c = C15Case { p, key: key.clone(), s: model.clone(), e: e.clone(), layer, default_parser: dp, class: "foreign-payload-spelling".into(), raw_payload: Some(text.to_string()), validators: vec![], validators_first: false };
                let before = rf.violations_total;
                c15_eval(&c, &mut rf);
                if rf.violations_total == before {
                    rf.count("foreign payload spellings judged by JSON value");
                }
            }
        }
    }
    rf.require("foreign payload spellings judged by JSON value", 60);
    total.merge(rf);

    // ---- authentic tokens whose payload is JSON but NOT an object (core builder / another implementation): every expected
    // claim is absent from them, so every expectation must fail as missing
    let mut rn = Report::new();
    for &p in &ALL {
        let key = pools.key(p, 0);
        for (layer, dp) in [(Layer::Generic, false), (Layer::Batteries, false), (Layer::Batteries, true)] {
            for (ti, text) in NON_OBJECT_PAYLOADS.iter().enumerate() {
                if p == P::V1P && ti % 3 != 0 {
                    continue;
                }
                for e in [vec![Claim::Aud("customers".into())], vec![Claim::Custom("k".into(), json!(1))], vec![Claim::Custom("0".into(), json!("aud")), Claim::Sub("x".into())]] {
                    let c = C15Case { p, key: key.clone(), s: vec![], e, layer, default_parser: dp, class: "non-object-payload".into(), raw_payload: Some(text.to_string()), validators: vec![], validators_first: false };
                    let before = rn.violations_total;
                    c15_eval(&c, &mut rn);
                    if rn.violations_total == before {
                        rn.count("non-object payloads: expectations fail as missing");
                    }
                }
            }
        }
    }
    rn.require("non-object payloads: expectations fail as missing", 300);
    total.merge(rn);

    // ---- histories: one parser, several tokens, different orders: outcome per token must be the fresh-parser outcome
    let nh = if thorough { 5000 } else { 500 };
    let r = parallel(nh, util::threads(), |i, r| {
        let mut rng = Rng::new(seed, "c15-hist", i as u64);
        let p = ALL[[3usize, 3, 3, 7, 7, 1, 0, 2, 5][i % 9]]; // mostly v4, some others (cheap ones)
        let key = pools.key(p, i % pools.count(p));
        let e = vec![Claim::Aud("aud-x".into()), Claim::Custom("role".into(), json!("admin"))];
        let mk = |aud: Option<&str>, role: Option<Value>, extra: i64| -> Vec<ClaimOp> {
            let mut v = vec![ClaimOp::Set(Claim::Custom("n".into(), json!(extra)))];
            if let Some(a) = aud {
                v.push(ClaimOp::Set(Claim::Aud(a.into())));
            }
            if let Some(x) = role {
                v.push(ClaimOp::Set(Claim::Custom("role".into(), x)));
            }
            v
        };
        let specs: Vec<Vec<ClaimOp>> = vec![
            mk(Some("aud-x"), Some(json!("admin")), 1),
            mk(Some("aud-y"), Some(json!("admin")), 2),
            mk(Some("aud-x"), None, 3),
            mk(None, None, 4),
            mk(Some("aud-x"), Some(json!("ADMIN")), 5),
            mk(Some("aud-x"), Some(json!("admin")), 6),
            mk(Some("aud-x"), Some(json!(["admin"])), 7),
            mk(Some("aud-x"), Some(json!("admin")), 8),
        ];
        let toks: Vec<String> = specs.iter().filter_map(|s| generic_seal(p, &key, s, None, None).0.ok().cloned()).collect();
        if toks.len() != specs.len() {
            r.inconclusive.push("C15 history: could not build tokens".into());
            return;
        }
        for order_no in 0..4 {
            let mut order: Vec<usize> = (0..toks.len()).collect();
            match order_no {
                0 => {}
                1 => order.reverse(),
                _ => {
                    for k in (1..order.len()).rev() {
                        let j = rng.below(k + 1);
                        order.swap(k, j);
                    }
                }
            }
            let (layer, dp) = [(Layer::Generic, false), (Layer::Batteries, false), (Layer::Batteries, true)][(i + order_no) % 3];
            let cfg = ParserCfg { expected: e.clone(), default_parser: dp, ..Default::default() };
            let seq: Vec<&str> = order.iter().map(|&k| toks[k].as_str()).collect();
            let outs = if layer == Layer::Generic { generic_open_seq(p, &key, &seq, &cfg) } else { batteries_open_seq(p, &key, &seq, &cfg) };
            for (pos, (o, _)) in outs.iter().enumerate() {
                r.evaluations += 1;
                let k = order[pos];
                let c = C15Case { p, key: key.clone(), s: specs[k].clone(), e: e.clone(), layer, default_parser: dp, class: "history".into(), raw_payload: None, validators: vec![], validators_first: false };
                let ok = c15_verdict(&c, &model_object(&specs[k]), o, r, &format!(" [parse #{} of one parser, order {:?}]", pos + 1, order));
                if ok {
                    r.count("history parses consistent with a fresh parser");
                }
            }
        }
    });
    total.merge(r);

    // ---- one parser whose expectation for a key is REPLACED between parses
    let mut r = Report::new();
    let _ = crate::c04::recent_sessions_take();
    for &p in &ALL {
        let key = pools.key(p, 0);
        let mk = |role: Value, seats: i64| vec![ClaimOp::Set(Claim::Custom("role".into(), role)), ClaimOp::Set(Claim::Custom("seats".into(), json!(seats))), ClaimOp::Set(Claim::Aud("aud-1".into())), ClaimOp::Set(Claim::Custom("tier".into(), json!("gold"))), ClaimOp::Set(Claim::Iss("issuer-1".into()))];
        let specs = [mk(json!("admin"), 4), mk(json!("guest"), 4), mk(json!("admin"), 5)];
        let toks: Vec<String> = specs.iter().filter_map(|s| generic_seal(p, &key, s, None, None).0.ok().cloned()).collect();
        if toks.len() != 3 {
            r.inconclusive.push(format!("C15 replace-session: could not build tokens for {}", p.name()));
            continue;
        }
        for (batteries, dp) in [(false, false), (true, false), (true, true)] {
            let mut steps = Vec::new();
            let mut expect = Vec::new();
            let mut what = Vec::new();
            let mut step = |s: PStep, e: Option<bool>, w: &str| {
                if let Some(e) = e {
                    expect.push(e);
                    what.push(w.to_string());
                }
                steps.push(s);
            };
            step(PStep::Check(Claim::Custom("role".into(), json!("admin"))), None, "");
            step(PStep::Check(Claim::Custom("seats".into(), json!(4))), None, "");
            step(PStep::Parse { token: toks[0].clone(), key: 0 }, Some(true), "expect role=admin seats=4; token admin/4");
            step(PStep::Parse { token: toks[1].clone(), key: 0 }, Some(false), "same expectation; token guest/4");
            step(PStep::Check(Claim::Custom("role".into(), json!("guest"))), None, "");
            step(PStep::Parse { token: toks[1].clone(), key: 0 }, Some(true), "expectation REPLACED by role=guest; token guest/4");
            step(PStep::Parse { token: toks[0].clone(), key: 0 }, Some(false), "expect role=guest; token admin/4");
            step(PStep::Check(Claim::Custom("seats".into(), json!(5))), None, "");
            step(PStep::Check(Claim::Custom("role".into(), json!("admin"))), None, "");
            step(PStep::Parse { token: toks[2].clone(), key: 0 }, Some(true), "expectation REPLACED by role=admin seats=5; token admin/5");
            step(PStep::Parse { token: toks[0].clone(), key: 0 }, Some(false), "expect seats=5; token admin/4");
            step(PStep::Check(Claim::Aud("aud-2".into())), None, "");
            step(PStep::Parse { token: toks[2].clone(), key: 0 }, Some(false), "additional expectation aud=aud-2; token has aud-1");
            step(PStep::Check(Claim::Aud("aud-1".into())), None, "");
            step(PStep::Parse { token: toks[2].clone(), key: 0 }, Some(true), "expectation REPLACED by aud=aud-1; token admin/5/aud-1");
            // several expectations registered AT ONCE (one extend_check_claims call on GenericParser) with more entries than the
            // parser holds, replacing two of them: the registration made last is the one in force
            step(PStep::CheckMany(vec![Claim::Custom("role".into(), json!("guest")), Claim::Custom("seats".into(), json!(4)), Claim::Custom("tier".into(), json!("gold")), Claim::Iss("issuer-1".into())]), None, "");
            step(PStep::Parse { token: toks[1].clone(), key: 0 }, Some(true), "four expectations registered at once, REPLACING role by guest and seats by 4; token guest/4");
            step(PStep::Parse { token: toks[0].clone(), key: 0 }, Some(false), "same expectations; token admin/4");
            step(PStep::Parse { token: toks[2].clone(), key: 0 }, Some(false), "same expectations; token admin/5");
            step(PStep::CheckMany(vec![Claim::Custom("role".into(), json!("admin"))]), None, "");
            step(PStep::Parse { token: toks[0].clone(), key: 0 }, Some(true), "one expectation registered through the same call, REPLACING role by admin; token admin/4");
            step(PStep::CheckMany(vec![Claim::Custom("role".into(), json!("admin")), Claim::Custom("seats".into(), json!(5)), Claim::Custom("tier".into(), json!("gold")), Claim::Iss("issuer-1".into()), Claim::Aud("aud-1".into()), Claim::Custom("tier".into(), json!("gold"))]), None, "");
            step(PStep::Parse { token: toks[2].clone(), key: 0 }, Some(true), "all five expectations registered again at once with seats=5; token admin/5");
            step(PStep::Parse { token: toks[0].clone(), key: 0 }, Some(false), "same expectations; token admin/4");
            let c = crate::c04::SessionCase { prop: "C15".into(), p, batteries, default_parser: dp, keys: vec![key.clone()], footer: None, ia: None, steps, expect, what, nested_expect: vec![], nested_what: vec![] };
            crate::c04::session_eval(&c, &mut r);
        }
    }
    // ... and two such parsers alive at once on one thread (different protocols / layers / expectations)
    let cases = crate::c04::recent_sessions_take();
    crate::c04::nested_pairs("C15", &cases, if thorough { 2000 } else { 160 }, seed, &mut r);
    r.require("nested parser pairs: both answer as alone", 60);
    total.merge(r);

    // ---- PasetoParser::default() + check_claim(exp|nbf): its own class (known finding)
    let mut r = Report::new();
    for &p in &ALL {
        let key = pools.key(p, 0);
        for (k, tokv, expv) in [("exp", "2999-01-01T00:00:00+00:00", "2888-01-01T00:00:00+00:00"), ("nbf", "2001-01-01T00:00:00+00:00", "2002-01-01T00:00:00+00:00")] {
            let s = vec![ClaimOp::Set(to_claim(k, &json!(tokv))), ClaimOp::Set(Claim::Custom("n".into(), json!(1)))];
            for (dp, e) in [(true, expv), (false, expv), (true, tokv), (false, tokv)] {
                let c = C15Case { p, key: key.clone(), s: s.clone(), e: vec![to_claim(k, &json!(e))], layer: Layer::Batteries, default_parser: dp, class: format!("time-claim-expectation key={}", k), raw_payload: None, validators: vec![], validators_first: false };
                c15_eval(&c, &mut r);
            }
        }
    }
    // ---- an expectation on a key that ALSO has a (tolerant) validator, and a token that lacks the claim: still missing.
    // (the default parser's own exp/nbf validators tolerate absence; a harness validator that accepts everything likewise)
    for &p in &ALL {
        let key = pools.key(p, 0);
        let s = vec![ClaimOp::Set(Claim::Custom("n".into(), json!(1)))];
        for (layer, dp) in [(Layer::Generic, false), (Layer::Batteries, false), (Layer::Batteries, true)] {
            let mut combos: Vec<(Vec<Claim>, Vec<VSpec>, bool)> = vec![
                (vec![Claim::Custom("role".into(), json!("admin"))], vec![VSpec { claim: Claim::Custom("role".into(), json!("dummy")), behave: VBehave::Accept, reg: VReg::ValidateClaim, second: false, odd: 0 }], true),
                (vec![Claim::Aud("customers".into())], vec![VSpec { claim: Claim::Aud("dummy".into()), behave: VBehave::Accept, reg: VReg::ValidateClaim, second: false, odd: 0 }], true),
            ];
            // (the validator is registered FIRST, check_claim afterwards: the other order replaces the expectation by the
            // validator's placeholder claim, which is the API's "last registration wins" and not a defect)
            if dp {
                combos.push((vec![Claim::Exp("2999-01-01T00:00:00+00:00".into())], vec![], false));
                combos.push((vec![Claim::Nbf("2001-01-01T00:00:00+00:00".into())], vec![], false));
            }
            for (e, validators, vf) in combos {
                let c = C15Case { p, key: key.clone(), s: s.clone(), e, layer, default_parser: dp, class: "expected-claim-absent+validator-on-the-same-key".into(), raw_payload: None, validators, validators_first: vf };
                let before = r.violations_total;
                c15_eval(&c, &mut r);
                if r.violations_total == before {
                    r.count("expected claim absent although its key has a validator: refused as missing");
                }
            }
        }
    }
    r.require("expected claim absent although its key has a validator: refused as missing", 60);
    // ---- check_claim(K = v) FIRST, then an accepting validator for the same K through the BULK registration
    // (GenericParser::extend_validation_claims, which brings no placeholder claim): the expectation stays in force - a token
    // whose K is absent, differs (value, case, type) or matches is judged by the expectation as if the validator were not there
    for &p in &ALL {
        let key = pools.key(p, 0);
        let variants: Vec<(Vec<ClaimOp>, &str)> = vec![
            (vec![ClaimOp::Set(Claim::Custom("n".into(), json!(1)))], "absent"),
            (vec![ClaimOp::Set(Claim::Custom("n".into(), json!(1))), ClaimOp::Set(Claim::Custom("role".into(), json!("user")))], "other value"),
            (vec![ClaimOp::Set(Claim::Custom("n".into(), json!(1))), ClaimOp::Set(Claim::Custom("role".into(), json!("Admin")))], "other case"),
            (vec![ClaimOp::Set(Claim::Custom("n".into(), json!(1))), ClaimOp::Set(Claim::Custom("role".into(), json!(["admin"])))], "other type"),
            (vec![ClaimOp::Set(Claim::Custom("n".into(), json!(1))), ClaimOp::Set(Claim::Custom("role".into(), json!("admin")))], "equal"),
            (vec![ClaimOp::Set(Claim::Aud("partners".into()))], "registered claim, other value"),
            (vec![ClaimOp::Set(Claim::Aud("customers".into()))], "registered claim, equal"),
        ];
        for (s, what) in variants {
            let on_aud = what.starts_with("registered");
            let e = if on_aud { vec![Claim::Aud("customers".into())] } else { vec![Claim::Custom("role".into(), json!("admin"))] };
            let vclaim = if on_aud { Claim::Aud("dummy".into()) } else { Claim::Custom("role".into(), json!("dummy")) };
            // (a validator that accepts everything: one that rejects would legitimately decide the error variant)
            for behave in [VBehave::Accept] {
                let c = C15Case { p, key: key.clone(), s: s.clone(), e: e.clone(), layer: Layer::Generic, default_parser: false, class: format!("check_claim-then-bulk-validator-on-the-same-key ({})", what), raw_payload: None, validators: vec![VSpec { claim: vclaim.clone(), behave, reg: VReg::ExtendOnly, second: false, odd: 0 }], validators_first: false };
                let before = r.violations_total;
                c15_eval(&c, &mut r);
                if r.violations_total == before {
                    r.count("expectation followed by a bulk-registered validator on the same key: expectation still decides");
                }
            }
        }
    }
    r.require("expectation followed by a bulk-registered validator on the same key: expectation still decides", 50);
    total.merge(r);
    for &p in &ALL {
        for t in ["generic", "batteries", "batteries-default"] {
            total.require(&format!("{}/{} accepted-all-match", p.name(), t), 20);
            total.require(&format!("{}/{} rejected-missing", p.name(), t), 10);
            total.require(&format!("{}/{} rejected-mismatch", p.name(), t), 10);
        }
    }
    total.require("history parses consistent with a fresh parser", 1000);
    total.require("expectations registered through extend_check_claims", 200);
    total
}

pub fn replay_c15(case: &Value) -> Report {
    let mut r = Report::new();
    match serde_json::from_value::<C15Case>(case.clone()) {
        Ok(c) => c15_eval(&c, &mut r),
        Err(e) => r.inconclusive.push(format!("cannot decode replay case: {}", e)),
    }
    r
}

pub const RULE_C15: &str = "for seeded random token claim sets S (registered string claims, integers, booleans, nested JSON, strings) the expected sets E = {equal, random subset, superset with one absent claim, one value changed (case / trailing space / NUL suffix / one byte longer / extended or shortened by exactly 256, 512, 65536 bytes / type / off-by-one / a float changed only beyond single precision / fraction / negation / extra element; time claims: another instant and the same instant or second spelled differently), one key changed by one character, expected value on a claim that is present as null, integer-vs-float spelling (don't-care)} are registered with check_claim (and, on GenericParser, also through one extend_check_claims call) on GenericParser, PasetoParser::new() and PasetoParser::default() and the authentic token is parsed; oracle = harness-side comparison of S and E: accept iff no discrepancy; a missing-only discrepancy must be reported as Missing(k) for a missing k; an error must name a failing claim. Plus 500 (thorough 5000) histories: one parser processes 8 tokens in 4 orders and every outcome must equal the fresh-parser outcome. Plus sessions in which the expectation for a key is REPLACED on a live parser between parses (check_claim again with another value), and 160 (thorough 2000) NESTED pairs of such sessions (a second parser with other expectations is created, used and dropped in the middle of the first one's life on the same thread). Plus PasetoParser::default().check_claim(exp|nbf) as its own class. Plus payloads as another implementation writes them (2.5e3 / 1.50 / 1E2 / \\u0061 spellings must match the JSON-equal expectation; objects that merely look like serde_json's private number / raw-value encodings are objects and do not match a number or string). Plus an expectation on a key that also has a tolerant validator (a harness one, or the default parser's own exp/nbf validators) against a token that lacks the claim: still refused as missing; and check_claim(K = v) followed by an accepting validator for K registered through GenericParser::extend_validation_claims against tokens whose K is absent / differs in value, case or type / matches: the expectation still decides. Plus authentic tokens whose payload is valid JSON but not an object (sealed at the core layer: [], \"aud\", 137, true, null, ...): every expectation must fail. Token claim keys include path/pointer look-alikes ('a/b' next to a nested a.b, 'https://example.com/role', '~0', 'a[0]'). distinct_nontrivial = distinct (protocol, parser kind, outcome, expectation class, error variant); plus several expectations registered AT ONCE (one extend_check_claims call with more entries than the parser holds) replacing earlier ones, and member names only another implementation can emit (empty, NUL, quote, BOM, 300 characters)";

// ==========================================================================================
// C16
// ==========================================================================================
#[derive(Clone, Debug, Serialize, Deserialize)]
pub struct C16Case {
    /// validators registered before the expectations (then an expectation on the same key applies in addition)
    #[serde(default)]
    pub validators_first: bool,
    pub p: P,
    pub key: KeyMat,
    pub s: Vec<ClaimOp>,
    pub validators: Vec<VSpec>,
    pub expected: Vec<Claim>,
    pub layer: Layer,
    pub default_parser: bool,
    /// how the presented token relates to the authentic one
    pub forgery: String,
    pub class: String,
    /// when set: the token is sealed at the CORE layer around this non-object JSON text (`s` is empty: every claim absent)
    #[serde(default)]
    pub raw_payload: Option<String>,
}

fn behaves(b: &VBehave, v: &Value) -> bool {
    match b {
        VBehave::Accept => true,
        VBehave::Reject => false,
        VBehave::AcceptIfEq(x) => x == v,
        VBehave::AcceptIfPresent => !v.is_null(),
    }
}

fn forge(c: &C16Case, tok: &str, rng: &mut Rng) -> (String, KeyMat, Option<String>, Option<String>) {
    let mut key = c.key.clone();
    let (mut footer, mut ia) = (Some("ftr".to_string()), if c.p.has_assertion() { Some("ia".to_string()) } else { None });
    let mut t = tok.to_string();
    match c.forgery.as_str() {
        "authentic" => {}
        "wrong-key" => {
            if c.p.is_local() {
                key.sym[rng.below(32)] ^= 1 << rng.below(8);
            } else {
                let other = Pools::new(99, 1, 1);
                key = other.key(c.p, 1);
                if key.pk == c.key.pk {
                    let n = key.pk.len();
                    key.pk[n - 1] ^= 1;
                }
            }
        }
        "wrong-footer" => footer = Some("ftr2".into()),
        "wrong-assertion" => ia = Some("other-ia".into()),
        "wrong-header" => {
            let other = ALL.iter().copied().find(|q| *q != c.p && q.is_local() == c.p.is_local()).unwrap();
            t = format!("{}{}", other.header(), tok.splitn(3, '.').nth(2).unwrap_or(""));
        }
        "bitflip" => {
            if let Some(pt) = crate::c03::parts(c.p, tok) {
                let mut v = pt.payload.clone();
                let i = rng.below(v.len());
                v[i] ^= 1 << rng.below(8);
                t = format!("{}{}.{}", pt.header, util::b64(&v), pt.footer_b64.unwrap_or(""));
            }
        }
        "truncated" => {
            let cut = rng.below(tok.len().saturating_sub(1));
            t = tok.chars().take(cut).collect();
        }
        _ => {}
    }
    (t, key, footer, ia)
}

fn c16_eval(c: &C16Case, r: &mut Report, seed: u64) {
    r.evaluations += 1;
    let replay = || json!({"cmd": "C16", "case": c, "seed": seed});
    let tag = format!("{}/{}{}", c.p.name(), c.layer.name(), if c.default_parser { "-default" } else { "" });
    let ia0 = if c.p.has_assertion() { Some("ia") } else { None };
    let sealed = match &c.raw_payload {
        Some(text) => core_seal(c.p, &c.key, &[0x5a; 32], text, Some("ftr"), ia0).0,
        None => generic_seal(c.p, &c.key, &c.s, Some("ftr"), ia0).0,
    };
    let tok = match sealed {
        Out::Ok(t) => t,
        o => {
            r.inconclusive.push(format!("C16: could not build the token: {}", o.brief()));
            return;
        }
    };
    let mut rng = Rng::new(seed, "c16-forge", r.evaluations);
    let (t, key, footer, ia) = forge(c, &tok, &mut rng);
    if c.forgery == "wrong-assertion" && !c.p.has_assertion() {
        return;
    }
    let cfg = ParserCfg { footer, assertion: ia, expected: c.expected.clone(), validators: c.validators.clone(), default_parser: c.default_parser, validators_first: c.validators_first, ..Default::default() };
    let _ = vlog_take();
    let out = match c.layer {
        Layer::Generic => generic_open(c.p, &key, &t, &cfg).0,
        _ => batteries_open(c.p, &key, &t, &cfg).0,
    };
    let log = vlog_take();
    c16_verdict(c, &tag, &model_object(&c.s), &out, &log, r, &replay(), "");
    if r.samples.len() < 8 && r.evaluations % 173 == 9 {
        r.sample(json!({"parser": tag, "token": c.forgery, "validators": c.validators.iter().map(|v| json!({"key": v.claim.key(), "behaviour": format!("{:?}", v.behave), "registered_via": format!("{:?}", v.reg)})).collect::<Vec<_>>(), "validator_call_log": log.iter().map(|(k, v)| json!({k.as_str(): v})).collect::<Vec<_>>(), "outcome": out.brief()}));
    }
}

#[allow(clippy::too_many_arguments)]
fn c16_verdict(c: &C16Case, tag: &str, s: &Map<String, Value>, out: &Out<Value>, log: &[(String, Value)], r: &mut Report, replay: &Value, ctx: &str) {
    let how = |v: &VSpec| if v.reg == VReg::ExtendOnly { "extend_validation_claims" } else { "validate_claim" };
    if let Out::Panic(loc) = out {
        r.violation(format!("C16 panic {}", tag), format!("{}{}: panic: {}", tag, ctx, loc), replay.clone());
        return;
    }
    if c.forgery != "authentic" {
        if !log.is_empty() {
            r.violation(
                format!("C16 validator-ran-on-unauthenticated-token {} forgery={}", tag, c.forgery),
                format!("{}{}: validators were invoked {:?} on a token that is not authentic ({}); outcome {}", tag, ctx, log, c.forgery, out.brief()),
                replay.clone(),
            );
        } else if out.is_ok() {
            r.violation(format!("C16 forged-token-accepted {} forgery={}", tag, c.forgery), format!("{}{}: a {} token was accepted", tag, ctx, c.forgery), replay.clone());
        } else {
            r.count(&format!("{} forged-token: no validator ran", tag));
            r.distinct(format!("{}|forged|{}|{}", tag, c.forgery, out.err().unwrap_or("")));
        }
        return;
    }
    // authentic token --------------------------------------------------------------------------
    let null = Value::Null;
    let mut bad = false;
    // every log entry must show the real value, each key at most once
    let mut seen = std::collections::HashSet::new();
    for (k, v) in log {
        let real = s.get(k).unwrap_or(&null);
        if v != real {
            bad = true;
            r.violation(
                format!("C16 validator-saw-wrong-value {}", tag),
                format!("{}{}: validator for {:?} was given {} but the payload holds {}", tag, ctx, k, util::clip(&v.to_string(), 80), util::clip(&real.to_string(), 80)),
                replay.clone(),
            );
        }
        if !seen.insert(k.clone()) {
            bad = true;
            r.violation(format!("C16 validator-ran-twice {}", tag), format!("{}{}: validator for {:?} ran more than once in one parse: {:?}", tag, ctx, k, log), replay.clone());
        }
        if !c.validators.iter().any(|x| x.claim.key() == k) {
            bad = true;
            r.violation(format!("C16 unregistered-validator-ran {}", tag), format!("{}{}: log entry for {:?} but no validator is registered for it", tag, ctx, k), replay.clone());
        }
    }
    // (several specs may name the same key: the parser keeps one validator per key; same harness fn, behaviour = first in table)
    let mut by_key: Vec<&VSpec> = Vec::new();
    for v in &c.validators {
        if !by_key.iter().any(|x| x.claim.key() == v.claim.key()) {
            by_key.push(v);
        }
    }
    let rejecting: Vec<&VSpec> = by_key.iter().copied().filter(|v| !behaves(&v.behave, s.get(v.claim.key()).unwrap_or(&null))).collect();
    // expected-claim discrepancies (keys without validator only)
    // (an expectation registered with check_claim is compared unless validate_claim for the same key came after it;
    // the harness registers expectations first, then validators)
    let e_plain: Vec<Claim> = c.expected.iter().filter(|e| c.validators_first || !c.validators.iter().any(|v| v.reg == VReg::ValidateClaim && v.claim.key() == e.key())).cloned().collect();
    let disc = discrepancies(s, &e_plain);
    match out {
        Out::Ok(_) => {
            for v in &rejecting {
                bad = true;
                r.violation(
                    format!("C16 rejecting-validator-not-honoured {} reg={}", tag, how(v)),
                    format!("{}{}: parse SUCCEEDED although the validator registered (via {}) for {:?} rejects its value {}; call log {:?}", tag, ctx, how(v), v.claim.key(), s.get(v.claim.key()).unwrap_or(&null), log),
                    replay.clone(),
                );
            }
            for v in &by_key {
                if !log.iter().any(|(k, _)| k == v.claim.key()) {
                    bad = true;
                    r.violation(
                        format!("C16 validator-never-ran {} reg={}", tag, how(v)),
                        format!("{}{}: parse SUCCEEDED but the validator registered (via {}) for {:?} was never invoked; call log {:?}", tag, ctx, how(v), v.claim.key(), log),
                        replay.clone(),
                    );
                }
            }
            if !disc.is_empty() {
                // C15's business; not reported here
                r.discard("expected-claim discrepancy accepted (C15 decides)");
            }
        }
        Out::Err(e) => {
            if rejecting.is_empty() && disc.is_empty() {
                bad = true;
                r.violation(
                    format!("C16 rejected-although-all-validators-accept {} err={}", tag, e.split('(').next().unwrap_or(e)),
                    format!("{}{}: parse FAILED with {} although every registered validator accepts its value and all expected claims match; call log {:?}", tag, ctx, e, log),
                    replay.clone(),
                );
            } else if let Some(k) = e.strip_prefix("Claim/CustomValidation(vh:").and_then(|x| x.strip_suffix(')')) {
                if !rejecting.iter().any(|v| v.claim.key() == k) {
                    bad = true;
                    r.violation(format!("C16 error-from-non-rejecting-validator {}", tag), format!("{}{}: failed with {} but the rejecting validators are {:?}", tag, ctx, e, rejecting.iter().map(|v| v.claim.key()).collect::<Vec<_>>()), replay.clone());
                }
            } else if !e.starts_with("Claim/") {
                bad = true;
                r.violation(format!("C16 non-claim-error-on-authentic-token {} err={}", tag, e), format!("{}{}: an authentic token failed with {}", tag, ctx, e), replay.clone());
            }
            // any other claim error is fine here: some validator rejects (or an expectation fails), and the property only asks for "a claim error"
        }
        Out::Panic(_) => {}
    }
    if !bad {
        let regs: Vec<&str> = by_key.iter().map(|v| how(v)).collect();
        r.count(&format!("{} authentic {}", tag, if out.is_ok() { "accepted: every validator ran once and accepted" } else { "rejected: a validator/expectation failed" }));
        r.distinct(format!("{}|auth|{}|v{}|rej{}|{}|{:?}", tag, out.class(), by_key.len(), rejecting.len(), c.class, regs));
        for _ in log {
            r.count("validator invocations observed with the real payload value");
        }
    }
}

fn random_validators(rng: &mut Rng, s: &Map<String, Value>, allow_extend: bool, avoid_time: bool) -> Vec<VSpec> {
    let mut v = Vec::new();
    let n = rng.below(4);
    let keys: Vec<(String, Value)> = s.iter().map(|(k, x)| (k.clone(), x.clone())).collect();
    for _ in 0..n {
        let (k, val) = if !keys.is_empty() && rng.chance(3, 4) { keys[rng.below(keys.len())].clone() } else { (["absent1", "aud", "jti", "absent2"][rng.below(4)].to_string(), Value::Null) };
        if avoid_time && (k == "exp" || k == "nbf") {
            continue;
        }
        if v.iter().any(|x: &VSpec| x.claim.key() == k) {
            continue;
        }
        let real = s.get(&k).cloned().unwrap_or(Value::Null);
        let behave = match rng.below(6) {
            0 => VBehave::Reject,
            1 => VBehave::AcceptIfEq(real.clone()),
            2 => VBehave::AcceptIfEq(json!("something else")),
            3 => VBehave::AcceptIfPresent,
            _ => VBehave::Accept,
        };
        // the claim object handed to validate_claim only names the key; its value is irrelevant
        let dummy = if val.is_string() || val.is_null() { json!("dummy") } else { val.clone() };
        let claim = to_claim(&k, &if RESERVED.contains(&k.as_str()) { json!(if ["exp", "nbf", "iat"].contains(&k.as_str()) { "2019-01-01T00:00:00+00:00" } else { "dummy" }) } else { dummy });
        let reg = if allow_extend && rng.chance(1, 3) { VReg::ExtendOnly } else { VReg::ValidateClaim };
        // every fifth validate_claim registration uses a user-defined claim type that only names the key
        let odd = if reg == VReg::ValidateClaim && rng.chance(1, 5) { 1 + rng.below(4) as u8 } else { 0 };
        v.push(VSpec { claim, behave, reg, second: false, odd });
    }
    v
}

pub fn run_c16(tier: &str, seed: u64) -> Report {
    let thorough = tier == "thorough";
    let pools = Pools::new(seed, 4, 2);
    let mut total = Report::new();
    if pools.rsa.is_empty() {
        total.inconclusive.push("no RSA key fixtures found".into());
        return total;
    }
    let n_for = |p: P| match (p, thorough) {
        (P::V4L | P::V4P, false) => 10_000,
        (P::V1P, false) => 200,
        (P::V3P, false) => 300,
        (_, false) => 1000,
        (P::V4L | P::V4P, true) => 500_000,
        (P::V1P, true) => 6000,
        (P::V3P, true) => 10_000,
        (_, true) => 60_000,
    };
    let mut items: Vec<(P, usize)> = Vec::new();
    for &p in &ALL {
        for j in 0..n_for(p) {
            items.push((p, j));
        }
    }
    let forgeries = ["authentic", "authentic", "authentic", "wrong-key", "wrong-footer", "wrong-assertion", "wrong-header", "bitflip", "truncated"];
    let r = parallel(items.len(), util::threads(), |i, r| {
        let (p, j) = items[i];
        let mut rng = Rng::new(seed, "c16", (p as u64) << 32 | j as u64);
        let key = pools.key(p, j % pools.count(p));
        let mut s = c15_token_claims(&mut rng, true);
        if rng.chance(1, 2) {
            s.push(ClaimOp::Set(Claim::Exp("2999-01-01T00:00:00+00:00".into())));
        }
        let sm = model_object(&s);
        let (layer, dp) = [(Layer::Generic, false), (Layer::Generic, false), (Layer::Batteries, false), (Layer::Batteries, true)][j % 4];
        // on the default parser a harness validator for exp / nbf REPLACES the built-in one (half of the cases allow it)
        let validators = random_validators(&mut rng, &sm, layer == Layer::Generic, dp && j % 8 < 4);
        let expected: Vec<Claim> = if rng.chance(1, 3) { sm.iter().filter(|(k, _)| !(dp && (*k == "exp" || *k == "nbf"))).take(1).map(|(k, v)| to_claim(k, v)).collect() } else { vec![] };
        let forgery = forgeries[(j / 4) % forgeries.len()].to_string();
        // expectations on keys that also have a validator, registered after it, with the token's own value (so only the validator can object)
        let validators_first = j % 5 == 2;
        let mut expected = expected;
        if validators_first {
            for v in &validators {
                if let Some(val) = sm.get(v.claim.key()) {
                    if !val.is_null() && !(RESERVED.contains(&v.claim.key()) && !val.is_string()) && !expected.iter().any(|e| e.key() == v.claim.key()) {
                        expected.push(to_claim(v.claim.key(), val));
                    }
                }
            }
        }
        let c = C16Case { validators_first, p, key, s, validators, expected, layer, default_parser: dp, forgery, class: "random".into(), raw_payload: None };
        c16_eval(&c, r, seed);
    });
    total.merge(r);

    // ---- authentic tokens whose payload is JSON but NOT an object: every validator must still run (with null) and be honoured
    let mut rn = Report::new();
    for &p in &ALL {
        let key = pools.key(p, 0);
        for (layer, dp) in [(Layer::Generic, false), (Layer::Batteries, false), (Layer::Batteries, true)] {
            for (ti, text) in NON_OBJECT_PAYLOADS.iter().enumerate() {
                if p == P::V1P && ti % 3 != 0 {
                    continue;
                }
                for (vi, behave) in [VBehave::Reject, VBehave::Accept, VBehave::AcceptIfPresent].into_iter().enumerate() {
                    let reg = if layer == Layer::Generic && (ti + vi) % 2 == 1 { VReg::ExtendOnly } else { VReg::ValidateClaim };
                    let claim = if vi == 1 { Claim::Custom("k".into(), json!(0)) } else { Claim::Aud("x".into()) };
                    let c = C16Case { validators_first: false, p, key: key.clone(), s: vec![], validators: vec![VSpec { claim, behave, reg, second: false, odd: 0 }], expected: vec![], layer, default_parser: dp, forgery: "authentic".into(), class: "non-object-payload".into(), raw_payload: Some(text.to_string()) };
                    let before = rn.violations_total;
                    c16_eval(&c, &mut rn, seed);
                    if rn.violations_total == before {
                        rn.count("non-object payloads: validators run with null and are honoured");
                    }
                }
            }
        }
    }
    rn.require("non-object payloads: validators run with null and are honoured", 300);
    total.merge(rn);

    // ---- payloads as ANOTHER implementation writes them (sealed at the core layer): escaped member names and strings,
    // exponent spellings, 64-bit extremes, and objects that merely LOOK like serde_json's private number / raw-value
    // encodings.  The validator must be handed exactly the authenticated value (the model is built with json!, not parsed).
    let mut rfo = Report::new();
    let foreign16: Vec<(&str, Vec<(String, Value)>)> = vec![
        ("{\"seats\":{\"$serde_json::private::Number\":\"4\"},\"n\":1}", vec![("seats".into(), json!({"$serde_json::private::Number": "4"})), ("n".into(), json!(1))]),
        ("{\"seats\":{\"$serde_json::private::Number\":\"-1.5e3\"}}", vec![("seats".into(), json!({"$serde_json::private::Number": "-1.5e3"}))]),
        ("{\"seats\":{\"$serde_json::private::Number\":\"four\"},\"n\":1}", vec![("seats".into(), json!({"$serde_json::private::Number": "four"})), ("n".into(), json!(1))]),
        ("{\"seats\":{\"$serde_json::private::RawValue\":\"4\"},\"n\":1}", vec![("seats".into(), json!({"$serde_json::private::RawValue": "4"})), ("n".into(), json!(1))]),
        ("{\"aud\":{\"$serde_json::private::RawValue\":\"\\\"customers\\\"\"}}", vec![("aud".into(), json!({"$serde_json::private::RawValue": "\"customers\""}))]),
        ("{\"\\u0061ud\":\"customers\",\"\\u006e\":1}", vec![("aud".into(), json!("customers")), ("n".into(), json!(1))]),
        ("{\"aud\":\"cust\\u006fmers\\u002B\\n\",\"sub\":\"CORP\\\\alice\"}", vec![("aud".into(), json!("customers+\n")), ("sub".into(), json!("CORP\\alice"))]),
        ("{\"f\":2.5e3,\"g\":1E2,\"h\":0.10}", vec![("f".into(), json!(2500.0)), ("g".into(), json!(100.0)), ("h".into(), json!(0.1))]),
        ("{\"big\":18446744073709551615,\"neg\":-9223372036854775808,\"z\":-0.0}", vec![("big".into(), json!(u64::MAX)), ("neg".into(), json!(i64::MIN)), ("z".into(), json!(-0.0))]),
        ("{ \"aud\" : \"customers\" ,\n\t\"n\" : [ 1 , { \"aud\" : \"nested\" } ] }", vec![("aud".into(), json!("customers")), ("n".into(), json!([1, {"aud": "nested"}]))]),
        ("{\"emoji\":\"\\ud83e\\udd80\",\"aud\":\"\\u00e9\"}", vec![("emoji".into(), json!("\u{1F980}")), ("aud".into(), json!("\u{e9}"))]),
    ];
    for &p in &[P::V4L, P::V2L, P::V4P, P::V3L] {
        let key = pools.key(p, 0);
        for (layer, dp) in [(Layer::Generic, false), (Layer::Batteries, false), (Layer::Batteries, true)] {
            for (ti, (text, model)) in foreign16.iter().enumerate() {
                for (vi, behave) in [VBehave::Accept, VBehave::AcceptIfPresent, VBehave::Reject].into_iter().enumerate() {
                    let validators: Vec<VSpec> = model
                        .iter()
                        .enumerate()
                        .map(|(mi, (k, v))| VSpec { claim: if v.is_string() { to_claim(k, v) } else { to_claim(k, &json!("x")) }, behave: behave.clone(), reg: if layer == Layer::Generic && (ti + vi + mi) % 2 == 1 { VReg::ExtendOnly } else { VReg::ValidateClaim }, second: false, odd: 0 })
                        .collect();
                    let c = C16Case { validators_first: false, p, key: key.clone(), s: vec![ClaimOp::Extend(model.clone())], validators, expected: vec![], layer, default_parser: dp, forgery: "authentic".into(), class: "foreign-payload-spelling".into(), raw_payload: Some(text.to_string()) };
                    let before = rfo.violations_total;
                    c16_eval(&c, &mut rfo, seed);
                    if rfo.violations_total == before {
                        rfo.count("foreign payload spellings: validators are handed the authenticated value");
                    }
                }
            }
        }
    }
    rfo.require("foreign payload spellings: validators are handed the authenticated value", 300);
    total.merge(rfo);

    // ---- LARGE tokens altered in their tail (beyond any size threshold that switches the MAC to a windowed path): the
    // validator must not be handed the altered value
    let mut rl = Report::new();
    for &p in &[P::V4L, P::V3L, P::V1L, P::V2L, P::V4P, P::V2P] {
        let key = pools.key(p, 0);
        for n in [5000usize, 9000, 17_000] {
            let text = format!("{{\"pad\":\"{}\",\"role\":\"user\"}}", "p".repeat(n));
            let ia0 = if p.has_assertion() { Some("ia") } else { None };
            let tok = match core_seal(p, &key, &[0x33; 32], &text, Some("ftr"), ia0).0 {
                Out::Ok(t) => t,
                _ => continue,
            };
            let pt = match crate::c03::parts(p, &tok) {
                Some(x) => x,
                None => continue,
            };
            let body_end = pt.payload.len() - p.trailer_len();
            for back in [3usize, 9, 40, 100, 130, 260] {
                let mut pl = pt.payload.clone();
                pl[body_end - back] ^= 0x01;
                let forged = format!("{}{}.{}", p.header(), util::b64(&pl), pt.footer_b64.unwrap_or(""));
                for layer in [Layer::Generic, Layer::Batteries] {
                    let cfg = ParserCfg { footer: Some("ftr".into()), assertion: ia0.map(|x| x.to_string()), validators: vec![VSpec { claim: Claim::Custom("role".into(), json!("dummy")), behave: VBehave::Accept, reg: VReg::ValidateClaim, second: false, odd: 0 }, VSpec { claim: Claim::Custom("pad".into(), json!("dummy")), behave: VBehave::Accept, reg: VReg::ValidateClaim, second: false, odd: 0 }], ..Default::default() };
                    let _ = vlog_take();
                    let out = if layer == Layer::Generic { generic_open(p, &key, &forged, &cfg).0 } else { batteries_open(p, &key, &forged, &cfg).0 };
                    let log = vlog_take();
                    rl.evaluations += 1;
                    if !log.is_empty() || out.is_ok() || out.is_panic() {
                        rl.violation(
                            format!("C16 validator-invoked-on-altered-large-token {}/{}", p.name(), layer.name()),
                            format!("{}/{}: a {}-byte-message token with one bit flipped {} bytes before the end of its body: outcome {}, validators were handed {:?}", p.name(), layer.name(), n, back, out.class(), log.iter().map(|(k, v)| (k.clone(), util::clip(&v.to_string(), 30))).collect::<Vec<_>>()),
                            json!({"cmd": "C16", "note": "large-token case: re-run the check", "protocol": p.name(), "message_bytes": n, "flipped_bytes_before_body_end": back}),
                        );
                    } else {
                        rl.count("altered large tokens: no validator invoked");
                    }
                }
            }
        }
    }
    rl.require("altered large tokens: no validator invoked", 150);
    total.merge(rl);

    // ---- live parsers: validators are ADDED between parses of one parser object (validate_claim / extend_validation_claims);
    // after each addition every validator registered so far must run on the next parse and be honoured
    let nl = if thorough { 4000 } else { 400 };
    let r = parallel(nl, util::threads(), |i, r| {
        let mut rng = Rng::new(seed, "c16-live", i as u64);
        let p = ALL[i % ALL.len()];
        if p == P::V1P && i % 5 != 0 {
            return;
        }
        let key = pools.key(p, i % pools.count(p));
        let (layer, dp) = [(Layer::Generic, false), (Layer::Generic, false), (Layer::Batteries, false), (Layer::Batteries, true)][(i / ALL.len()) % 4];
        let mut s = c15_token_claims(&mut rng, false);
        if dp {
            s.push(ClaimOp::Set(Claim::Exp("2999-01-01T00:00:00+00:00".into())));
        }
        let sm = model_object(&s);
        let ia0 = if p.has_assertion() { Some("ia") } else { None };
        let tok = match generic_seal(p, &key, &s, Some("ftr"), ia0).0 {
            Out::Ok(t) => t,
            o => {
                r.inconclusive.push(format!("C16 live session: could not build the token: {}", o.brief()));
                return;
            }
        };
        // 1..4 additions; keys: present custom/registered keys and absent ones, each key once; at most the last one rejects
        let mut keys: Vec<String> = sm.keys().filter(|k| !(dp && (*k == "exp" || *k == "nbf"))).cloned().collect();
        keys.push(format!("absent{}", i % 7));
        keys.push("absent-b".into());
        rng.shuffle(&mut keys);
        let nadd = 1 + rng.below(keys.len().min(4));
        let initial = if rng.chance(1, 2) { 1 } else { 0 };
        let mut specs: Vec<VSpec> = Vec::new();
        for (j, k) in keys.iter().take(nadd + initial).enumerate() {
            let last = j + 1 == nadd + initial;
            let behave = if last && rng.chance(2, 3) { VBehave::Reject } else if rng.chance(1, 3) { VBehave::AcceptIfEq(sm.get(k).cloned().unwrap_or(Value::Null)) } else { VBehave::Accept };
            let reg = if layer == Layer::Generic && rng.chance(1, 2) { VReg::ExtendOnly } else { VReg::ValidateClaim };
            let val = sm.get(k).cloned().unwrap_or(json!("x"));
            let claim = if RESERVED.contains(&k.as_str()) { if val.is_string() { to_claim(k, &val) } else { continue } } else { Claim::Custom(k.clone(), val) };
            specs.push(VSpec { claim, behave, reg, second: false, odd: 0 });
        }
        if specs.len() <= initial {
            return;
        }
        let cfg = ParserCfg { footer: Some("ftr".into()), assertion: ia0.map(|x| x.to_string()), validators: specs[..initial].to_vec(), default_parser: dp, ..Default::default() };
        let mut steps = vec![PStep::Parse { token: tok.clone(), key: 0 }];
        for v in &specs[initial..] {
            steps.push(PStep::Validate(v.clone()));
            steps.push(PStep::Parse { token: tok.clone(), key: 0 });
        }
        let outs = session(p, layer != Layer::Generic, &[key.clone()], &cfg, &steps);
        let logs = session_logs_take();
        let nparse = specs.len() - initial + 1;
        if outs.len() != nparse || logs.len() != nparse {
            r.inconclusive.push(format!("C16 live session on {}: {} outcomes / {} logs for {} parses ({})", p.name(), outs.len(), logs.len(), nparse, outs.first().map(|o| o.brief()).unwrap_or_default()));
            return;
        }
        let tag = format!("{}/{}{}", p.name(), layer.name(), if dp { "-default" } else { "" });
        for j in 0..nparse {
            r.evaluations += 1;
            let c = C16Case { validators_first: false, p, key: key.clone(), s: s.clone(), validators: specs[..initial + j].to_vec(), expected: vec![], layer, default_parser: dp, forgery: "authentic".into(), class: "live-parser".into(), raw_payload: None };
            let replay = json!({"cmd": "C16", "note": "live-parser session (validators added between parses): re-run the check", "protocol": p.name(), "parser": tag, "token_claims": sm, "validators_in_order": specs.iter().map(|v| json!({"key": v.claim.key(), "behaviour": format!("{:?}", v.behave), "via": format!("{:?}", v.reg)})).collect::<Vec<_>>(), "registered_before_first_parse": initial, "parse_number": j + 1});
            let before = r.violations_total;
            c16_verdict(&c, &tag, &sm, &outs[j], &logs[j], r, &replay, &format!(" [live parser: parse #{} after {} validator(s) were added between parses]", j + 1, j));
            if r.violations_total == before {
                r.count("live-parser parses conform");
            }
        }
        // ... finally a SECOND, distinguishable validator is registered for a key that already has one (on the default
        // parser: for exp, whose built-in validator it replaces): the last registration must run and its verdict be honoured
        if i % 2 == 0 {
            let rekey = if dp { Claim::Exp("2019-01-01T00:00:00+00:00".into()) } else { specs[0].claim.clone() };
            for (behave, want_ok) in [(VBehave::Accept, None::<bool>), (VBehave::Reject, Some(false))] {
                let v2 = VSpec { claim: rekey.clone(), behave, reg: if layer == Layer::Generic && i % 4 == 0 { VReg::ExtendOnly } else { VReg::ValidateClaim }, second: true, odd: 0 };
                let mut steps2 = steps.clone();
                steps2.push(PStep::Validate(v2.clone()));
                steps2.push(PStep::Parse { token: tok.clone(), key: 0 });
                let outs2 = session(p, layer != Layer::Generic, &[key.clone()], &cfg, &steps2);
                let logs2 = session_logs_take();
                r.evaluations += 1;
                let (last, log) = match (outs2.last(), logs2.last()) {
                    (Some(o), Some(l)) if outs2.len() == nparse + 1 => (o, l),
                    _ => {
                        r.inconclusive.push(format!("C16 re-registration session on {}: {} outcomes for {} parses", p.name(), outs2.len(), nparse + 1));
                        continue;
                    }
                };
                let ran = log.iter().filter(|(k, _)| k == &format!("#2:{}", rekey.key())).count();
                let replay = json!({"cmd": "C16", "note": "live-parser session with a second validator registered for a key that already has one: re-run the check", "protocol": p.name(), "parser": tag, "key": rekey.key(), "token_claims": sm});
                if last.is_panic() {
                    r.violation(format!("C16 panic {}", tag), format!("{}: panic after re-registering a validator: {}", tag, last.brief()), replay);
                } else if want_ok == Some(false) && last.is_ok() {
                    r.violation(
                        format!("C16 re-registered-rejecting-validator-not-honoured {}", tag),
                        format!("{}: a rejecting validator was registered for {:?}, a key that already had a validator; the next parse SUCCEEDED (second validator invoked {} time(s); call log {:?})", tag, rekey.key(), ran, log),
                        replay,
                    );
                } else if last.is_ok() && ran != 1 {
                    r.violation(
                        format!("C16 re-registered-validator-never-ran {}", tag),
                        format!("{}: an accepting validator was registered for {:?}, a key that already had a validator; the next parse succeeded but the new validator ran {} time(s); call log {:?}", tag, rekey.key(), ran, log),
                        replay,
                    );
                } else {
                    r.count("re-registered validators: the last registration runs and is honoured");
                }
            }
        }
    });
    total.merge(r);
    total.require("live-parser parses conform", (nl / 2) as u64);
    total.require("re-registered validators: the last registration runs and is honoured", (nl / 8) as u64);

    // ---- live parsers whose CALL ARGUMENTS change between parses: the same token text is presented to one parser object
    // under its own key, under another key, under its own key again, after a footer change and after the change is undone;
    // anything the parser remembers from an earlier, authenticated parse must not let validators run on a later one that
    // does not authenticate
    let nk = if thorough { 2400 } else { 320 };
    let r = parallel(nk, util::threads(), |i, r| {
        let mut rng = Rng::new(seed, "c16-keys", i as u64);
        let p = ALL[i % ALL.len()];
        if p == P::V1P && i % 4 != 0 {
            return;
        }
        if pools.count(p) < 2 {
            r.inconclusive.push(format!("C16 key-change sessions: only one key for {}", p.name()));
            return;
        }
        let k0 = pools.key(p, i % pools.count(p));
        let k1 = pools.key(p, (i + 1) % pools.count(p));
        let (layer, dp) = [(Layer::Generic, false), (Layer::Batteries, false), (Layer::Batteries, true)][(i / ALL.len()) % 3];
        let mut s = c15_token_claims(&mut rng, false);
        s.retain(|op| !matches!(op, ClaimOp::Set(c) if c.key() == "exp" || c.key() == "nbf"));
        s.push(ClaimOp::Set(Claim::Custom("role".into(), json!("admin"))));
        let sm = model_object(&s);
        let ia0 = if p.has_assertion() { Some("ia") } else { None };
        let tok = match generic_seal(p, &k0, &s, Some("ftr"), ia0).0 {
            Out::Ok(t) => t,
            o => {
                r.inconclusive.push(format!("C16 key-change session: could not build the token: {}", o.brief()));
                return;
            }
        };
        let validators = vec![VSpec { claim: Claim::Custom("role".into(), json!("dummy")), behave: VBehave::AcceptIfEq(json!("admin")), reg: if layer == Layer::Generic && i % 2 == 0 { VReg::ExtendOnly } else { VReg::ValidateClaim }, second: false, odd: 0 }];
        let cfg = ParserCfg { footer: Some("ftr".into()), assertion: ia0.map(|x| x.to_string()), validators: validators.clone(), default_parser: dp, ..Default::default() };
        // (step, authentic?, what)
        let mut plan: Vec<(PStep, Option<bool>, &str)> = vec![
            (PStep::Parse { token: tok.clone(), key: 0 }, Some(true), "own key"),
            (PStep::Parse { token: tok.clone(), key: 1 }, Some(false), "the SAME token under another key"),
            (PStep::Parse { token: tok.clone(), key: 0 }, Some(true), "own key again"),
            (PStep::SetFooter("other".into()), None, ""),
            (PStep::Parse { token: tok.clone(), key: 0 }, Some(false), "the SAME token after the expected footer was changed"),
            (PStep::SetFooter("ftr".into()), None, ""),
            (PStep::Parse { token: tok.clone(), key: 0 }, Some(true), "own key, footer expectation restored"),
            (PStep::Parse { token: tok.clone(), key: 1 }, Some(false), "another key again"),
        ];
        if p.has_assertion() {
            plan.push((PStep::SetAssertion("other".into()), None, ""));
            plan.push((PStep::Parse { token: tok.clone(), key: 0 }, Some(false), "the SAME token after the implicit assertion was changed"));
            plan.push((PStep::SetAssertion("ia".into()), None, ""));
            plan.push((PStep::Parse { token: tok.clone(), key: 0 }, Some(true), "own key, assertion restored"));
            // ... and UN-set (the empty assertion), then set again
            plan.push((PStep::SetAssertion("".into()), None, ""));
            plan.push((PStep::Parse { token: tok.clone(), key: 0 }, Some(false), "the SAME token after the implicit assertion was set to the empty string"));
            plan.push((PStep::SetAssertion("ia".into()), None, ""));
            plan.push((PStep::Parse { token: tok.clone(), key: 0 }, Some(true), "own key, assertion set again"));
        }
        plan.push((PStep::SetFooter("".into()), None, ""));
        plan.push((PStep::Parse { token: tok.clone(), key: 0 }, Some(false), "the SAME token after the expected footer was set to the empty string"));
        plan.push((PStep::SetFooter("ftr".into()), None, ""));
        plan.push((PStep::Parse { token: tok.clone(), key: 0 }, Some(true), "own key, footer set again"));
        if i % 3 == 1 {
            // start with the refused presentation instead
            plan.swap(0, 1);
        }
        let steps: Vec<PStep> = plan.iter().map(|x| x.0.clone()).collect();
        let outs = session(p, layer != Layer::Generic, &[k0.clone(), k1.clone()], &cfg, &steps);
        let logs = session_logs_take();
        let parses: Vec<(bool, &str)> = plan.iter().filter_map(|x| x.1.map(|a| (a, x.2))).collect();
        if outs.len() != parses.len() || logs.len() != parses.len() {
            r.inconclusive.push(format!("C16 key-change session on {}: {} outcomes / {} logs for {} parses", p.name(), outs.len(), logs.len(), parses.len()));
            return;
        }
        let tag = format!("{}/{}{}", p.name(), layer.name(), if dp { "-default" } else { "" });
        for (j, (authentic, what)) in parses.iter().enumerate() {
            r.evaluations += 1;
            let c = C16Case { validators_first: false, p, key: k0.clone(), s: s.clone(), validators: validators.clone(), expected: vec![], layer, default_parser: dp, forgery: if *authentic { "authentic".into() } else { format!("not-authentic-for-this-call ({})", what) }, class: "live-parser-arguments-change".into(), raw_payload: None };
            let replay = json!({"cmd": "C16", "note": "live-parser session (same token text, key / footer / assertion change between parses): re-run the check", "protocol": p.name(), "parser": tag, "token_claims": sm, "presentations": parses.iter().map(|x| x.1).collect::<Vec<_>>(), "parse_number": j + 1});
            let before = r.violations_total;
            c16_verdict(&c, &tag, &sm, &outs[j], &logs[j], r, &replay, &format!(" [one parser object, parse #{}: {}]", j + 1, what));
            if r.violations_total == before {
                r.count(if *authentic { "argument-change sessions: authentic presentation validated" } else { "argument-change sessions: refused presentation, no validator ran" });
            }
        }
    });
    total.merge(r);
    total.require("argument-change sessions: authentic presentation validated", (nk / 2) as u64);
    total.require("argument-change sessions: refused presentation, no validator ran", (nk / 2) as u64);

    // ---- sequences: one parser, authentic and forged tokens interleaved; verdict per parse as for a fresh parser
    let nh = if thorough { 3000 } else { 300 };
    let r = parallel(nh, util::threads(), |i, r| {
        let mut rng = Rng::new(seed, "c16-seq", i as u64);
        let p = [P::V4L, P::V4P, P::V2L, P::V3L, P::V2P][i % 5];
        let key = pools.key(p, i % pools.count(p));
        let validators = vec![
            VSpec { claim: Claim::Custom("role".into(), json!("dummy")), behave: VBehave::AcceptIfEq(json!("admin")), reg: VReg::ValidateClaim, second: false, odd: 0 },
            VSpec { claim: Claim::Aud("dummy".into()), behave: VBehave::AcceptIfPresent, reg: VReg::ValidateClaim, second: false, odd: 0 },
        ];
        let specs: Vec<Vec<ClaimOp>> = vec![
            vec![ClaimOp::Set(Claim::Custom("role".into(), json!("admin"))), ClaimOp::Set(Claim::Aud("a".into()))],
            vec![ClaimOp::Set(Claim::Custom("role".into(), json!("guest"))), ClaimOp::Set(Claim::Aud("a".into()))],
            vec![ClaimOp::Set(Claim::Custom("role".into(), json!("admin")))],
            vec![ClaimOp::Set(Claim::Custom("role".into(), json!("admin"))), ClaimOp::Set(Claim::Aud("b".into())), ClaimOp::Set(Claim::Custom("x".into(), json!(i as i64)))],
        ];
        let ia0 = if p.has_assertion() { Some("ia") } else { None };
        let mut toks: Vec<(String, usize, bool)> = Vec::new(); // token, spec index, authentic
        for (k, s) in specs.iter().enumerate() {
            if let Out::Ok(t) = generic_seal(p, &key, s, Some("ftr"), ia0).0 {
                toks.push((t.clone(), k, true));
                // a forged sibling: last payload character changed
                let mut f: Vec<char> = t.chars().collect();
                let pos = t.rfind('.').unwrap_or(t.len()) - 2;
                f[pos] = if f[pos] == 'A' { 'B' } else { 'A' };
                toks.push((f.into_iter().collect(), k, false));
            }
        }
        for k in (1..toks.len()).rev() {
            let j = rng.below(k + 1);
            toks.swap(k, j);
        }
        let (layer, dp) = [(Layer::Generic, false), (Layer::Batteries, false), (Layer::Batteries, true)][i % 3];
        let cfg = ParserCfg { footer: Some("ftr".into()), assertion: ia0.map(|s| s.to_string()), expected: vec![], validators: validators.clone(), default_parser: dp, ..Default::default() };
        let seq: Vec<&str> = toks.iter().map(|t| t.0.as_str()).collect();
        let outs = if layer == Layer::Generic { generic_open_seq(p, &key, &seq, &cfg) } else { batteries_open_seq(p, &key, &seq, &cfg) };
        let tag = format!("{}/{}{}", p.name(), layer.name(), if dp { "-default" } else { "" });
        for (pos, (o, log)) in outs.iter().enumerate() {
            r.evaluations += 1;
            let (_, k, authentic) = &toks[pos];
            let c = C16Case { validators_first: false, p, key: key.clone(), s: specs[*k].clone(), validators: validators.clone(), expected: vec![], layer, default_parser: dp, forgery: if *authentic { "authentic".into() } else { "bitflip".into() }, class: "sequence".into(), raw_payload: None };
            let before = r.violations_total;
            c16_verdict(&c, &tag, &model_object(&specs[*k]), o, log, r, &json!({"cmd": "C16-seq", "note": "sequence case: re-run the check", "position": pos, "authentic": authentic, "spec": specs[*k]}), &format!(" [parse #{} of one parser]", pos + 1));
            if r.violations_total == before {
                r.count("sequence parses consistent with a fresh parser");
            }
        }
    });
    total.merge(r);
    for &p in &ALL {
        total.require(&format!("{}/generic authentic accepted: every validator ran once and accepted", p.name()), 5);
        total.require(&format!("{}/generic forged-token: no validator ran", p.name()), 5);
    }
    total.require("validator invocations observed with the real payload value", 500);
    total.require("sequence parses consistent with a fresh parser", 500);
    total
}

pub fn replay_c16(rec: &Value, case: &Value) -> Report {
    let mut r = Report::new();
    let seed = rec.get("seed").and_then(|v| v.as_u64()).unwrap_or(1);
    match serde_json::from_value::<C16Case>(case.clone()) {
        Ok(c) => c16_eval(&c, &mut r, seed),
        Err(e) => r.inconclusive.push(format!("cannot decode replay case (sequence cases are re-derived by re-running the check): {}", e)),
    }
    r
}

pub const RULE_C16: &str = "[plus payloads as another implementation writes them, sealed at the core layer: escaped member names and strings, exponent spellings, 64-bit extremes, surrogate pairs, whitespace, objects that merely look like serde_json private number / raw-value encodings - the validator must be handed exactly the authenticated value] harness validators are static functions that append (key, value) to a thread-local call log and answer from a behaviour table (accept / reject / accept-iff-equal / accept-iff-present). For seeded random token claim sets, 0-3 validators over registered and custom keys (present and absent in the payload) are registered through validate_claim (every fifth time with a USER-DEFINED claim type that only names the key and serialises as a unit, a string or an object without / with more than that member) and, on GenericParser, through extend_validation_claims only; parsers: GenericParser, PasetoParser::new(), PasetoParser::default(). Each configuration parses either the authentic token or a forgery (wrong key, wrong footer, wrong assertion, relabelled header, bit flip, truncation). Monitors: no log entry for a forged token; for an authentic token every logged value equals the payload member (null when absent), each key at most once, Ok only if every registered validator ran and accepts, Err only if a validator or expectation fails, and the error stems from a rejecting validator. Plus large tokens (5 000 / 9 000 / 17 000-byte messages) with one bit flipped near the end of the body: no validator may be invoked. Plus 300 (thorough 3000) sequences where one parser processes shuffled authentic and forged tokens; 400 (thorough 4000) LIVE-parser sessions in which validators are added (validate_claim / extend_validation_claims) between parses of one parser object and every validator registered so far must run and be honoured on the next parse, incl. a second, distinguishable validator registered for a key that already has one (on the default parser: replacing the built-in exp validator) — the last registration runs and is honoured; authentic tokens whose payload is JSON but not an object (sealed at the core layer): validators still run, with null. distinct_nontrivial = distinct (protocol, parser kind, authentic|forgery kind, outcome, #validators, #rejecting, registration routes); plus argument-change sessions (the same token text under its own key, another key, after footer/assertion changes, after they are set to the empty string and set again: a refused presentation must leave the validator log empty); registered claim types are handed to validate_claim as X::default() every other time";
