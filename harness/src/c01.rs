//! C01 (local) and C02 (public): seal -> open returns exactly what went in, at all three layers.
//! Oracle: identity by construction.
use crate::gens::{self, Pools};
use crate::proto::*;
use crate::report::{parallel, Report};
use crate::rng::Rng;
use crate::util;
use serde::{Deserialize, Serialize};
use serde_json::{json, Map, Value};

#[derive(Clone, Debug, Serialize, Deserialize)]
pub struct Case {
    pub p: P,
    pub layer: Layer,
    pub key: KeyMat,
    #[serde(with = "hexvec")]
    pub nonce: Vec<u8>,
    pub msg: String,
    pub footer: Option<String>,
    pub ia: Option<String>,
    pub claims: Vec<ClaimOp>,
    pub class: String,
}

fn opt_class(o: &Option<String>) -> &'static str {
    match o {
        None => "none",
        Some(s) if s.is_empty() => "empty",
        Some(s) if s.is_ascii() => "ascii",
        Some(_) => "non-ascii",
    }
}
fn len_class(n: usize) -> String {
    // exact for the small/boundary region, bucketed above
    if n <= 4097 {
        let near = [16usize, 32, 48, 64, 96, 128, 192, 256, 1024, 4096];
        for b in near {
            if n + 1 == b || n == b || n == b + 1 {
                return format!("{}", n);
            }
        }
        if n <= 3 {
            return format!("{}", n);
        }
        return format!("~2^{}", usize::BITS - n.leading_zeros());
    }
    format!("~2^{}", usize::BITS - n.leading_zeros())
}
fn content_class(s: &str) -> &'static str {
    if s.is_empty() {
        "empty"
    } else if s.contains('\0') {
        "nul"
    } else if s.is_ascii() {
        if s.contains('.') {
            "ascii-dot"
        } else {
            "ascii"
        }
    } else if s.chars().any(|c| c.len_utf8() == 4) {
        "utf8-4"
    } else if s.chars().any(|c| c.len_utf8() == 3) {
        "utf8-3"
    } else {
        "utf8-2"
    }
}

/// model of the claims object a sequence of ops must produce
pub fn model_object(ops: &[ClaimOp]) -> Map<String, Value> {
    let mut m = Map::new();
    for op in ops {
        match op {
            ClaimOp::Set(c) => {
                if !c.key().is_empty() {
                    m.insert(c.key().to_string(), c.value());
                }
            }
            ClaimOp::Remove(k) => {
                m.remove(k);
            }
            ClaimOp::Extend(kvs) => {
                for (k, v) in kvs {
                    m.insert(k.clone(), v.clone());
                }
            }
        }
    }
    m
}

pub fn run_case(c: &Case, r: &mut Report, prop: &str) {
    r.evaluations += 1;
    let footer = c.footer.as_deref();
    let ia = c.ia.as_deref();
    let replay = || json!({"cmd": prop, "case": c});
    let tag = format!("{}/{}", c.p.name(), c.layer.name());
    match c.layer {
        Layer::Core => {
            let (tok, _) = core_seal(c.p, &c.key, &c.nonce, &c.msg, footer, ia);
            let tok = match tok {
                Out::Ok(t) => t,
                other => {
                    r.violation(
                        format!("{} seal-failed {} {}", prop, tag, other.class()),
                        format!("{} core seal of a {}-byte message failed: {}", c.p.name(), c.msg.len(), other.brief()),
                        replay(),
                    );
                    return;
                }
            };
            let (back, trace) = core_open(c.p, &c.key, &tok, footer, ia);
            match &back {
                Out::Ok(m) if *m == c.msg => {
                    r.count(&format!("{} ok", tag));
                    r.distinct(format!("{}|{}|{}|{}|{}", tag, len_class(c.msg.len()), content_class(&c.msg), opt_class(&c.footer), opt_class(&c.ia)));
                    for t in trace {
                        r.see("hook-events-on-accepted-open", t);
                    }
                    if r.samples.len() < 4 {
                        r.sample(json!({"protocol": c.p.name(), "layer": "core", "msg_len": c.msg.len(), "msg": util::clip(&c.msg, 40), "footer": c.footer, "assertion": c.ia, "token": util::clip(&tok, 70), "opened": "== msg"}));
                    }
                }
                other => {
                    r.violation(
                        format!("{} roundtrip-mismatch {} {}", prop, tag, other.class()),
                        format!("{} core: open(seal(m)) != m for |m|={} footer={:?} assertion={:?}: got {}", c.p.name(), c.msg.len(), c.footer, c.ia, other.brief()),
                        replay(),
                    );
                }
            }
        }
        Layer::Generic => {
            let (tok, _) = generic_seal(c.p, &c.key, &c.claims, footer, ia);
            let tok = match tok {
                Out::Ok(t) => t,
                other => {
                    r.violation(format!("{} seal-failed {} {}", prop, tag, other.class()), format!("{} generic build failed: {}", c.p.name(), other.brief()), replay());
                    return;
                }
            };
            let cfg = ParserCfg { footer: c.footer.clone(), assertion: c.ia.clone(), ..Default::default() };
            let (back, _) = generic_open(c.p, &c.key, &tok, &cfg);
            let want = Value::Object(model_object(&c.claims));
            match &back {
                Out::Ok(v) if *v == want => {
                    r.count(&format!("{} ok", tag));
                    r.distinct(format!("{}|claims={}|{}|{}", tag, c.claims.len().min(6), opt_class(&c.footer), opt_class(&c.ia)));
                    if r.samples.len() < 7 {
                        r.sample(json!({"protocol": c.p.name(), "layer": "generic", "claims": want, "footer": c.footer, "assertion": c.ia, "parsed": "== claims"}));
                    }
                }
                other => {
                    r.violation(
                        format!("{} roundtrip-mismatch {} {}", prop, tag, other.class()),
                        format!("{} generic: parse(build(claims)) != claims: want {} got {}", c.p.name(), util::clip(&want.to_string(), 200), other.brief()),
                        replay(),
                    );
                }
            }
        }
        Layer::Batteries => {
            let mut ops: Vec<BOp> = Vec::new();
            for op in &c.claims {
                if let ClaimOp::Set(cl) = op {
                    ops.push(BOp::Set(cl.clone()));
                }
            }
            if let Some(f) = &c.footer {
                ops.push(BOp::Footer(f.clone()));
            }
            if let Some(a) = &c.ia {
                if c.p.has_assertion() {
                    ops.push(BOp::Assertion(a.clone()));
                }
            }
            ops.push(BOp::Build);
            let outs = batteries_run(c.p, &c.key, &ops);
            let tok = match outs.last() {
                Some(Out::Ok(t)) if outs.len() == 1 => t.clone(),
                _ => {
                    r.violation(
                        format!("{} seal-failed {} {}", prop, tag, outs.last().map(|o| o.class()).unwrap_or("none")),
                        format!("{} batteries build failed: {:?}", c.p.name(), outs.iter().map(|o| o.brief()).collect::<Vec<_>>()),
                        replay(),
                    );
                    return;
                }
            };
            // default nbf == creation instant and the default parser wants now > nbf: wait out the clock granularity
            let use_default = c.class.contains("default-parser");
            let cfg = ParserCfg { footer: c.footer.clone(), assertion: c.ia.clone(), default_parser: use_default, ..Default::default() };
            if use_default {
                std::thread::sleep(std::time::Duration::from_millis(2));
            }
            let mut back = batteries_open(c.p, &c.key, &tok, &cfg).0;
            if use_default && back.err() == Some("Claim/UseBeforeAvailable") {
                // only a backwards clock step can cause this on correct code: retry once, count it
                r.discard("default-parser UseBeforeAvailable right after build; retried");
                std::thread::sleep(std::time::Duration::from_millis(20));
                back = batteries_open(c.p, &c.key, &tok, &cfg).0;
            }
            let mut want = model_object(&c.claims);
            match &back {
                Out::Ok(Value::Object(got)) => {
                    let mut got = got.clone();
                    let mut ok = true;
                    for k in ["exp", "iat", "nbf"] {
                        if !want.contains_key(k) {
                            ok &= got.remove(k).map(|v| v.is_string()).unwrap_or(false);
                        }
                    }
                    want.retain(|_, _| true);
                    if ok && got == want {
                        r.count(&format!("{} ok", tag));
                        r.distinct(format!("{}|claims={}|{}|{}|{}", tag, c.claims.len().min(6), opt_class(&c.footer), opt_class(&c.ia), if use_default { "default" } else { "new" }));
                        if r.samples.len() < 10 {
                            r.sample(json!({"protocol": c.p.name(), "layer": "batteries_included", "claims": want, "footer": c.footer, "assertion": c.ia, "parser": if use_default {"PasetoParser::default()"} else {"PasetoParser::new()"}, "parsed": "== claims + default exp/iat/nbf"}));
                        }
                    } else {
                        r.violation(
                            format!("{} roundtrip-mismatch {} ok", prop, tag),
                            format!("{} batteries: parsed claims differ: want {} (+exp/iat/nbf) got {}", c.p.name(), util::clip(&Value::Object(want).to_string(), 200), back.brief()),
                            replay(),
                        );
                    }
                }
                other => {
                    r.violation(
                        format!("{} roundtrip-mismatch {} {}", prop, tag, other.class()),
                        format!("{} batteries: parse(build(claims)) failed: {}", c.p.name(), other.brief()),
                        replay(),
                    );
                }
            }
        }
    }
}

fn opt3(rng: &mut Rng, cat: &[String]) -> Option<String> {
    match rng.below(4) {
        0 => None,
        1 => Some(String::new()),
        _ => Some(rng.pick(cat).clone()),
    }
}

fn random_claims(rng: &mut Rng) -> Vec<ClaimOp> {
    let n = rng.below(5);
    let mut v = Vec::new();
    for i in 0..n {
        let key = match rng.below(4) {
            0 => format!("c{}", i),
            1 => gens::json_key(rng),
            2 => "data".to_string(),
            _ => rng.utf8_1upto(6),
        };
        if ["iss", "sub", "aud", "exp", "nbf", "iat", "jti", ""].contains(&key.as_str()) {
            continue;
        }
        let val = gens::json_tree(rng, 2);
        v.push(ClaimOp::Set(Claim::Custom(key, val)));
    }
    if rng.chance(1, 4) {
        // claims handed over through extend_claims (generic layer only), incl. a value that is an object whose only
        // member is named like its own key
        let k = format!("x{}", rng.below(3));
        let inner = gens::json_tree(rng, 2);
        let val = if rng.chance(1, 2) {
            let mut m = Map::new();
            m.insert(k.clone(), inner);
            Value::Object(m)
        } else {
            inner
        };
        v.push(ClaimOp::Extend(vec![(k, val), ("data".to_string(), json!({"data": "msg"}))]));
    }
    if rng.chance(1, 3) {
        v.push(ClaimOp::Set(Claim::Aud(rng.utf8_upto(10))));
    }
    if rng.chance(1, 3) {
        v.push(ClaimOp::Set(Claim::Sub(rng.utf8_upto(10))));
    }
    v
}

pub fn build_cases(p: P, tier: &str, seed: u64, pools: &Pools) -> Vec<Case> {
    let thorough = tier == "thorough";
    let mut rng = Rng::new(seed, "c01-cases", p as u64);
    let mut cases = Vec::new();
    let fcat = gens::footer_catalogue();
    let contents = gens::content_catalogue();
    let nkeys = pools.count(p);
    let opts = |has: bool| -> Vec<Option<String>> {
        if has {
            vec![None, Some(String::new()), Some("assert-\u{e9}".to_string())]
        } else {
            vec![None]
        }
    };
    let footers: Vec<Option<String>> = vec![None, Some(String::new()), Some("{\"kid\":\"k1\"}".to_string())];
    let nonce_for = |rng: &mut Rng, p: P| -> Vec<u8> {
        if p == P::V2L && rng.chance(1, 2) {
            rng.bytes(24)
        } else {
            rng.bytes(32)
        }
    };
    let mut push = |cases: &mut Vec<Case>, rng: &mut Rng, ki: usize, msg: String, footer: Option<String>, ia: Option<String>, class: &str| {
        let nonce = nonce_for(rng, p);
        cases.push(Case { p, layer: Layer::Core, key: pools.key(p, ki), nonce, msg, footer, ia, claims: vec![], class: class.to_string() });
    };
    // (a) boundary lengths x {ascii, utf8} x footer x assertion, on a few keys
    let key_span = if p.is_local() { nkeys } else { nkeys.min(if p == P::V1P { 2 } else { 4 }) };
    for ki in 0..key_span {
        for &n in gens::BOUNDARY_LENGTHS {
            for utf in [false, true] {
                for f in &footers {
                    for a in &opts(p.has_assertion()) {
                        // thin out the cross product on the expensive protocols
                        if !p.is_local() && !(ki == 0 || (n % 5 == ki % 5)) {
                            continue;
                        }
                        if !p.is_local() && f.is_some() != a.is_some() && p.has_assertion() && n > 64 {
                            continue;
                        }
                        let msg = if utf { gens::utf8_of_len(n, &mut rng) } else { gens::ascii_of_len(n, ki as u8) };
                        push(&mut cases, &mut rng, ki, msg, f.clone(), a.clone(), "boundary");
                    }
                }
            }
        }
    }
    // (b) content classes x footer catalogue (as footer AND as assertion)
    for (i, (_, content)) in contents.iter().enumerate() {
        for (j, f) in fcat.iter().enumerate() {
            if !p.is_local() && (i + j) % 4 != 0 {
                continue;
            }
            let a = if p.has_assertion() { Some(fcat[(j * 7 + i) % fcat.len()].clone()) } else { None };
            push(&mut cases, &mut rng, (i + j) % nkeys, content.clone(), Some(f.clone()), a, "content");
        }
    }
    // (b2) inputs that are RELATED to each other: nonce == key, footer == assertion == message, message contains the key, all equal
    if p.is_local() {
        for ki in 0..nkeys.min(6) {
            let key = pools.key(p, ki);
            let keyhex = util::hex(&key.sym);
            let same = "same-string-everywhere".to_string();
            let variants: Vec<(Vec<u8>, String, Option<String>, Option<String>)> = vec![
                (key.sym.to_vec(), "nonce equals key".to_string(), None, None),
                (key.sym.to_vec(), keyhex.clone(), Some(keyhex.clone()), Some(keyhex.clone())),
                (rng.bytes(32), same.clone(), Some(same.clone()), Some(same.clone())),
                (vec![0u8; 32], String::new(), Some(String::new()), Some(String::new())),
                (rng.bytes(32), keyhex.clone(), Some("f".into()), None),
                (rng.bytes(32), "m".into(), Some(p.header()), Some(p.header())),
            ];
            for (nonce, msg, f, a) in variants {
                let a = if p.has_assertion() { a } else { None };
                let nonce = if p == P::V2L && nonce.len() == 32 && ki % 2 == 0 { nonce[..24].to_vec() } else { nonce };
                cases.push(Case { p, layer: Layer::Core, key: key.clone(), nonce, msg, footer: f, ia: a, claims: vec![], class: "related-inputs".into() });
            }
        }
    } else {
        let key = pools.key(p, 0);
        let pkhex = util::hex(&key.pk);
        for (msg, f, a) in [(pkhex.clone(), Some(pkhex.clone()), Some(pkhex.clone())), ("x".to_string(), Some("x".to_string()), Some("x".to_string())), (p.header(), Some(p.header()), None)] {
            let a = if p.has_assertion() { a } else { None };
            cases.push(Case { p, layer: Layer::Core, key: key.clone(), nonce: rng.bytes(32), msg, footer: f, ia: a, claims: vec![], class: "related-inputs".into() });
        }
    }
    // (c) big messages
    let mut bigs: Vec<usize> = gens::BIG_LENGTHS.to_vec();
    if thorough {
        bigs.extend_from_slice(gens::HUGE_LENGTHS);
    }
    for &n in &bigs {
        let msg = gens::utf8_of_len(n, &mut rng);
        push(&mut cases, &mut rng, 0, msg, Some("big".into()), None, "big");
        push(&mut cases, &mut rng, 1 % nkeys, gens::ascii_of_len(n, 9), None, if p.has_assertion() { Some("big-ia".into()) } else { None }, "big");
    }
    // (d) random core cases
    let nrand = match (p, thorough) {
        (P::V1P, false) => 400,
        (P::V3P, false) => 600,
        (P::V2P | P::V4P, false) => 6000,
        (_, false) => 15_000,
        (P::V1P, true) => 40_000,
        (P::V3P, true) => 40_000,
        (P::V2P | P::V4P, true) => 150_000,
        (_, true) => 250_000,
    };
    for _ in 0..nrand {
        let n = match rng.below(10) {
            0..=5 => rng.below(200),
            6..=8 => rng.below(5000),
            _ => rng.below(if thorough { 200_000 } else { 30_000 }),
        };
        let msg = rng.utf8(n);
        let f = opt3(&mut rng, &fcat);
        let a = if p.has_assertion() { opt3(&mut rng, &fcat) } else { None };
        let ki = rng.below(nkeys);
        push(&mut cases, &mut rng, ki, msg, f, a, "random");
    }
    // (e) upper layers
    let nupper = match (p, thorough) {
        (P::V1P, false) => 120,
        (P::V3P, false) => 240,
        (_, false) => 1500,
        (P::V1P, true) => 1500,
        (P::V3P, true) => 3000,
        (_, true) => 30_000,
    };
    for i in 0..nupper {
        let claims = random_claims(&mut rng);
        let f = opt3(&mut rng, &fcat);
        let a = if p.has_assertion() { opt3(&mut rng, &fcat) } else { None };
        let ki = rng.below(nkeys);
        cases.push(Case { p, layer: Layer::Generic, key: pools.key(p, ki), nonce: vec![], msg: String::new(), footer: f.clone(), ia: a.clone(), claims: claims.clone(), class: "upper".into() });
        // batteries: Set ops only (remove is not part of PasetoBuilder), no duplicate keys (that is C17's business)
        let mut seen = std::collections::HashSet::new();
        let bclaims: Vec<ClaimOp> = claims.into_iter().filter(|op| matches!(op, ClaimOp::Set(c) if seen.insert(c.key().to_string()))).collect();
        // the default parser sleeps 2 ms per case: use it on a fraction
        let class = if i % 8 == 0 { "upper default-parser" } else { "upper" };
        cases.push(Case { p, layer: Layer::Batteries, key: pools.key(p, ki), nonce: vec![], msg: String::new(), footer: f, ia: a, claims: bclaims, class: class.into() });
    }
    cases
}

pub fn run(prop: &str, tier: &str, seed: u64) -> Report {
    let local = prop == "C01";
    let protos: &[P] = if local { &LOCALS } else { &PUBLICS };
    let (n_ed, n_p384) = if tier == "thorough" { (400, 100) } else { (64, 16) };
    let pools = Pools::new(seed, n_ed, n_p384);
    let mut total = Report::new();
    if !local && pools.rsa.is_empty() {
        total.inconclusive.push("no RSA key fixtures found".into());
        return total;
    }
    // the cases of all protocols are interleaved, so that every worker thread (and thread-local / process-wide state in the
    // library) sees all protocols in turn instead of one protocol per thread
    let per: Vec<Vec<Case>> = protos.iter().map(|&p| build_cases(p, tier, seed, &pools)).collect();
    let longest = per.iter().map(|v| v.len()).max().unwrap_or(0);
    let mut cases: Vec<&Case> = Vec::new();
    for i in 0..longest {
        for v in &per {
            if let Some(c) = v.get(i) {
                cases.push(c);
            }
        }
    }
    let r = parallel(cases.len(), util::threads(), |i, r| run_case(cases[i], r, prop));
    total.merge(r);
    // ONE core builder object sealed from several times (configured once, and re-configured before each seal)
    let mut rr = Report::new();
    let mut rr2 = Report::new();
    let mut rng = Rng::new(seed, "c01-core-reuse", 0);
    for &p in protos {
        for k in 0..(if tier == "thorough" { 400 } else { 40 }) {
            let key = pools.key(p, k % pools.count(p));
            let footer = [None, Some("ftr"), Some("")][k % 3];
            let ia = if p.has_assertion() { [None, Some("ia")][k % 2] } else { None };
            let msg = rng.utf8_upto(if k % 5 == 0 { 3000 } else { 80 });
            let n = 2 + k % 3;
            let nonces: Vec<Vec<u8>> = (0..n).map(|_| rng.bytes(32)).collect();
            let reconf = k % 4 == 3;
            let outs = core_seal_many(p, &key, &nonces, &msg, footer, ia, reconf);
            for (i, o) in outs.iter().enumerate() {
                rr.evaluations += 1;
                let replay = json!({"cmd": prop, "note": "core-builder-reuse case: re-run the check", "p": p.name(), "seal_no": i + 1, "footer": footer, "assertion": ia, "msg_len": msg.len()});
                let back = match o {
                    Out::Ok(t) => core_open(p, &key, t, footer, ia).0,
                    other => Out::Err(format!("seal failed: {}", other.brief())),
                };
                match back {
                    Out::Ok(m) if m == msg => {
                        rr.count(&format!("{} core builder reused: token #{} opens to the message", p.name(), (i + 1).min(3)));
                        rr.distinct(format!("{}|core-reuse|{}|{}|{}", p.name(), i, footer.is_some(), ia.is_some()));
                    }
                    other => rr.violation(
                        format!("{} core-builder-reuse {} seal={}", prop, p.name(), if i == 0 { "first" } else { "later" }),
                        format!("{}: ONE core builder (payload of {} bytes, footer {:?}, assertion {:?}{}), seal #{} of {}: the token does not open to the message: {}", p.name(), msg.len(), footer, ia, if reconf { ", re-configured before each seal" } else { "" }, i + 1, n, other.brief()),
                        replay,
                    ),
                }
            }
        }
    }
    // ONE core builder object whose payload, footer and assertion are CHANGED between seals (to other values, to the empty
    // value and back): every token must open to the payload, footer and assertion that were current at its seal
    let nscr = if tier == "thorough" { 600 } else { 60 };
    for &p in protos {
        for k in 0..nscr {
            let key = pools.key(p, k % pools.count(p));
            let mut ops: Vec<CoreOp> = Vec::new();
            let mut cur: (String, Option<String>, Option<String>) = (String::new(), None, None);
            let mut want: Vec<(String, Option<String>, Option<String>)> = Vec::new();
            let m0 = rng.utf8_upto(60);
            ops.push(CoreOp::Payload(m0.clone()));
            cur.0 = m0;
            let nseal = 2 + rng.below(4);
            let footers = ["", "ftr", "other-footer", "{\"kid\":\"k1\"}", "ftr"];
            let assertions = ["", "ia", "another assertion"];
            while want.len() < nseal {
                for _ in 0..rng.below(3) {
                    match rng.below(if p.has_assertion() { 3 } else { 2 }) {
                        0 => {
                            let f = if rng.chance(1, 4) { rng.utf8_upto(20) } else { footers[rng.below(footers.len())].to_string() };
                            ops.push(CoreOp::Footer(f.clone()));
                            cur.1 = Some(f);
                        }
                        1 => {
                            let big = rng.chance(1, 6);
                            let m = rng.utf8_upto(if big { 1500 } else { 50 });
                            ops.push(CoreOp::Payload(m.clone()));
                            cur.0 = m;
                        }
                        _ => {
                            let a = assertions[rng.below(assertions.len())].to_string();
                            ops.push(CoreOp::Assertion(a.clone()));
                            cur.2 = Some(a);
                        }
                    }
                }
                ops.push(CoreOp::Seal(rng.bytes(32)));
                want.push(cur.clone());
            }
            let outs = core_script(p, &key, &ops);
            if outs.len() != want.len() {
                rr2.inconclusive.push(format!("{} core script: {} outcomes for {} seals", p.name(), outs.len(), want.len()));
                continue;
            }
            for (i, (o, w)) in outs.iter().zip(want.iter()).enumerate() {
                rr2.evaluations += 1;
                let replay = json!({"cmd": prop, "note": "core-builder history: re-run the check", "p": p.name(), "ops": ops, "seal_no": i + 1});
                let back = match o {
                    Out::Ok(t) => core_open(p, &key, t, w.1.as_deref(), w.2.as_deref()).0,
                    other => Out::Err(format!("seal failed: {}", other.brief())),
                };
                match back {
                    Out::Ok(m) if m == w.0 => {
                        rr2.count(&format!("{} core builder history: token opens to the payload/footer/assertion current at its seal", p.name()));
                        rr2.distinct(format!("{}|core-history|{}|{:?}|{:?}", p.name(), i.min(3), w.1.as_ref().map(|f| f.is_empty()), w.2.as_ref().map(|a| a.is_empty())));
                    }
                    other => rr2.violation(
                        format!("{} core-builder-history {}", prop, p.name()),
                        format!("{}: ONE core builder, history {}: seal #{} was made with payload of {} bytes, footer {:?}, assertion {:?} current, but the token does not open to them: {}", p.name(), util::clip(&format!("{:?}", ops.iter().map(|o| match o { CoreOp::Payload(m) => format!("payload[{}]", m.len()), CoreOp::Footer(f) => format!("footer({:?})", f), CoreOp::Assertion(a) => format!("assertion({:?})", a), CoreOp::Seal(_) => "SEAL".to_string() }).collect::<Vec<_>>()), 300), i + 1, w.0.len(), w.1, w.2, other.brief()),
                        replay,
                    ),
                }
            }
        }
    }
    total.merge(rr);
    total.merge(rr2);
    // ONE key object (per role) kept for a whole series of seals and opens, the way applications keep their keys: every
    // token of the series must open to its own message (a key object that accumulates state - a cached derivation, a
    // remembered salt or nonce - goes wrong from its second use on)
    {
        let mut rk = Report::new();
        let mut rng = Rng::new(seed, "c01-key-object", 0);
        for &p in protos {
            let nsess = match (p, tier == "thorough") {
                (P::V1P, false) => 3,
                (P::V3P, false) => 6,
                (_, false) => 40,
                (P::V1P | P::V3P, true) => 40,
                (_, true) => 800,
            };
            for k in 0..nsess {
                let key = pools.key(p, k % pools.count(p));
                let n = 2 + rng.below(if matches!(p, P::V1P | P::V3P) { 3 } else { 9 });
                let mut steps = Vec::new();
                let mut msgs = Vec::new();
                for j in 0..n {
                    let msg = rng.utf8_upto(if (k + j) % 7 == 0 { 3000 } else { 120 });
                    let footer = [None, Some("ftr".to_string()), Some(String::new()), Some(rng.utf8_upto(40))][rng.below(4)].clone();
                    let ia = if p.has_assertion() { [None, Some("ia".to_string()), Some(rng.utf8_upto(40))][rng.below(3)].clone() } else { None };
                    let nonce = if p == P::V2L && rng.chance(1, 2) { rng.bytes(24) } else { rng.bytes(32) };
                    steps.push(KStep::Seal { nonce, msg: msg.clone(), footer: footer.clone(), ia: ia.clone() });
                    steps.push(KStep::Open { token: None, footer, ia });
                    msgs.push(msg);
                }
                let outs = core_key_session(p, &key, &steps);
                for j in 0..n {
                    rk.evaluations += 1;
                    let (sealed, opened) = (outs.get(2 * j), outs.get(2 * j + 1));
                    let good = matches!(sealed, Some(Out::Ok(_))) && matches!(opened, Some(Out::Ok(m)) if *m == msgs[j]);
                    if good {
                        rk.count(&format!("{} one key object: token #{} opens to its message", p.name(), (j + 1).min(3)));
                        rk.distinct(format!("{}|key-object|{}", p.name(), j.min(8)));
                    } else {
                        rk.violation(
                            format!("{} key-object-reuse {} use={}", prop, p.name(), if j == 0 { "first" } else { "later" }),
                            format!("{}: ONE key object used for {} seal/open rounds: round #{} (message of {} bytes): seal {} / open {}", p.name(), n, j + 1, msgs[j].len(), sealed.map(|o| o.brief()).unwrap_or_default(), opened.map(|o| if matches!(o, Out::Ok(_)) { "Ok(another message)".to_string() } else { o.brief() }).unwrap_or_default()),
                            json!({"cmd": prop, "note": "key-object session: re-run the check", "p": p.name(), "round": j + 1}),
                        );
                    }
                }
            }
            rk.require(&format!("{} one key object: token #2 opens to its message", p.name()), 3);
        }
        total.merge(rk);
    }
    // ONE GenericBuilder, several builds, claims set / removed / extended and footer / assertion changed in between: every
    // token must come back as exactly the claims in force at its build (the histories of C14, here as round trips)
    total.merge(crate::c14::multi_round_trips(prop, protos, if tier == "thorough" { 3000 } else { 240 }, seed, &pools));
    for &p in protos {
        total.require(&format!("{} core builder history: token opens to the payload/footer/assertion current at its seal", p.name()), 20);
        total.require(&format!("{} core builder reused: token #2 opens to the message", p.name()), 10);
        for l in LAYERS {
            total.require(&format!("{}/{} ok", p.name(), l.name()), 20);
        }
    }
    total.see("key-pool-sizes", &format!("sym={} ed25519={} p384={} rsa={}", pools.sym.len(), pools.ed.len(), pools.p384.len(), pools.rsa.len()));
    total
}

pub fn replay(prop: &str, case: &Value) -> Report {
    let mut r = Report::new();
    match serde_json::from_value::<Case>(case.clone()) {
        Ok(c) => run_case(&c, &mut r, prop),
        Err(e) => r.inconclusive.push(format!("cannot decode replay case: {}", e)),
    }
    r
}

pub const RULE_C01: &str = "cases = boundary-length x {ascii,multi-byte} x footer{none,empty,text} x assertion{none,empty,text} on every key of the catalogue, content-class x footer/assertion catalogue, 64 KiB (thorough: 1 MiB) messages, seeded random (key, nonce, message, footer, assertion), plus generic and batteries-included builder->parser round trips over random claim sets, plus ONE core builder object sealed from 2-4 times (every token must open to the message); each case seals with the real library and opens the result with the same key/footer/assertion; oracle = identity. distinct_nontrivial counts distinct (protocol, layer, message-length class, content class, footer class, assertion class) tuples (upper layers: protocol, layer, #claims, footer class, assertion class, parser kind) that produced a token AND opened to exactly the input; plus ONE key object (per role) kept for 2-10 alternating seals and opens at the core layer (every token opens to its own message); plus ONE core builder whose payload/footer/assertion change between seals (to other values, to empty and back), and ONE GenericBuilder with claims set/removed/extended and footer/assertion changed between several builds (each token must parse to exactly the claims in force at its build)";
