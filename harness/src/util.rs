//! Small independent helpers: hex, base64url (own implementation, not the `base64` crate the library uses).

pub fn hex(b: &[u8]) -> String {
    const H: &[u8; 16] = b"0123456789abcdef";
    let mut s = String::with_capacity(b.len() * 2);
    for x in b {
        s.push(H[(x >> 4) as usize] as char);
        s.push(H[(x & 15) as usize] as char);
    }
    s
}

pub fn unhex(s: &str) -> Option<Vec<u8>> {
    let b = s.as_bytes();
    if b.len() % 2 != 0 {
        return None;
    }
    let v = |c: u8| -> Option<u8> {
        match c {
            b'0'..=b'9' => Some(c - b'0'),
            b'a'..=b'f' => Some(c - b'a' + 10),
            b'A'..=b'F' => Some(c - b'A' + 10),
            _ => None,
        }
    };
    let mut out = Vec::with_capacity(b.len() / 2);
    for i in (0..b.len()).step_by(2) {
        out.push(v(b[i])? << 4 | v(b[i + 1])?);
    }
    Some(out)
}

pub const B64: &[u8; 64] = b"ABCDEFGHIJKLMNOPQRSTUVWXYZabcdefghijklmnopqrstuvwxyz0123456789-_";

/// canonical unpadded base64url
pub fn b64(data: &[u8]) -> String {
    let mut s = String::with_capacity(data.len() * 4 / 3 + 3);
    let mut i = 0;
    while i + 3 <= data.len() {
        let n = (data[i] as u32) << 16 | (data[i + 1] as u32) << 8 | data[i + 2] as u32;
        s.push(B64[(n >> 18) as usize & 63] as char);
        s.push(B64[(n >> 12) as usize & 63] as char);
        s.push(B64[(n >> 6) as usize & 63] as char);
        s.push(B64[n as usize & 63] as char);
        i += 3;
    }
    match data.len() - i {
        1 => {
            let n = (data[i] as u32) << 16;
            s.push(B64[(n >> 18) as usize & 63] as char);
            s.push(B64[(n >> 12) as usize & 63] as char);
        }
        2 => {
            let n = (data[i] as u32) << 16 | (data[i + 1] as u32) << 8;
            s.push(B64[(n >> 18) as usize & 63] as char);
            s.push(B64[(n >> 12) as usize & 63] as char);
            s.push(B64[(n >> 6) as usize & 63] as char);
        }
        _ => {}
    }
    s
}

fn b64val(c: u8) -> Option<u32> {
    match c {
        b'A'..=b'Z' => Some((c - b'A') as u32),
        b'a'..=b'z' => Some((c - b'a') as u32 + 26),
        b'0'..=b'9' => Some((c - b'0') as u32 + 52),
        b'-' => Some(62),
        b'_' => Some(63),
        _ => None,
    }
}

/// strict canonical decode: alphabet only, no padding, no length ≡ 1 (mod 4), trailing bits must be zero
pub fn unb64(s: &str) -> Option<Vec<u8>> {
    let b = s.as_bytes();
    if b.len() % 4 == 1 {
        return None;
    }
    let mut out = Vec::with_capacity(b.len() * 3 / 4);
    let mut acc: u32 = 0;
    let mut bits = 0;
    for &c in b {
        acc = (acc << 6) | b64val(c)?;
        bits += 6;
        if bits >= 8 {
            bits -= 8;
            out.push((acc >> bits) as u8);
            acc &= (1 << bits) - 1;
        }
    }
    if acc != 0 {
        return None;
    }
    Some(out)
}

/// split "vN.purpose.payload[.footer]" without any validation
pub fn split_token(t: &str) -> Vec<&str> {
    t.split('.').collect()
}

pub fn now_unix_nanos() -> i128 {
    let d = std::time::SystemTime::now().duration_since(std::time::UNIX_EPOCH).expect("clock before 1970");
    d.as_nanos() as i128
}

pub fn threads() -> usize {
    std::env::var("VERIF_THREADS").ok().and_then(|s| s.parse().ok()).unwrap_or_else(|| std::thread::available_parallelism().map(|n| n.get()).unwrap_or(8))
}

/// truncate long strings for evidence samples
pub fn clip(s: &str, n: usize) -> String {
    if s.chars().count() <= n {
        s.to_string()
    } else {
        format!("{}…[{} bytes]", s.chars().take(n).collect::<String>(), s.len())
    }
}
