//! C09: untrusted token text never crashes the caller.  Oracle: any Ok/Err is fine; a panic (or process
//! death, detected by the parent) is the violation.
use crate::gens::{self, Pools};
use crate::proto::*;
use crate::report::{parallel, Report};
use crate::rng::Rng;
use crate::util;
use rusty_paseto::core::Key;
use serde::{Deserialize, Serialize};
use serde_json::{json, Value};
use std::io::Write;

#[derive(Clone, Debug, Serialize, Deserialize)]
pub enum Case {
    Token { p: P, layer: Layer, default_parser: bool, key: KeyMat, token: String, footer: Option<String>, ia: Option<String>, class: String },
    KeyHex { n: usize, text: String, class: String },
    /// ONE parser object that is re-configured between parses of authentic and hostile tokens
    Session { p: P, batteries: bool, default_parser: bool, key: KeyMat, steps: Vec<PStep>, class: String },
}

fn dbg_variant<E: std::fmt::Debug>(e: &E) -> String {
    let s = format!("{:?}", e);
    let v: String = s.chars().take_while(|c| c.is_alphanumeric()).collect();
    format!("FromHexError/{}", v)
}

fn key_try_from(n: usize, text: &str) -> Out<()> {
    macro_rules! k {
        ($($n:literal),*) => {
            match n {
                $($n => guard(|| Key::<$n>::try_from(text).map(|_| ()), dbg_variant).0,)*
                _ => Out::Err("unsupported N".into()),
            }
        };
    }
    k!(1, 2, 24, 32, 48, 49, 56, 64)
}

pub const KEY_SIZES: [usize; 8] = [1, 2, 24, 32, 48, 49, 56, 64];

fn journal(c: &Case) {
    if let Ok(p) = std::env::var("VERIF_JOURNAL") {
        if let Ok(mut f) = std::fs::File::create(&p) {
            let _ = f.write_all(serde_json::to_string(c).unwrap_or_default().as_bytes());
            let _ = f.sync_data();
        }
    }
}

pub fn run_case(c: &Case, r: &mut Report) {
    r.evaluations += 1;
    journal(c);
    match c {
        Case::Token { p, layer, default_parser, key, token, footer, ia, class } => {
            // "cfg=N" at the end of the class: the upper-layer parser is configured with an expectation / validators
            let pcfg: usize = class.rsplit("cfg=").next().filter(|_| class.contains("cfg=")).and_then(|x| x.parse().ok()).unwrap_or(0);
            let out = if pcfg > 0 && *layer != Layer::Core {
                let mut cfg = ParserCfg { footer: footer.clone(), assertion: ia.clone(), default_parser: *default_parser, ..Default::default() };
                match pcfg {
                    1 => cfg.expected = vec![Claim::Aud("customers".into())],
                    2 => cfg.validators = vec![VSpec { claim: Claim::Custom("k".into(), json!("dummy")), behave: VBehave::Accept, reg: VReg::ValidateClaim, second: false, odd: 0 }],
                    3 => cfg.validators = vec![VSpec { claim: Claim::Custom("absent".into(), json!("dummy")), behave: VBehave::Accept, reg: if *layer == Layer::Generic { VReg::ExtendOnly } else { VReg::ValidateClaim }, second: false, odd: 0 }],
                    _ => {
                        cfg.expected = vec![Claim::Custom("a".into(), json!(1))];
                        cfg.validators = vec![VSpec { claim: Claim::Sub("dummy".into()), behave: VBehave::AcceptIfPresent, reg: VReg::ValidateClaim, second: false, odd: 0 }];
                        cfg.expected_via_extend = *layer == Layer::Generic;
                    }
                }
                let o = if *layer == Layer::Generic { generic_open(*p, key, token, &cfg).0 } else { batteries_open(*p, key, token, &cfg).0 };
                match o {
                    Out::Ok(v) => Out::Ok(v.to_string()),
                    Out::Err(e) => Out::Err(e),
                    Out::Panic(x) => Out::Panic(x),
                }
            } else if *layer == Layer::Batteries && *default_parser {
                let cfg = ParserCfg { footer: footer.clone(), assertion: ia.clone(), default_parser: true, ..Default::default() };
                match batteries_open(*p, key, token, &cfg).0 {
                    Out::Ok(v) => Out::Ok(v.to_string()),
                    Out::Err(e) => Out::Err(e),
                    Out::Panic(x) => Out::Panic(x),
                }
            } else {
                open_at(*layer, *p, key, token, footer.as_deref(), ia.as_deref()).0
            };
            let tag = format!("{}/{}", p.name(), layer.name());
            match &out {
                Out::Panic(loc) => {
                    let file_line = loc.split(" :: ").next().unwrap_or("?");
                    r.violation(
                        format!("C09 panic {} at {}", p.name(), file_line),
                        format!("{} entry point panicked on a {}-char token of class '{}': {} (token starts {:?})", tag, token.chars().count(), class, loc, util::clip(token, 60)),
                        json!({"cmd": "C09", "case": c}),
                    );
                    r.count(&format!("{} panic", tag));
                }
                Out::Ok(_) => {
                    r.count(&format!("{} returned-ok", tag));
                    r.distinct(format!("{}|{}|ok", tag, class));
                }
                Out::Err(e) => {
                    r.count(&format!("{} returned-err", tag));
                    r.see(&format!("error-variants {}", tag), e);
                    // non-trivial: got past segment count/header, i.e. reached base64 decoding or beyond
                    if e != "Cipher/IncorrectSize" && e != "Cipher/WrongHeader" {
                        r.distinct(format!("{}|{}|{}", tag, class, e));
                    }
                }
            }
            if r.samples.len() < 8 && (r.evaluations % 97 == 1) {
                r.sample(json!({"entry": tag, "class": class, "token": util::clip(token, 80), "outcome": out.brief()}));
            }
        }
        Case::Session { p, batteries, default_parser, key, steps, class } => {
            let cfg = ParserCfg { default_parser: *default_parser, ..Default::default() };
            let outs = session(*p, *batteries, std::slice::from_ref(key), &cfg, steps);
            let _ = session_logs_take();
            let _ = vlog_take();
            let tag = format!("{}/{}{}", p.name(), if *batteries { "batteries" } else { "generic" }, if *default_parser { "-default" } else { "" });
            let mut panicked = false;
            for (i, o) in outs.iter().enumerate() {
                if let Out::Panic(loc) = o {
                    panicked = true;
                    let file_line = loc.split(" :: ").next().unwrap_or("?");
                    r.violation(
                        format!("C09 panic {} at {} [live parser session]", p.name(), file_line),
                        format!("{} parser object re-configured between parses (class '{}', {} steps): parse #{} panicked: {}", tag, class, steps.len(), i + 1, loc),
                        json!({"cmd": "C09", "case": c}),
                    );
                }
            }
            if !panicked {
                r.count(&format!("{} live-parser session without panic", tag));
                r.distinct(format!("{}|session|{}|{}", tag, class, outs.iter().map(|o| o.class()).collect::<Vec<_>>().join(",")));
            }
        }
        Case::KeyHex { n, text, class } => {
            let out = key_try_from(*n, text);
            let tag = format!("Key<{}>::try_from", n);
            match &out {
                Out::Panic(loc) => {
                    let file_line = loc.split(" :: ").next().unwrap_or("?");
                    r.violation(
                        format!("C09 panic Key::try_from(&str) at {}", file_line),
                        format!("{} panicked on a {}-char string of class '{}': {}", tag, text.chars().count(), class, loc),
                        json!({"cmd": "C09", "case": c}),
                    );
                    r.count("keyhex panic");
                }
                Out::Ok(_) => {
                    r.count("keyhex returned-ok");
                    r.distinct(format!("{}|ok", tag));
                }
                Out::Err(_) => {
                    r.count("keyhex returned-err");
                    r.distinct(format!("{}|{}|err|len{}", tag, class, text.len().min(130)));
                }
            }
        }
    }
}

/// payloads for authentic tokens: not JSON, not an object, extreme and malformed time claims, deep nesting, huge numbers
fn hostile_payloads(rng: &mut Rng, thorough: bool) -> Vec<String> {
    let mut v: Vec<String> = vec![
        "", " ", "null", "true", "0", "[]", "\"str\"", "{", "}", "{}", "{\"exp\"}", "{\"exp\":}", "[{\"exp\":\"2999-01-01T00:00:00Z\"}]", "{\"a\":1}{\"b\":2}", "\u{feff}{}", "{\"a\":1e400}",
        "{\"a\":-0}", "{\"a\":18446744073709551616}", "{\"a\":1.7976931348623157e309}", "{\"\":1}", "{\"a\":\"\\ud800\"}", "{\"a\":\"\\u0000\"}", "{\"exp\":null,\"exp\":\"2000-01-01T00:00:00Z\"}",
    ]
    .into_iter()
    .map(|s| s.to_string())
    .collect();
    // time claims at and beyond the edges of what date libraries represent
    let times = [
        "9999-12-31T23:59:59Z", "9999-12-31T23:59:59-00:01", "9999-12-31T23:59:59-05:00", "9999-12-31T23:59:59-23:59", "9999-12-31T23:59:59.999999999-23:59", "9999-12-31T00:00:00-23:59",
        "0000-01-01T00:00:00Z", "0000-01-01T00:00:00+00:01", "0000-01-01T00:00:00+23:59", "0001-01-01T00:00:00+23:59", "-0001-01-01T00:00:00Z", "+10000-01-01T00:00:00Z", "10000-01-01T00:00:00Z",
        "9999-12-31T23:59:60Z", "2016-12-31T23:59:60Z", "2999-02-29T00:00:00Z", "2999-01-01T24:00:00Z", "2999-01-01T00:00:00+99:99", "2999-01-01T00:00:00-24:00", "2999-01-01T00:00:00.Z",
        "2999-01-01T00:00:00.123456789012345678901234567890Z", "2999-01-01T00:00:00+00:00:00", "99999999999999999999-01-01T00:00:00Z", "2999-01-01T00:00:00Z\u{0}", "1970-01-01T00:00:00Z", "1969-12-31T23:59:59Z",
        "1677-09-21T00:12:43Z", "2262-04-11T23:47:17Z", "2038-01-19T03:14:08Z", "0000-00-00T00:00:00Z",
    ];
    for t in times {
        for k in ["exp", "nbf", "iat"] {
            v.push(format!("{{\"{}\":\"{}\"}}", k, t.replace('\u{0}', "\\u0000")));
        }
        v.push(format!("{{\"exp\":\"{}\",\"nbf\":\"{}\"}}", t.replace('\u{0}', "\\u0000"), t.replace('\u{0}', "\\u0000")));
    }
    for k in ["exp", "nbf"] {
        for val in ["-1", "0", "1e99", "-1e99", "9223372036854775807", "-9223372036854775808", "18446744073709551615", "253402300800", "[[[[[[[[[[]]]]]]]]]]", "{\"exp\":{\"exp\":{}}}", "\"\"", "\" \"", "\"\\n\"", "[]", "{}", "[\"\"]", "[\"2999-01-01T00:00:00Z\"]", "true", "null"] {
            v.push(format!("{{\"{}\":{}}}", k, val));
        }
    }
    // values of every JSON kind under the keys the configured parsers (cfg=1..4) look at
    for k in ["a", "k", "aud", "sub", "absent"] {
        for val in ["18446744073709551615", "9223372036854775808", "-9223372036854775809", "1.5", "-0.0", "1e308", "\"1\"", "[1]", "{\"a\":1}", "null", "true", "\"customers\"", "1", "[]", "{}", "\"\"", "[[]]", "[null]", "[\"\"]", "[\"customers\"]", "[1,1]", "{\"\":1}", "\"\\u0000\"", "[{}]", "false", "0"] {
            v.push(format!("{{\"{}\":{}}}", k, val));
        }
    }
    // deep nesting (serde_json's recursion limit is 128)
    for depth in [100usize, 127, 128, 129, 1000, 5000] {
        v.push(format!("{{\"a\":{}1{}}}", "[".repeat(depth), "]".repeat(depth)));
        v.push(format!("{}{}", "{\"a\":".repeat(depth), "1".to_string() + &"}".repeat(depth)));
    }
    v.push(format!("{{\"a\":\"{}\"}}", "x".repeat(100_000)));
    v.push(format!("{{{}\"z\":1}}", (0..2000).map(|i| format!("\"k{}\":{},", i, i)).collect::<String>()));
    for _ in 0..(if thorough { 400 } else { 40 }) {
        let n = rng.range(0, 60);
        v.push(rng.utf8(n));
        let t = crate::gens::json_tree(rng, 4).to_string();
        v.push(t);
    }
    v
}

fn authentic(p: P, key: &KeyMat, rng: &mut Rng, msg: &str, footer: Option<&str>, ia: Option<&str>) -> Option<String> {
    let nonce = rng.bytes(32);
    match core_seal(p, key, &nonce, msg, footer, ia).0 {
        Out::Ok(t) => Some(t),
        _ => None,
    }
}

pub fn build_cases(tier: &str, seed: u64, pools: &Pools) -> Vec<Case> {
    let thorough = tier == "thorough";
    let mut rng = Rng::new(seed, "c09", 0);
    let mut cases: Vec<Case> = Vec::new();
    let footer_txt = "ftr";
    let footer_b64 = util::b64(footer_txt.as_bytes());
    let mut push_all_layers = |cases: &mut Vec<Case>, p: P, key: &KeyMat, token: String, footer: Option<String>, ia: Option<String>, class: &str| {
        for (layer, dp) in [(Layer::Core, false), (Layer::Generic, false), (Layer::Batteries, false), (Layer::Batteries, true)] {
            cases.push(Case::Token { p, layer, default_parser: dp, key: key.clone(), token: token.clone(), footer: footer.clone(), ia: ia.clone(), class: class.to_string() });
        }
    };
    for &p in &ALL {
        let key = pools.key(p, 1 % pools.count(p));
        let auth = authentic(p, &key, &mut rng, "{\"data\":\"this is a secret message\",\"n\":12345}", None, None);
        let auth_payload: Vec<u8> = auth.as_ref().and_then(|t| util::unb64(t.split('.').nth(2).unwrap_or(""))).unwrap_or_default();
        // (1) correct header + base64url of EVERY decoded length 0..=400 (exhaustive), three fills, with/without footer segment
        let maxlen = if thorough { 2000 } else { 400 };
        // ... plus, with one fill, every length up to 1100 (thorough 4200) and the neighbourhood (-4..=+4) of every power of two
        // and of three times a power of two up to 96 KiB (fixed-size scratch buffers of 512, 768, 1024, 4096 ... bytes, and
        // their base64 images, have their edges there)
        let mut lens: Vec<(usize, usize)> = Vec::new();
        for len in 0..=maxlen {
            for fill in 0..3 {
                lens.push((len, fill));
            }
        }
        for len in maxlen + 1..=(if thorough { 4200 } else { 1100 }) {
            lens.push((len, 1 + len % 2));
        }
        for k in 10..=15u32 {
            for base in [1usize << k, 3usize << k] {
                for d in -4i64..=4 {
                    let len = (base as i64 + d) as usize;
                    if len > (if thorough { 4200 } else { 1100 }) {
                        lens.push((len, 1));
                    }
                }
            }
        }
        for (len, fill) in lens {
            {
                let bytes: Vec<u8> = match fill {
                    0 => vec![0u8; len],
                    1 => rng.bytes(len),
                    _ => {
                        let mut v = auth_payload.clone();
                        v.resize(len.max(v.len()), 0xAA);
                        v.truncate(len);
                        v
                    }
                };
                let body = util::b64(&bytes);
                let fillname = ["zero", "random", "authentic-prefix"][fill];
                push_all_layers(&mut cases, p, &key, format!("{}{}", p.header(), body), None, None, &format!("header+payload[{}]", fillname));
                if fill != 0 {
                    push_all_layers(&mut cases, p, &key, format!("{}{}.{}", p.header(), body, footer_b64), Some(footer_txt.to_string()), None, &format!("header+payload[{}]+footer", fillname));
                }
            }
        }
        // (2) random larger lengths
        let nbig = if thorough { 400 } else { 60 };
        for _ in 0..nbig {
            let len = 400 + rng.below(if thorough { 200_000 } else { 20_000 });
            let body = util::b64(&rng.bytes(len));
            push_all_layers(&mut cases, p, &key, format!("{}{}", p.header(), body), None, None, "header+payload[random-large]");
        }
        // (3) every prefix (by characters) of authentic tokens, with and without footer
        for (msg, f, a) in [("", None, None), ("hello \u{1F980}", Some("ftr"), None), ("{\"a\":1}", Some("ftr"), Some("ia"))] {
            let a = if p.has_assertion() { a } else { None };
            if let Some(t) = authentic(p, &key, &mut rng, msg, f, a) {
                let chars: Vec<char> = t.chars().collect();
                for cut in 0..=chars.len() {
                    let pre: String = chars[..cut].iter().collect();
                    push_all_layers(&mut cases, p, &key, pre, f.map(|s| s.to_string()), a.map(|s| s.to_string()), "authentic-prefix");
                }
                // suffix extensions and inner deletions
                for ext in [".", "..", "A", "=", "==", "\0", " ", "\n", ".AAAA", "é"] {
                    push_all_layers(&mut cases, p, &key, format!("{}{}", t, ext), f.map(|s| s.to_string()), a.map(|s| s.to_string()), "authentic-extended");
                }
            }
        }
        // (3b) multi-byte characters substituted / inserted at every position of the first 14 characters (byte offsets that
        //      are not character boundaries), on tokens that keep 3 or 4 segments
        for (f, fsup) in [(None, None), (Some("ftr"), Some("ftr"))] {
            if let Some(t) = authentic(p, &key, &mut rng, "{\"a\":1}", f, None) {
                let chars: Vec<char> = t.chars().collect();
                for pos in 0..14.min(chars.len()) {
                    for ins in ['\u{e9}', '\u{20ac}', '\u{1F980}', '\u{0}', '\u{7f}'] {
                        let mut c2 = chars.clone();
                        c2[pos] = ins;
                        push_all_layers(&mut cases, p, &key, c2.iter().collect(), fsup.map(|s: &str| s.to_string()), None, "multibyte-substituted-near-header");
                        let mut c3 = chars.clone();
                        c3.insert(pos, ins);
                        push_all_layers(&mut cases, p, &key, c3.iter().collect(), fsup.map(|s: &str| s.to_string()), None, "multibyte-inserted-near-header");
                        // the separator before the payload replaced: payload glued to the purpose, footer keeps the count at 3
                        if chars[pos] == '.' {
                            let glued: String = chars[..pos].iter().chain([ins].iter()).chain(chars[pos + 1..].iter()).collect();
                            push_all_layers(&mut cases, p, &key, format!("{}.AAAA", glued), None, None, "multibyte-replaces-separator+extra-segment");
                        }
                    }
                }
            }
        }
        for h in ["v4.local\u{e9}.AAAA", "v4.publi\u{20ac}.AAAA", "\u{65e5}\u{672c}.\u{8a9e}\u{65e5}\u{672c}\u{8a9e}.\u{65e5}\u{672c}\u{8a9e}", "v4.loca\u{1F980}.AAAA", "\u{e9}\u{e9}.\u{e9}\u{e9}\u{e9}\u{e9}.AAAA", "v1.publi\u{e9}.AAAA.AAAA"] {
            push_all_layers(&mut cases, p, &key, h.to_string(), None, None, "multibyte-straddles-header-length");
        }
        // every split of a 3-segment string of multi-byte characters around the protocol's header length
        for total in 6..16usize {
            for first in 1..4usize {
                for second in 1..(total - first) {
                    let s: String = format!("{}.{}.{}", "\u{e9}".repeat(first), "\u{20ac}".repeat(second), "A".repeat(4));
                    push_all_layers(&mut cases, p, &key, s, None, None, "multibyte-segments");
                    let _ = total;
                }
            }
        }
        // (3c) LONG expected footers (anything that encodes the expectation into a fixed-size buffer must cope), with 3- and 4-segment input
        for flen in [64usize, 191, 192, 193, 255, 256, 257, 767, 768, 769, 1023, 1024, 1025, 4096, 70_000] {
            let f = gens::ascii_of_len(flen, 3);
            for tok in ["a.b.c.d".to_string(), "...".to_string(), format!("{}AAAA.AAAA", p.header()), format!("{}AAAA.{}", p.header(), util::b64(f.as_bytes())), format!("{}AAAA", p.header())] {
                push_all_layers(&mut cases, p, &key, tok, Some(f.clone()), None, "long-expected-footer");
            }
            if let Some(t) = authentic(p, &key, &mut rng, "{\"a\":1}", Some(&f), None) {
                push_all_layers(&mut cases, p, &key, t.clone(), Some(f.clone()), None, "authentic+long-footer");
                push_all_layers(&mut cases, p, &key, t, Some(gens::ascii_of_len(flen + 1, 3)), None, "authentic+other-long-footer");
            }
            if p.has_assertion() {
                if let Some(t) = authentic(p, &key, &mut rng, "{\"a\":1}", None, Some(&f)) {
                    push_all_layers(&mut cases, p, &key, t, None, Some(f.clone()), "authentic+long-assertion");
                }
            }
        }
        // (3d) AUTHENTIC tokens whose payload is hostile: the claim handling of the upper layers (JSON parsing, default exp/nbf
        //      validators, date arithmetic) runs on authenticated but arbitrary content
        for payload in hostile_payloads(&mut rng, thorough) {
            if let Some(t) = authentic(p, &key, &mut rng, &payload, None, None) {
                push_all_layers(&mut cases, p, &key, t.clone(), None, None, "authentic+hostile-payload");
                // ... and through parsers that carry an expectation or validators (check_claim, validate_claim,
                // extend_validation_claims, extend_check_claims): their claim lookups run on the same arbitrary content
                let n = cases.len();
                // short payloads meet all four configurations, long ones one of them
                let cfgs: Vec<usize> = if payload.len() <= 200 { vec![1, 2, 3, 4] } else { vec![1 + n % 4] };
                for cfgn in cfgs {
                    for (layer, dp) in [(Layer::Generic, false), (Layer::Batteries, (n + cfgn) % 2 == 0)] {
                        cases.push(Case::Token { p, layer, default_parser: dp, key: key.clone(), token: t.clone(), footer: None, ia: None, class: format!("authentic+hostile-payload+configured-parser cfg={}", cfgn) });
                    }
                }
            }
        }
        let hdr = p.header();
        // (3e) LONG bodies (beyond any size threshold that switches to a table-driven or chunked path) with a few non-ASCII
        //      or non-alphabet bytes at the start, in the middle and at the end; with and without a matching footer segment
        for n in [1100usize, 5000, 70_000] {
            for (at, ch) in [(0usize, "\u{e9}"), (n / 2, "\u{e9}"), (n - 1, "\u{1F980}"), (n / 3, "\u{80}"), (n / 2, "\u{ff}"), (n - 2, "+"), (1023, "\u{20ac}"), (1024, "\u{e9}")] {
                let at = at.min(n - 1);
                let body = format!("{}{}{}", "A".repeat(at), ch, "A".repeat(n - 1 - at));
                push_all_layers(&mut cases, p, &key, format!("{}{}", hdr, body), None, None, "long-body+non-alphabet-byte");
                push_all_layers(&mut cases, p, &key, format!("{}{}.{}", hdr, body, footer_b64), Some(footer_txt.to_string()), None, "long-body+non-alphabet-byte+matching-footer");
            }
        }
        // (4) invalid base64 / padding / odd structure after a correct header
        let hdr = p.header();
        let bodies: Vec<String> = vec![
            "".into(), "A".into(), "AA".into(), "AAA".into(), "AAAA".into(), "A=".into(), "AA==".into(), "AAA=".into(), "====".into(), "+/+/".into(),
            "AAAA AAAA".into(), "AAAA\nAAAA".into(), "é".into(), "\0".into(), "AAAAA".into(), "AB".into(), "AAB".into(), "-_-_".into(), "%41%41".into(),
            "A".repeat(43), "A".repeat(44), "A".repeat(64), "A".repeat(65), "_".repeat(128), "\u{1F980}".repeat(10),
        ];
        for b in &bodies {
            push_all_layers(&mut cases, p, &key, format!("{}{}", hdr, b), None, None, "header+odd-body");
            push_all_layers(&mut cases, p, &key, format!("{}{}.", hdr, b), None, None, "header+odd-body+empty-footer");
            push_all_layers(&mut cases, p, &key, format!("{}{}.{}", hdr, b, b), Some("x".into()), None, "header+odd-body+odd-footer");
            push_all_layers(&mut cases, p, &key, format!("{}{}.{}.{}", hdr, b, b, b), None, None, "header+5-segments");
        }
        // (4b) one foreign character ('=', '+', '/', '%', blank, NUL, a multi-byte character ...) SUBSTITUTED or INSERTED at
        //      every position of short bodies and at the start / middle / end of longer ones (padding that is not at the end,
        //      the other alphabet's characters in the middle: whatever a "normalise and retry" step does with them)
        for n in [1usize, 2, 3, 4, 5, 8, 9, 12, 43, 44, 64, 86, 200] {
            let positions: Vec<usize> = if n <= 12 { (0..n).collect() } else { vec![0, 1, n / 2, n - 2, n - 1] };
            for &at in &positions {
                for ch in ["=", "==", "+", "/", "%", " ", "\0", "\u{e9}", "~", "=+"] {
                    let sub = format!("{}{}{}", "A".repeat(at), ch, "A".repeat(n - 1 - at));
                    let ins = format!("{}{}{}", "B".repeat(at), ch, "B".repeat(n - at));
                    for b in [sub, ins] {
                        push_all_layers(&mut cases, p, &key, format!("{}{}", hdr, b), None, None, "header+body-with-one-foreign-character");
                        if at % 2 == 0 {
                            push_all_layers(&mut cases, p, &key, format!("{}{}.{}", hdr, b, footer_b64), Some(footer_txt.to_string()), None, "header+body-with-one-foreign-character+matching-footer");
                            push_all_layers(&mut cases, p, &key, format!("{}AAAA.{}", hdr, b), Some("x".into()), None, "header+footer-segment-with-one-foreign-character");
                        }
                    }
                }
            }
        }
        // (4c) ONE parser object, re-configured BETWEEN parses (expectations and validators added one at a time and in bulk, footer
        //      and assertion changed) while authentic and hostile tokens are presented: state a parser derives lazily from its
        //      configuration must survive every order of calls
        {
            let ia = if p.has_assertion() { Some("ia") } else { None };
            let toks: Vec<String> = [
                authentic(p, &key, &mut rng, "{\"role\":\"admin\",\"seats\":4,\"aud\":\"customers\",\"exp\":\"2999-01-01T00:00:00+00:00\"}", Some("ftr"), ia),
                authentic(p, &key, &mut rng, "{\"role\":\"guest\",\"n\":[1,2,3]}", Some("ftr"), ia),
                authentic(p, &key, &mut rng, "[1,2]", Some("ftr"), ia),
                authentic(p, &key, &mut rng, "{}", None, None),
            ]
            .into_iter()
            .flatten()
            .chain([format!("{}AAAA", hdr), format!("{}AAAA.AAAA", hdr), String::new(), "a.b.c".to_string()])
            .collect();
            let nsess = if matches!(p, P::V1P | P::V3P) { if thorough { 60 } else { 8 } } else if thorough { 600 } else { 40 };
            for s in 0..nsess {
                let mut steps: Vec<PStep> = vec![PStep::SetFooter("ftr".into())];
                if let Some(a) = ia {
                    steps.push(PStep::SetAssertion(a.into()));
                }
                let claim = |rng: &mut Rng| -> Claim {
                    match rng.below(6) {
                        0 => Claim::Custom("role".into(), json!("admin")),
                        1 => Claim::Custom("seats".into(), json!(4)),
                        2 => Claim::Aud("customers".into()),
                        3 => Claim::Custom("absent".into(), json!(null)),
                        4 => Claim::Sub("nobody".into()),
                        _ => Claim::Custom("n".into(), json!([1, 2, 3])),
                    }
                };
                let n = 5 + rng.below(10);
                for _ in 0..n {
                    let st = match rng.below(10) {
                        0 | 1 | 2 | 3 => PStep::Parse { token: toks[rng.below(toks.len())].clone(), key: 0 },
                        4 => PStep::Check(claim(&mut rng)),
                        5 => PStep::CheckMany((0..1 + rng.below(3)).map(|_| claim(&mut rng)).collect()),
                        6 => PStep::Validate(VSpec { claim: claim(&mut rng), behave: VBehave::Accept, reg: if rng.chance(1, 2) { VReg::ExtendOnly } else { VReg::ValidateClaim }, second: false, odd: 0 }),
                        7 => PStep::ValidateMany((0..1 + rng.below(3)).map(|_| VSpec { claim: claim(&mut rng), behave: VBehave::AcceptIfPresent, reg: if rng.chance(1, 2) { VReg::ExtendOnly } else { VReg::ValidateClaim }, second: false, odd: 0 }).collect()),
                        8 => PStep::SetFooter(["ftr", "", "other"][rng.below(3)].into()),
                        _ => PStep::SetAssertion(["ia", "", "other"][rng.below(3)].into()),
                    };
                    steps.push(st);
                }
                steps.push(PStep::Parse { token: toks[0].clone(), key: 0 });
                let (batteries, dp) = [(false, false), (true, false), (true, true)][s % 3];
                cases.push(Case::Session { p, batteries, default_parser: dp, key: key.clone(), steps, class: "live-parser-reconfigured".into() });
            }
        }
        // (5) generic hostile strings to this protocol's entry points
        let mut generic: Vec<String> = vec![
            "".into(), ".".into(), "..".into(), "...".into(), "....".into(), ".....".into(), "v".into(), "v4".into(), "v4.".into(), "v4.local".into(), "v4.local.".into(),
            "v4.local..".into(), "v4.local...".into(), "V4.LOCAL.AAAA".into(), " v4.local.AAAA".into(), "v4.local.AAAA ".into(), "v5.local.AAAA".into(), "v4.secret.AAAA".into(),
            "v0.local.AAAA".into(), "v4.local.AAAA.AAAA.AAAA".into(), "\0".into(), "\u{feff}v4.local.AAAA".into(), "v4\u{2024}local\u{2024}AAAA".into(),
            "v1.local.".into(), "v2.public.".into(), "v3.public.".into(), "v1.public.".into(), "null".into(), "{}".into(), "[]".into(),
        ];
        for _ in 0..(if thorough { 30_000 } else { 300 }) {
            let segs = rng.below(7);
            let mut s = String::new();
            for i in 0..segs {
                if i > 0 {
                    s.push('.');
                }
                match rng.below(5) {
                    0 => s.push_str(&rng.utf8_upto(30)),
                    1 => s.push_str(&rng.alnum_upto(200)),
                    2 => s.push_str(["v1", "v2", "v3", "v4", "local", "public"][rng.below(6)]),
                    3 => s.push_str(&util::b64(&rng.bytes_upto(300))),
                    _ => {}
                }
            }
            generic.push(s);
        }
        for g in generic {
            push_all_layers(&mut cases, p, &key, g, None, None, "generic-hostile");
        }
        // (5b) every string of one or two characters from an alphabet of quotes, brackets, separators, white space and
        //      controls (anything that trims, unquotes or unwraps its input before parsing meets its shortest inputs), and
        //      half-wrapped authentic tokens
        let specials: Vec<char> = "\"'`<>()[]{}.,:;=&%+-_/\\ \t\n\r\0Av".chars().chain(['\u{e9}', '\u{feff}']).collect();
        for &a in &specials {
            push_all_layers(&mut cases, p, &key, a.to_string(), None, None, "one-special-character");
            for &b in &specials {
                push_all_layers(&mut cases, p, &key, format!("{}{}", a, b), None, None, "two-special-characters");
            }
        }
        if let Some(t) = &auth {
            for (pre, post) in [("\"", ""), ("", "\""), ("'", ""), ("", "'"), ("\"", "'"), ("<", ""), ("", ">"), ("Bearer", ""), ("Bearer ", ""), (" ", "\""), ("\" ", " \""), ("(", ")"), ("", "%")] {
                push_all_layers(&mut cases, p, &key, format!("{}{}{}", pre, t, post), None, None, "authentic-half-wrapped");
            }
        }
        // (6) other protocols' authentic tokens and relabelled ones presented here (overlaps C07; here only for crashes)
        for &q in &ALL {
            if q == p {
                continue;
            }
            let qk = pools.key(q, 0);
            for msg in ["", "x", "{\"a\":\"0123456789012345678901234567890123456789\"}"] {
                if let Some(t) = authentic(q, &qk, &mut rng, msg, None, None) {
                    push_all_layers(&mut cases, p, &key, t.clone(), None, None, "foreign-token");
                    let relabelled = format!("{}{}", p.header(), t.splitn(3, '.').nth(2).unwrap_or(""));
                    push_all_layers(&mut cases, p, &key, relabelled, None, None, "foreign-token-relabelled");
                }
            }
        }
        // (7) huge inputs
        if thorough {
            for n in [1usize << 20, (1 << 20) + 1, 3 << 20] {
                push_all_layers(&mut cases, p, &key, format!("{}{}", p.header(), "A".repeat(n)), None, None, "huge-valid-b64");
                push_all_layers(&mut cases, p, &key, ".".repeat(n), None, None, "huge-dots");
                push_all_layers(&mut cases, p, &key, "\u{1F980}".repeat(n / 4), None, None, "huge-unicode");
            }
        } else {
            push_all_layers(&mut cases, p, &key, format!("{}{}", p.header(), "A".repeat(1 << 18)), None, None, "large-valid-b64");
        }
        // (8) an unusable public key must yield Err, not a crash (garbage key material of the right length)
        if !p.is_local() {
            let mut bad = key.clone();
            for b in bad.pk.iter_mut() {
                *b = 0xff;
            }
            if p == P::V3P {
                bad.pk[0] = 2;
            }
            if let Some(t) = &auth {
                push_all_layers(&mut cases, p, &bad, t.clone(), None, None, "authentic-token+garbage-key");
                push_all_layers(&mut cases, p, &bad, format!("{}AAAA", p.header()), None, None, "short-token+garbage-key");
            }
            if p == P::V1P {
                let mut k2 = key.clone();
                k2.pk = vec![];
                push_all_layers(&mut cases, p, &k2, auth.clone().unwrap_or_default(), None, None, "authentic-token+empty-key");
                k2.pk = rng.bytes(270);
                push_all_layers(&mut cases, p, &k2, auth.clone().unwrap_or_default(), None, None, "authentic-token+random-der");
            }
        }
    }
    // Key::<N>::try_from(&str): hex strings of every length 0..=200 (valid hex digits), plus non-hex text
    for &n in &KEY_SIZES {
        for len in 0..=200usize {
            let text: String = (0..len).map(|i| b"0123456789abcdefABCDEF"[(i * 7 + n) % 22] as char).collect();
            cases.push(Case::KeyHex { n, text, class: "hex-digits".into() });
        }
        for t in ["zz", "0x00", " 00", "00 ", "é", "\0\0", "0g", "--", "0".repeat(2 * n + 1).as_str(), "0".repeat(2 * n + 2).as_str(), "f".repeat(2 * n).as_str()] {
            cases.push(Case::KeyHex { n, text: t.to_string(), class: "non-hex-or-near".into() });
        }
        for _ in 0..(if thorough { 2000 } else { 100 }) {
            let t = if rng.chance(1, 2) { util::hex(&rng.bytes_upto(140)) } else { rng.utf8_upto(80) };
            cases.push(Case::KeyHex { n, text: t, class: "random".into() });
        }
    }
    cases
}

pub fn run(tier: &str, seed: u64) -> Report {
    let pools = Pools::new(seed, 4, 2);
    if pools.rsa.is_empty() {
        let mut r = Report::new();
        r.inconclusive.push("no RSA key fixtures found".into());
        return r;
    }
    let cases = build_cases(tier, seed, &pools);
    let threads = if std::env::var("VERIF_JOURNAL").is_ok() { 1 } else { util::threads() };
    // optional sharding for the sanitizer passes: VERIF_SHARD=i/n keeps every n-th case
    let (si, sn) = std::env::var("VERIF_SHARD").ok().and_then(|s| s.split_once('/').map(|(a, b)| (a.parse::<usize>().unwrap_or(0), b.parse::<usize>().unwrap_or(1)))).unwrap_or((0, 1));
    let idx: Vec<usize> = (0..cases.len()).filter(|i| i % sn.max(1) == si).collect();
    let mut total = parallel(idx.len(), threads, |i, r| run_case(&cases[idx[i]], r));
    if sn == 1 {
        for &p in &ALL {
            for l in LAYERS {
                total.require(&format!("{}/{} returned-err", p.name(), l.name()), 100);
            }
        }
        total.require("keyhex returned-err", 100);
        total.require("keyhex returned-ok", 8);
    }
    total
}

pub fn replay(case: &Value) -> Report {
    let mut r = Report::new();
    match serde_json::from_value::<Case>(case.clone()) {
        Ok(c) => run_case(&c, &mut r),
        Err(e) => r.inconclusive.push(format!("cannot decode replay case: {}", e)),
    }
    r
}

pub const RULE: &str = "cases = for each of the 8 protocols x 4 entry points (core, generic, batteries new(), batteries default()): the correct header followed by base64url of EVERY decoded length 0..=400 (thorough 0..=2000) with zero/random/authentic-prefix fill, every length up to 1100 (thorough 4200) with one fill, and the lengths within 4 of every power of two and of three times a power of two up to 96 KiB, with and without a matching footer segment; random larger payloads; every character prefix and several extensions of authentic tokens; multi-byte characters substituted and inserted at each of the first 14 positions (so that byte offsets near the header length are not character boundaries); invalid/padded/non-alphabet base64, incl. one foreign character ('=', '+', '/', '%', blank, NUL, multi-byte) substituted or inserted at every position of short payload / footer segments and at the ends and middle of longer ones; 0-6 segment strings of arbitrary Unicode; foreign and relabelled tokens; large inputs; expected footers/assertions of 64..70000 bytes with 3- and 4-segment input; AUTHENTIC tokens carrying hostile payloads (non-JSON, non-object, extreme/malformed exp/nbf/iat incl. the edges of year 0 and 9999 with offsets, leap seconds, huge numbers, nesting to depth 5000, 100 KB strings, 2000 members), each also through upper-layer parsers configured with check_claim / validate_claim / extend_validation_claims / extend_check_claims for present and absent keys; garbage public keys; live-parser SESSIONS (one GenericParser / PasetoParser object re-configured between parses - expectations and validators one at a time and in bulk, footer and assertion changed - while authentic and hostile tokens are presented); and Key::<N>::try_from(&str) for N in {1,2,24,32,48,49,56,64} on hex strings of every length 0..=200 plus non-hex text. All with VALID key material so that parsing proceeds past key handling. Oracle: any Ok/Err is fine, a panic or process death is the violation. distinct_nontrivial = distinct (entry point, case class, outcome variant) tuples whose input got past the segment-count and header checks";
