//! C11 (exp) and C12 (nbf): the default batteries-included parser enforces the time claims.
//! Oracle: the instant is known by construction; renderings come from the harness's own
//! civil-date arithmetic (Hinnant's algorithms), independent of the `time` and `iso8601` crates.
use crate::gens::Pools;
use crate::proto::*;
use crate::report::{parallel, Report};
use crate::rng::Rng;
use crate::util;
use serde::{Deserialize, Serialize};
use serde_json::{json, Value};

// ---------------- own calendar ----------------
pub fn days_from_civil(y: i64, m: u32, d: u32) -> i64 {
    let y = if m <= 2 { y - 1 } else { y };
    let era = if y >= 0 { y } else { y - 399 } / 400;
    let yoe = y - era * 400;
    let mp = (m as i64 + 9) % 12;
    let doy = (153 * mp + 2) / 5 + d as i64 - 1;
    let doe = yoe * 365 + yoe / 4 - yoe / 100 + doy;
    era * 146097 + doe - 719468
}
pub fn civil_from_days(z: i64) -> (i64, u32, u32) {
    let z = z + 719468;
    let era = if z >= 0 { z } else { z - 146096 } / 146097;
    let doe = z - era * 146097;
    let yoe = (doe - doe / 1460 + doe / 36524 - doe / 146096) / 365;
    let y = yoe + era * 400;
    let doy = doe - (365 * yoe + yoe / 4 - yoe / 100);
    let mp = (5 * doy + 2) / 153;
    let d = (doy - (153 * mp + 2) / 5 + 1) as u32;
    let m = if mp < 10 { mp + 3 } else { mp - 9 } as u32;
    (if m <= 2 { y + 1 } else { y }, m, d)
}

#[derive(Clone, Copy, Debug, Serialize, Deserialize, PartialEq)]
pub enum Style {
    /// 'T' and 'Z'/numeric offset, upper case: strict RFC 3339 as the property states it
    Strict,
    /// offset zero written as "Z"
    StrictZ,
    /// offset zero written as "-00:00"
    MinusZero,
    /// space instead of 'T' (RFC 3339 section 5.6 note; lenient)
    Space,
    /// lower-case 't'
    LowerT,
    /// lower-case 'z' for offset zero
    LowerZ,
    /// space separator with "Z" (the 20-byte whole-second layout with a non-'T' separator)
    SpaceZ,
    /// lower-case 't' with "Z"
    LowerTZ,
    /// lower-case 't' and 'z'
    LowerTLowerZ,
}

impl Style {
    pub fn strict(self) -> bool {
        matches!(self, Style::Strict | Style::StrictZ | Style::MinusZero)
    }
}

/// render unix time `t` (+ nanos) as seen at UTC offset `off_min`, with `frac` fractional digits (truncating)
pub fn render(t: i64, nanos: u32, off_min: i32, frac: usize, style: Style) -> String {
    let local = t + off_min as i64 * 60;
    let days = local.div_euclid(86400);
    let sod = local.rem_euclid(86400);
    let (y, m, d) = civil_from_days(days);
    let (hh, mm, ss) = (sod / 3600, sod % 3600 / 60, sod % 60);
    let sep = match style {
        Style::Space | Style::SpaceZ => ' ',
        Style::LowerT | Style::LowerTZ | Style::LowerTLowerZ => 't',
        _ => 'T',
    };
    let mut s = format!("{:04}-{:02}-{:02}{}{:02}:{:02}:{:02}", y, m, d, sep, hh, mm, ss);
    if frac > 0 {
        let mut f = format!("{:09}", nanos);
        // beyond nanoseconds (RFC 3339 sets no upper bound on the fraction): further digits derived from `nanos`
        while f.len() < frac {
            f.push(char::from(b'0' + ((nanos as usize / 7 + f.len() * 7) % 10) as u8));
        }
        s.push('.');
        s.push_str(&f[..frac]);
    }
    match (style, off_min) {
        (Style::StrictZ | Style::SpaceZ | Style::LowerTZ, 0) => s.push('Z'),
        (Style::LowerZ | Style::LowerTLowerZ, 0) => s.push('z'),
        (Style::MinusZero, 0) => s.push_str("-00:00"),
        _ => {
            let a = off_min.abs();
            s.push(if off_min < 0 { '-' } else { '+' });
            s.push_str(&format!("{:02}:{:02}", a / 60, a % 60));
        }
    }
    s
}

#[derive(Clone, Debug, Serialize, Deserialize)]
pub enum When {
    /// seconds relative to the harness clock at evaluation time
    Rel(i64),
    /// absolute unix seconds
    Abs(i64),
}

#[derive(Clone, Debug, Serialize, Deserialize)]
pub enum Val {
    Time { when: When, nanos: u32, off_min: i32, frac: usize, style: Style },
    Raw(Value),
    Absent,
}

#[derive(Clone, Copy, Debug, Serialize, Deserialize, PartialEq)]
pub enum Expect {
    Accept,
    Reject,
    Either,
}

#[derive(Clone, Debug, Serialize, Deserialize)]
pub struct Case {
    pub p: P,
    pub key: KeyMat,
    pub exp: Val,
    pub nbf: Val,
    pub class: String,
    /// also call check_claim(exp|nbf = the token's own value) on the default parser: the time check must still apply
    #[serde(default)]
    pub also_check_claim: bool,
    /// other members placed around the top-level exp/nbf that must not matter (0 = none): nested objects and arrays whose
    /// members are NAMED exp/nbf with the opposite verdict, strings that contain the member syntax, look-alike keys
    #[serde(default)]
    pub surround: u8,
}

fn now_secs() -> i64 {
    (util::now_unix_nanos() / 1_000_000_000) as i64
}

/// (json value or None, verdict contribution for a claim that rejects when `reject_if_future` == is-future)
fn realise(v: &Val, now: i64, is_exp: bool) -> (Option<Value>, Expect, bool /*future-sensitive*/) {
    match v {
        Val::Absent => (None, Expect::Accept, false),
        Val::Raw(j) => (Some(j.clone()), if j.is_null() { Expect::Accept } else { Expect::Reject }, false),
        Val::Time { when, nanos, off_min, frac, style } => {
            let t = match when {
                When::Rel(d) => now + d,
                When::Abs(a) => *a,
            };
            let s = render(t, *nanos, *off_min, *frac, *style);
            let future = t > now;
            // exp: reject iff not in the future; nbf: reject iff in the future
            let ok = if is_exp { future } else { !future };
            let e = if !ok {
                Expect::Reject
            } else if style.strict() || matches!(style, Style::Space | Style::SpaceZ) {
                // the property's quantifier names the ' ' separator next to 'T': in-window renderings with a space are accepted
                Expect::Accept
            } else {
                Expect::Either
            };
            (Some(json!(s)), e, ok)
        }
    }
}

pub fn run_case(c: &Case, r: &mut Report, prop: &str) {
    r.evaluations += 1;
    let now0 = now_secs();
    let (ev, ee, e_future) = realise(&c.exp, now0, true);
    let (nv, ne, n_future) = realise(&c.nbf, now0, false);
    let mut obj = serde_json::Map::new();
    obj.insert("data".into(), json!("time-claim probe"));
    if let Some(v) = &ev {
        obj.insert("exp".into(), v.clone());
    }
    if let Some(v) = &nv {
        obj.insert("nbf".into(), v.clone());
    }
    match c.surround {
        0 => {}
        1 => {
            obj.insert("previous".into(), json!({"exp": "2001-01-01T00:00:00Z", "nbf": "2999-01-01T00:00:00Z", "iat": "2999-01-01T00:00:00Z"}));
        }
        2 => {
            obj.insert("history".into(), json!([{"nbf": "2999-01-01T00:00:00Z"}, {"nbf": 7}, {"exp": "2001-01-01T00:00:00Z"}, {"exp": null, "nbf": null}]));
            obj.insert("zz".into(), json!({"a": {"exp": "never", "nbf": "never"}}));
        }
        3 => {
            obj.insert("note".into(), json!("\"exp\":\"2001-01-01T00:00:00Z\",\"nbf\":\"2999-01-01T00:00:00Z\""));
            obj.insert("exp ".into(), json!("2001-01-01T00:00:00Z"));
            obj.insert("nbf2".into(), json!("2999-01-01T00:00:00Z"));
            obj.insert("EXP".into(), json!(0));
            obj.insert("Nbf".into(), json!("2999-01-01T00:00:00Z"));
            obj.insert("\"nbf\":".into(), json!("\"exp\":"));
        }
        // 5..=7: the SAME members, spelled differently in the JSON text (see below)
        5..=7 => {}
        _ => {
            for i in 0..120 {
                obj.insert(format!("claim-{:03}", i), json!({"i": i, "s": "x".repeat(i % 17)}));
            }
            obj.insert("aud".into(), json!("nbf"));
            obj.insert("sub".into(), json!("exp"));
            obj.insert("iat".into(), json!("2999-01-01T00:00:00Z"));
        }
    }
    let original = Value::Object(obj);
    let mut payload = original.to_string();
    // another implementation's spelling of the very same JSON value: escapes in member names (5), escapes inside the string
    // values (6), insignificant white space (7).  The claims are what they were; so is the verdict.
    match c.surround {
        5 => {
            payload = payload.replacen("\"exp\":", "\"\\u0065xp\":", 1).replacen("\"nbf\":", "\"nb\\u0066\":", 1);
        }
        6 => {
            for v in [&ev, &nv] {
                if let Some(Value::String(s)) = v {
                    let plain = Value::String(s.clone()).to_string();
                    let esc: String = s.chars().enumerate().map(|(i, ch)| if ch.is_ascii() && !ch.is_ascii_control() && ch != '"' && ch != '\\' && (i % 3 == 0 || "T+:Z".contains(ch)) { format!("\\u{:04x}", ch as u32) } else { { let j = Value::String(ch.to_string()).to_string(); j[1..j.len() - 1].to_string() } }).collect();
                    payload = payload.replacen(&plain, &format!("\"{}\"", esc), 1);
                }
            }
        }
        7 => {
            payload = serde_json::to_string_pretty(&serde_json::from_str::<Value>(&payload).unwrap_or(Value::Null)).unwrap_or(payload.clone()).replace(": ", " :\t");
        }
        _ => {}
    }
    if (5..=7).contains(&c.surround) {
        // harness self-check: the re-spelled text must denote the very same JSON value
        if serde_json::from_str::<Value>(&payload).ok().as_ref() != Some(&original) {
            r.inconclusive.push(format!("harness: re-spelled payload is not the same JSON value: {}", util::clip(&payload, 200)));
            return;
        }
        r.count(&format!("payload spelling {} presented", c.surround));
    }
    let expect = match (ee, ne) {
        (Expect::Reject, _) | (_, Expect::Reject) => Expect::Reject,
        (Expect::Either, _) | (_, Expect::Either) => Expect::Either,
        _ => Expect::Accept,
    };
    let mut rng = Rng::new(now0 as u64, "c11-nonce", r.evaluations);
    // every fifth token carries a footer and (v3/v4) an implicit assertion, which the default parser is then given through its
    // setters AFTER PasetoParser::default() (in either order): configuring the parser must not cost it its time validators
    let with_extras = r.evaluations % 5 == 0;
    let (tf, ta) = if with_extras { (Some("time-probe-footer"), if c.p.has_assertion() { Some("time-probe-assertion") } else { None }) } else { (None, None) };
    let token = match core_seal(c.p, &c.key, &rng.bytes(32), &payload, tf, ta).0 {
        Out::Ok(t) => t,
        o => {
            r.inconclusive.push(format!("could not seal a probe token for {}: {}", c.p.name(), o.brief()));
            return;
        }
    };
    let mut cfg = ParserCfg { default_parser: true, footer: tf.map(|s| s.to_string()), assertion: ta.map(|s| s.to_string()), assertion_first: r.evaluations % 10 == 0, ..Default::default() };
    if with_extras {
        r.count("default parser configured with footer / implicit assertion after default()");
    }
    if c.also_check_claim {
        // ... and an expectation on ANOTHER claim that the token satisfies (the time validators must still all run)
        cfg.expected.push(Claim::Custom("data".into(), json!("time-claim probe")));
        if !c.class.ends_with("+check_claim(other)") {
            // ... plus the token's own time values (the "(other)" class registers ONLY the other claim)
            if let Some(Value::String(s)) = &ev {
                cfg.expected.push(Claim::Exp(s.clone()));
            }
            if let Some(Value::String(s)) = &nv {
                cfg.expected.push(Claim::Nbf(s.clone()));
            }
        }
    }
    let (out, _) = batteries_open(c.p, &c.key, &token, &cfg);
    if matches!(&out, Out::Err(e) if e.starts_with("ClaimCtor/")) {
        // the typed constructor used to REGISTER the expectation refused the spelling (it wants an upper-case 'T'): the parser
        // was never asked - no verdict
        r.discard("expectation not expressible through the typed claim constructor");
        return;
    }
    let now1 = now_secs();
    let tag = c.p.name();
    // clock guard: an expected-accept that depends on an instant being "in the future"/"in the past" relative to
    // now is only meaningful if the machine did not stall; margins are 60 s / 2 s, discard beyond 30 s
    if now1 - now0 > 30 && ((e_future && matches!(c.exp, Val::Time { when: When::Rel(_), .. })) || (n_future && matches!(c.nbf, Val::Time { when: When::Rel(_), .. }))) {
        r.discard("machine stalled > 30 s between generation and parse");
        return;
    }
    let replay = || json!({"cmd": prop, "case": c});
    let shown = format!("exp={} nbf={}", ev.as_ref().map(|v| v.to_string()).unwrap_or("(absent)".into()), nv.as_ref().map(|v| v.to_string()).unwrap_or("(absent)".into()));
    match (&out, expect) {
        (Out::Panic(loc), _) => r.violation(format!("{} panic {}", prop, tag), format!("{}: default parser panicked on {}: {}", tag, shown, loc), replay()),
        (Out::Ok(_), Expect::Reject) => {
            let kind = match (&c.exp, &c.nbf) {
                (Val::Raw(j), _) if prop == "C11" => format!("non-timestamp-accepted type={}", jtype(j)),
                (_, Val::Raw(j)) if prop == "C12" => format!("non-timestamp-accepted type={}", jtype(j)),
                _ => "out-of-window-accepted".to_string(),
            };
            r.violation(
                format!("{} {} {} class={}", prop, kind, tag, c.class),
                format!("{}: PasetoParser::default() ACCEPTED a token with {} (class {}); harness clock {}", tag, shown, c.class, render(now0, 0, 0, 0, Style::StrictZ)),
                replay(),
            );
        }
        (Out::Err(e), Expect::Accept) => r.violation(
            format!("{} valid-token-rejected {} err={} class={}", prop, tag, e, c.class),
            format!("{}: PasetoParser::default() REJECTED ({}) a token with {} (class {}); harness clock {}", tag, e, shown, c.class, render(now0, 0, 0, 0, Style::StrictZ)),
            replay(),
        ),
        (Out::Ok(_), _) => {
            r.count(&format!("{} accepted[{}]", tag, c.class));
            r.distinct(format!("{}|acc|{}|{}", tag, c.class, sigval(&c.exp, &c.nbf)));
        }
        (Out::Err(e), _) => {
            r.count(&format!("{} rejected[{}]", tag, c.class));
            r.see(&format!("rejection-variants {}", c.class), e);
            r.distinct(format!("{}|rej|{}|{}", tag, c.class, sigval(&c.exp, &c.nbf)));
            if expect == Expect::Either {
                r.count(&format!("{} lenient-rendering-rejected", tag));
            }
        }
    }
    if expect == Expect::Either && out.is_ok() {
        r.count(&format!("{} lenient-rendering-accepted", tag));
    }
    if r.samples.len() < 10 && r.evaluations % 7919 == 11 {
        r.sample(json!({"protocol": tag, "class": c.class, "payload": payload, "expected": format!("{:?}", expect), "outcome": out.brief()}));
    }
}

fn jtype(j: &Value) -> &'static str {
    match j {
        Value::Null => "null",
        Value::Bool(_) => "bool",
        Value::Number(_) => "number",
        Value::String(s) if s.is_empty() => "empty-string",
        Value::String(_) => "string",
        Value::Array(_) => "array",
        Value::Object(_) => "object",
    }
}

fn sigval(e: &Val, n: &Val) -> String {
    let one = |v: &Val| match v {
        Val::Absent => "absent".to_string(),
        Val::Raw(j) => format!("raw:{}", jtype(j)),
        Val::Time { when, off_min, frac, style, .. } => format!("{:?}|o{}|f{}|{:?}", when, off_min, frac, style),
    };
    format!("{}/{}", one(e), one(n))
}

pub fn non_timestamps() -> Vec<Value> {
    let mut v = vec![
        json!(0), json!(1), json!(12345), json!(-1), json!(99999999999u64), json!(253402300799u64), json!(1.5), json!(true), json!(false), json!([]), json!(["2999-01-01T00:00:00Z"]),
        json!({}), json!({"exp": "2999-01-01T00:00:00Z"}), json!(""), json!(" "), json!("never"), json!("tomorrow"), json!("2999"), json!("2999-01-01"), json!("2999-01-01T00:00:00"),
        json!("2999-01-01T00:00Z"), json!("2999-13-01T00:00:00Z"), json!("2999-02-30T00:00:00Z"), json!("2999-01-01T25:00:00Z"), json!("2999-01-01T00:61:00Z"), json!("29990101T000000Z"),
        json!("2999-01-01T00:00:00+0000"), json!("2999-01-01T00:00:00 UTC"), json!("2999-01-01T00:00:00Z trailing"), json!(" 2999-01-01T00:00:00Z"), json!("Mon, 01 Jan 2999 00:00:00 GMT"),
        json!("32503680000"), json!("null"), json!("true"), json!("\u{0}"), json!("2999-01-01T00:00:00+24:00"), json!("2999-01-01T00:00:00.Z"), json!("+2999-01-01T00:00:00Z"),
        json!("2999-1-1T0:0:0Z"), json!("２９９９-01-01T00:00:00Z"),
        json!("2999-02-29T00:00:00Z"), json!("2999-04-31T00:00:00Z"), json!("2999-00-10T00:00:00Z"), json!("2999-01-00T00:00:00Z"), json!("2999-01-01T24:00:00Z"), json!("2999-01-01T00:00:61Z"),
        json!("2999-01-01T00:00:00+00"), json!("2999-001T00:00:00Z"), json!("2999-W01-1T00:00:00Z"), json!("2999-01-01T00:00:00,5Z"), json!("2999-01-01T00:00.5Z"), json!("+002999-01-01T00:00:00Z"),
        json!("2999-01-01T00:00:00+25:00"), json!("2999-01-01T00:00:00+00:60"),
        // objects that merely look like serde_json's private raw-value / number encodings
        json!({"$serde_json::private::RawValue": "null"}), json!({"$serde_json::private::RawValue": "\"2999-01-01T00:00:00Z\""}), json!({"$serde_json::private::RawValue": "\"2001-01-01T00:00:00Z\""}),
        json!({"$serde_json::private::Number": "4102444800"}),
    ];
    // every near-miss once more in the PAST (2001 is not a leap year either): nbf accepts what sorts before now
    let past: Vec<Value> = v.iter().filter_map(|x| x.as_str()).filter(|s| s.contains("2999")).map(|s| json!(s.replace("2999", "2001"))).collect();
    v.extend(past);
    v
}

fn instants() -> Vec<(When, bool /*past*/)> {
    vec![
        (When::Rel(-2), true),
        (When::Rel(-60), true),
        (When::Rel(-3600), true),
        (When::Rel(-86400), true),
        (When::Rel(-31_536_000), true),
        (When::Abs(946_684_800), true),  // 2000-01-01T00:00:00Z
        (When::Abs(45_964_800), true),   // 1971-06-17
        (When::Rel(60), false),
        (When::Rel(3600), false),
        (When::Rel(86400), false),
        (When::Rel(31_536_000), false),
        (When::Abs(32_472_144_000), false),  // 2999-01-01
        (When::Abs(221_845_392_000), false), // 9000-01-01
        // distances around 2^63 ns (292.3 years), 2^64 ns (584.5 years) and 2^32 / 2^31 seconds (136 / 68 years)
        (When::Rel(2_147_483_648 - 30), false),
        (When::Rel(2_147_483_648 + 30), false),
        (When::Rel(4_294_967_296 + 30), false),
        (When::Rel(9_223_372_036 - 60), false),
        (When::Rel(9_223_372_036 + 60), false),
        (When::Rel(15_000_000_000), false),
        (When::Rel(18_446_744_073 + 60), false),
        (When::Rel(100_000_000_000), false),
    ]
}

pub fn build_cases(prop: &str, tier: &str, seed: u64, pools: &Pools) -> Vec<Case> {
    let is_exp = prop == "C11";
    let thorough = tier == "thorough";
    let mut rng = Rng::new(seed, "c11", is_exp as u64);
    let mut cases = Vec::new();
    let mk = |p: P, v: Val, class: &str, other: Val| -> Case {
        let key = pools.key(p, 0);
        if is_exp {
            Case { p, key, exp: v, nbf: other, class: class.to_string(), also_check_claim: false, surround: 0 }
        } else {
            Case { p, key, exp: other, nbf: v, class: class.to_string(), also_check_claim: false, surround: 0 }
        }
    };
    // full rendering space on the cheap protocols
    let full: Vec<P> = if thorough { vec![P::V1L, P::V2L, P::V3L, P::V4L, P::V2P, P::V4P] } else { vec![P::V4L] };
    for &p in &full {
        for (when, past) in instants() {
            for off in -1439..=1439i32 {
                for frac in 0..=9usize {
                    let nanos = (rng.next() % 1_000_000_000) as u32;
                    let class = if past { "strict-past" } else { "strict-future" };
                    cases.push(mk(p, Val::Time { when: when.clone(), nanos, off_min: off, frac, style: Style::Strict }, class, Val::Absent));
                }
            }
            // zero-offset spellings and lenient variants
            for frac in 0..=9usize {
                for style in [Style::StrictZ, Style::MinusZero, Style::Space, Style::LowerT, Style::LowerZ, Style::SpaceZ, Style::LowerTZ, Style::LowerTLowerZ] {
                    let nanos = (rng.next() % 1_000_000_000) as u32;
                    let class = match (style.strict(), past) {
                        (true, true) => "strict-past",
                        (true, false) => "strict-future",
                        (false, true) => "lenient-past",
                        (false, false) => "lenient-future",
                    };
                    cases.push(mk(p, Val::Time { when: when.clone(), nanos, off_min: 0, frac, style }, class, Val::Absent));
                    // lenient separators with non-zero offsets too
                    if matches!(style, Style::Space | Style::LowerT) {
                        for off in [-1439, -720, -1, 1, 330, 1439] {
                            cases.push(mk(p, Val::Time { when: when.clone(), nanos, off_min: off, frac, style }, class, Val::Absent));
                        }
                    }
                }
            }
        }
    }
    // the edges of the four-digit-year range: year 0000 / 0001 (past) and instants whose UTC reading lies BEYOND year 9999
    // while their local rendering (negative offset) is still a valid four-digit-year string (future)
    for &p in &[P::V4L, P::V2L, P::V4P] {
        for (t, past) in [(-62_167_219_200i64, true), (-62_135_683_200, true), (-62_135_596_800, true), (-62_167_132_801, true), (253_402_300_799, false), (253_402_300_800, false), (253_402_300_859, false), (253_402_304_400, false), (253_402_387_139, false)] {
            for off in (-1439..=1439i32).filter(|o| o % 7 == 0 || o.abs() <= 2 || o.abs() >= 1438) {
                let ly = civil_from_days((t + off as i64 * 60).div_euclid(86400)).0;
                if !(0..=9999).contains(&ly) {
                    continue;
                }
                for frac in [0usize, 9] {
                    let nanos = (rng.next() % 1_000_000_000) as u32;
                    let class = if past { "strict-past" } else { "strict-future" };
                    cases.push(mk(p, Val::Time { when: When::Abs(t), nanos, off_min: off, frac, style: Style::Strict }, class, Val::Absent));
                }
            }
        }
    }
    // fractions LONGER than nanoseconds (10..=40 digits; RFC 3339: time-secfrac = "." 1*DIGIT): the instant is the same to the
    // nanosecond, the digit string overflows a u32 / u64 / u128 when read as one integer
    for &p in &[P::V4L, P::V2L, P::V4P, P::V3L] {
        for (when, past) in instants() {
            for frac in [10usize, 11, 12, 15, 19, 20, 21, 30, 39, 40] {
                for (off, style) in [(0, Style::StrictZ), (0, Style::Strict), (-480, Style::Strict), (330, Style::Strict), (0, Style::MinusZero)] {
                    let nanos = (rng.next() % 1_000_000_000) as u32;
                    let class = if past { "strict-past" } else { "strict-future" };
                    cases.push(mk(p, Val::Time { when: when.clone(), nanos, off_min: off, frac, style }, class, Val::Absent));
                }
            }
        }
    }
    // sampled renderings on the other protocols
    let nsample = if thorough { 60_000 } else { 500 };
    for &p in &ALL {
        if full.contains(&p) {
            continue;
        }
        let ins = instants();
        for k in 0..nsample {
            let (when, past) = ins[k % ins.len()].clone();
            let style = *rng.pick(&[Style::Strict, Style::Strict, Style::Strict, Style::StrictZ, Style::MinusZero, Style::Space, Style::LowerT, Style::LowerZ, Style::SpaceZ, Style::LowerTZ, Style::LowerTLowerZ]);
            let off = if matches!(style, Style::StrictZ | Style::MinusZero | Style::LowerZ | Style::SpaceZ | Style::LowerTZ | Style::LowerTLowerZ) { 0 } else { rng.below(2879) as i32 - 1439 };
            let class = match (style.strict(), past) {
                (true, true) => "strict-past",
                (true, false) => "strict-future",
                (false, true) => "lenient-past",
                (false, false) => "lenient-future",
            };
            let nanos = (rng.next() % 1_000_000_000) as u32;
            let frac = rng.below(10);
            cases.push(mk(p, Val::Time { when, nanos, off_min: off, frac, style }, class, Val::Absent));
        }
    }
    // non-timestamps, null, absent: every protocol
    for &p in &ALL {
        for j in non_timestamps() {
            cases.push(mk(p, Val::Raw(j), "non-timestamp", Val::Absent));
        }
        cases.push(mk(p, Val::Raw(Value::Null), "null", Val::Absent));
        cases.push(mk(p, Val::Absent, "absent", Val::Absent));
        // random garbage strings that cannot be RFC 3339 (no digit at the start)
        for _ in 0..(if thorough { 400 } else { 40 }) {
            let n = rng.range(1, 30);
            let mut s = rng.utf8(n);
            if s.chars().next().map(|c| c.is_ascii_digit()).unwrap_or(false) {
                s.insert(0, 'x');
            }
            cases.push(mk(p, Val::Raw(json!(s)), "non-timestamp", Val::Absent));
        }
    }
    // C12: independent combinations of (exp, nbf) in {past, future, absent}
    if !is_exp {
        let t = |d: i64| Val::Time { when: When::Rel(d), nanos: 0, off_min: 0, frac: 0, style: Style::StrictZ };
        for &p in &ALL {
            for (en, e) in [("past", t(-3600)), ("future", t(3600)), ("absent", Val::Absent)] {
                for (nn, n) in [("past", t(-3600)), ("future", t(3600)), ("absent", Val::Absent)] {
                    for off in [-720, 0, 345] {
                        let shift = |v: &Val| match v {
                            Val::Time { when, nanos, frac, .. } => Val::Time { when: when.clone(), nanos: *nanos, off_min: off, frac: *frac, style: Style::Strict },
                            o => o.clone(),
                        };
                        cases.push(Case { p, key: pools.key(p, 0), exp: shift(&e), nbf: shift(&n), class: format!("grid exp={} nbf={}", en, nn), also_check_claim: false, surround: 0 });
                        if off == 0 {
                            cases.push(Case { p, key: pools.key(p, 0), exp: shift(&e), nbf: shift(&n), class: format!("grid+check_claim exp={} nbf={}", en, nn), also_check_claim: true, surround: 0 });
                        }
                    }
                }
            }
        }
    }
    // every 89th strict-rendering case once more with check_claim(<same value>) registered on the default parser
    let extra: Vec<Case> = cases
        .iter()
        .enumerate()
        .filter(|(i, c)| i % 89 == 0 && (c.class == "strict-past" || c.class == "strict-future"))
        .map(|(_, c)| {
            let mut d = c.clone();
            d.also_check_claim = true;
            d.class = format!("{}+check_claim", c.class);
            d
        })
        .collect();
    cases.extend(extra);
    // every 61st case of any class (incl. the non-timestamps) once more with check_claim on another, matching claim only
    let extra2: Vec<Case> = cases
        .iter()
        .enumerate()
        .filter(|(i, c)| i % 61 == 7 && !c.also_check_claim)
        .map(|(_, c)| {
            let mut d = c.clone();
            d.also_check_claim = true;
            d.class = format!("{}+check_claim(other)", c.class);
            d
        })
        .collect();
    cases.extend(extra2);
    // every 23rd case once more with other members around the time claims that must not matter
    let extra3: Vec<Case> = cases
        .iter()
        .enumerate()
        .filter(|(i, _)| i % 23 == 5)
        .map(|(i, c)| {
            let mut d = c.clone();
            d.surround = 1 + ((i / 23) % 4) as u8;
            d.class = format!("{}+surround{}", c.class, d.surround);
            d
        })
        .collect();
    cases.extend(extra3);
    // every 29th case once more with the payload SPELLED as another implementation might (escaped member names, escaped
    // characters inside the values, insignificant white space): same JSON value, same verdict
    let extra4: Vec<Case> = cases
        .iter()
        .enumerate()
        .filter(|(i, c)| i % 29 == 11 && c.surround == 0)
        .map(|(i, c)| {
            let mut d = c.clone();
            d.surround = 5 + ((i / 29) % 3) as u8;
            d.class = format!("{}+spelling{}", c.class, d.surround);
            d
        })
        .collect();
    cases.extend(extra4);
    cases
}

pub fn run(prop: &str, tier: &str, seed: u64) -> Report {
    let pools = Pools::new(seed, 2, 2);
    let mut total = Report::new();
    if pools.rsa.is_empty() {
        total.inconclusive.push("no RSA key fixtures found".into());
        return total;
    }
    // self-test of the harness calendar against two fixed points (a wrong oracle must not produce verdicts)
    if render(946_684_800, 0, 0, 0, Style::StrictZ) != "2000-01-01T00:00:00Z" || render(32_472_144_000, 123_000_000, -330, 3, Style::Strict) != "2998-12-31T18:30:00.123-05:30" || days_from_civil(1970, 1, 1) != 0 {
        total.inconclusive.push("harness calendar self-test failed".into());
        return total;
    }
    let cases = build_cases(prop, tier, seed, &pools);
    let r = parallel(cases.len(), util::threads(), |i, r| run_case(&cases[i], r, prop));
    total.merge(r);
    total.merge(clock_progress(prop, &pools));
    total.merge(virtual_clock(prop, tier, seed, &pools));
    for &p in &ALL {
        let (acc, rej) = if prop == "C11" { ("strict-future", "strict-past") } else { ("strict-past", "strict-future") };
        total.require(&format!("{} accepted[{}]", p.name(), acc), 50);
        total.require(&format!("{} rejected[{}]", p.name(), rej), 50);
        total.require(&format!("{} accepted[absent]", p.name()), 1);
        total.require(&format!("{} accepted[null]", p.name()), 1);
    }
    total
}

/// Virtual clock (hook `verif::set_now`): the default validators are exercised at MANY values of "now" — year and leap-day
/// boundaries, 2^31 / 2^32 seconds, the i64-nanosecond limit (2262-04-11), far future — with claims at exact distances
/// from it (down to +-1 ns), rendered with a sample of offsets and fraction lengths.  No clock margins are needed.
/// exp: accept iff instant > now.  nbf: accept iff instant < now, reject iff instant > now, instant == now is not decided.
fn virtual_clock(prop: &str, tier: &str, seed: u64, pools: &Pools) -> Report {
    let is_exp = prop == "C11";
    let thorough = tier == "thorough";
    let mut nows: Vec<i128> = [
        1i128, 86_399, 951_782_399, 951_868_799, 951_868_800, 978_307_199, 978_307_200, 1_709_251_199, 2_147_483_647, 2_147_483_648, 4_102_444_799, 4_102_444_800, 4_107_542_399, 4_294_967_295,
        4_294_967_296, 9_223_372_036, 9_223_372_037, 13_569_465_599, 13_574_563_200, 32_503_679_999, 32_503_680_000, 100_000_000_000, 221_845_391_999,
    ]
    .iter()
    .map(|s| s * 1_000_000_000)
    .collect();
    let mut rng = Rng::new(seed, "c11-virtual-now", is_exp as u64);
    for _ in 0..(if thorough { 3000 } else { 200 }) {
        nows.push((rng.next() % 221_000_000_000) as i128 * 1_000_000_000 + (rng.next() % 1_000_000_000) as i128);
    }
    // "now" at the last / first second of a minute, hour, day, month and year (incl. leap-day neighbours), with 0 and
    // with 999 999 999 ns: arithmetic that rolls a field over
    for t in [1_791_071_999, 1_791_072_000, 1_793_491_199, 1_793_491_200, 1_798_758_000, 1_798_761_599, 1_798_761_600, 1_803_859_199, 1_835_479_800, 1_835_395_199, 1_791_032_399, 1_791_032_400, 1_791_028_859, 1_909_094_399, 1_932_764_401] {
        nows.push(t as i128 * 1_000_000_000);
        nows.push(t as i128 * 1_000_000_000 + 999_999_999);
    }
    // sub-second part of "now" matters for truncation bugs
    nows.push(1_790_000_000_999_999_999);
    nows.push(1_790_000_000_000_000_001);
    let deltas: [i128; 27] = [
        -31_536_000_000_000_000, -86_400_000_000_000, -3_600_000_000_000, -60_000_000_000, -1_000_000_000, -999_999_999, -1_000_000, -1, 0, 1, 1_000_000, 999_999_999, 1_000_000_000, 60_000_000_000,
        3_600_000_000_000, 86_399_000_000_000, 86_400_000_000_000, 31_536_000_000_000_000, 2_147_483_648_000_000_000, 4_294_967_296_000_000_000, 9_223_372_036_000_000_000, 9_223_372_037_000_000_000,
        15_000_000_000_000_000_000, 18_446_744_074_000_000_000, 30_000_000_000_000_000_000, -2_147_483_649_000_000_000, -9_223_372_037_000_000_000,
    ];
    let offsets: [i32; 9] = [0, -1439, -720, -1, 1, 330, 765, 1439, -300];
    let protos: Vec<P> = if thorough { ALL.to_vec() } else { vec![P::V4L, P::V2L, P::V4P, P::V3L] };
    // Is the hook on the validators' path at all?  A claim 10 years ahead of the REAL clock is judged once on the real
    // clock and once with the virtual clock 40 years ahead: the two verdicts must differ.  If they do not, either the
    // validators no longer consult the hooked time source (a refactoring: the sweep below would then judge real-clock
    // answers against virtual instants and raise false alarms) or they ignore the clock altogether (which the real-clock
    // workloads report as a violation on their own).  Either way the sweep is skipped as inconclusive, never a violation.
    {
        let real = util::now_unix_nanos();
        let claim_t = real + 315_360_000 * 1_000_000_000i128;
        let text = render((claim_t / 1_000_000_000) as i64, 0, 0, 9, Style::StrictZ);
        let payload = if is_exp { json!({"exp": text}) } else { json!({"nbf": text}) }.to_string();
        let key = pools.key(P::V4L, 0);
        let mut probe = Report::new();
        if let Out::Ok(token) = core_seal(P::V4L, &key, &[7u8; 32], &payload, None, None).0 {
            let cfg = ParserCfg { default_parser: true, ..Default::default() };
            let a = batteries_open(P::V4L, &key, &token, &cfg).0.is_ok();
            rusty_paseto::verif::set_now(Some(real + 4 * 315_360_000 * 1_000_000_000i128));
            let b = batteries_open(P::V4L, &key, &token, &cfg).0.is_ok();
            rusty_paseto::verif::set_now(None);
            if a == b {
                probe.inconclusive.push(format!("virtual-clock hook not reached by the default {} validator (verdict on a claim 10 y ahead is {} on the real clock and with the virtual clock 40 y ahead): virtual-clock sweep skipped", if is_exp { "exp" } else { "nbf" }, if a { "accept" } else { "reject" }));
                return probe;
            }
        } else {
            probe.inconclusive.push("virtual-clock probe token could not be built".into());
            return probe;
        }
    }
    let r = parallel(nows.len(), util::threads(), |i, r| {
        let v = nows[i];
        let p = protos[i % protos.len()];
        let key = pools.key(p, 0);
        let mut rng = Rng::new(seed, "c11-virtual", i as u64);
        rusty_paseto::verif::set_now(Some(v));
        for (di, d) in deltas.iter().enumerate() {
            let t = v + d;
            if t < 0 {
                continue;
            }
            let (secs, nanos) = ((t / 1_000_000_000) as i64, (t % 1_000_000_000) as u32);
            for (oi, &off) in offsets.iter().enumerate() {
                if (oi + di + i) % 3 != 0 && off != 0 {
                    continue;
                }
                // the rendering must stay a four-digit-year RFC 3339 string
                let local_days = (secs + off as i64 * 60).div_euclid(86400);
                let (ly, _, _) = civil_from_days(local_days);
                if !(1..=9999).contains(&ly) {
                    continue;
                }
                let style = if off == 0 { [Style::StrictZ, Style::MinusZero, Style::Strict][(di + i) % 3] } else { Style::Strict };
                let text = render(secs, nanos, off, 9, style);
                let payload = if is_exp { json!({"exp": text}) } else { json!({"nbf": text}) }.to_string();
                let token = match core_seal(p, &key, &rng.bytes(32), &payload, None, None).0 {
                    Out::Ok(t) => t,
                    _ => continue,
                };
                let cfg = ParserCfg { default_parser: true, ..Default::default() };
                let out = batteries_open(p, &key, &token, &cfg).0;
                r.evaluations += 1;
                let want: Option<bool> = if is_exp { Some(*d > 0) } else if *d == 0 { None } else { Some(*d < 0) };
                let vnow = render((v / 1_000_000_000) as i64, (v % 1_000_000_000) as u32, 0, 9, Style::StrictZ);
                let replay = json!({"cmd": prop, "note": "virtual-clock case: re-run the check", "protocol": p.name(), "virtual_now": vnow, "claim": text, "delta_ns": d.to_string()});
                match (&out, want) {
                    (Out::Panic(l), _) => r.violation(format!("{} panic virtual-clock", prop), format!("{}: panic with now={} claim={}: {}", p.name(), vnow, text, l), replay),
                    (Out::Ok(_), Some(false)) => r.violation(
                        format!("{} out-of-window-accepted virtual-clock delta={}", prop, delta_class(*d)),
                        format!("{}: with the clock at {} the default parser ACCEPTED {}={} ({} ns {} now)", p.name(), vnow, if is_exp { "exp" } else { "nbf" }, text, d.abs(), if *d < 0 { "before" } else if *d == 0 { "==" } else { "after" }),
                        replay,
                    ),
                    (Out::Err(e), Some(true)) => r.violation(
                        format!("{} valid-token-rejected virtual-clock delta={} err={}", prop, delta_class(*d), e),
                        format!("{}: with the clock at {} the default parser REJECTED ({}) {}={} ({} ns {} now)", p.name(), vnow, e, if is_exp { "exp" } else { "nbf" }, text, d.abs(), if *d < 0 { "before" } else { "after" }),
                        replay,
                    ),
                    _ => {
                        r.count(&format!("{} virtual-clock verdicts as expected", p.name()));
                        r.distinct(format!("{}|vclock|{}|{}|{}", p.name(), i, di, off));
                        if want.is_none() {
                            r.see("nbf == now exactly (not decided by the property)", out.class());
                        }
                    }
                }
            }
        }
        rusty_paseto::verif::set_now(None);
    });
    let mut r = r;
    r.require("v4.local virtual-clock verdicts as expected", 500);
    r
}

fn delta_class(d: i128) -> &'static str {
    match d.abs() {
        0 => "0",
        1..=999_999_999 => "sub-second",
        1_000_000_000..=86_400_000_000_000 => "second-to-day",
        86_400_000_000_001..=9_000_000_000_000_000_000 => "day-to-285y",
        _ => "beyond-2^63ns",
    }
}

/// Time must be read at EVERY parse: one parser object (and a fresh one) sees a claim cross "now" while it lives.
/// exp = now+1.5 s: parsed at once (no verdict: a stalled machine may already be past it), then again after 2.6 s -> must be
/// rejected.  nbf = now+1.5 s: rejected-or-no-verdict at once, after 2.6 s it must be accepted.
fn clock_progress(prop: &str, pools: &Pools) -> Report {
    let is_exp = prop == "C11";
    let mut total = Report::new();
    std::thread::scope(|s| {
        let mut handles = Vec::new();
        for &p in &ALL {
            // "rejected parse before the pause": a clock reading cached by a failing parse (and released only by a successful
            // one) must not be what the parse after the pause is judged against
            for (batteries_new, name, reject_before_pause) in [
                (false, "same parser object", false),
                (true, "fresh parser per parse", false),
                (false, "same parser object, a rejected parse just before the pause", true),
                (true, "fresh parser per parse, a rejected parse just before the pause", true),
            ] {
                let key = pools.key(p, 0);
                handles.push(s.spawn(move || {
                    let mut r = Report::new();
                    let now_ns = util::now_unix_nanos();
                    let t = now_ns + 1_500_000_000;
                    let text = render((t / 1_000_000_000) as i64, (t % 1_000_000_000) as u32, 90, 9, Style::Strict);
                    let payload = if is_exp { json!({"exp": text, "n": 1}) } else { json!({"nbf": text, "n": 1}) }.to_string();
                    let mut rng = Rng::new(now_ns as u64, "c11-clock", p as u64);
                    let token = match core_seal(p, &key, &rng.bytes(32), &payload, None, None).0 {
                        Out::Ok(t) => t,
                        _ => {
                            r.inconclusive.push(format!("clock-progress: could not seal for {}", p.name()));
                            return r;
                        }
                    };
                    let cfg = ParserCfg { default_parser: true, ..Default::default() };
                    // a token that the time validator refuses today and for the next hour
                    let far = if is_exp { now_ns - 3_600_000_000_000 } else { now_ns + 3_600_000_000_000 };
                    let far_text = render((far / 1_000_000_000) as i64, 0, 0, 0, Style::StrictZ);
                    let far_payload = if is_exp { json!({"exp": far_text, "n": 2}) } else { json!({"nbf": far_text, "n": 2}) }.to_string();
                    let refused = match core_seal(p, &key, &rng.bytes(32), &far_payload, None, None).0 {
                        Out::Ok(t) => t,
                        _ => {
                            r.inconclusive.push(format!("clock-progress: could not seal for {}", p.name()));
                            return r;
                        }
                    };
                    let (first, second) = if !batteries_new {
                        let mut steps = vec![PStep::Parse { token: token.clone(), key: 0 }];
                        if reject_before_pause {
                            steps.push(PStep::Parse { token: refused.clone(), key: 0 });
                        }
                        steps.push(PStep::SleepMs(2600));
                        steps.push(PStep::Parse { token: token.clone(), key: 0 });
                        let outs = session(p, true, &[key.clone()], &cfg, &steps);
                        if outs.len() != steps.len() - 1 {
                            r.inconclusive.push(format!("clock-progress session on {} returned {} outcomes", p.name(), outs.len()));
                            return r;
                        }
                        if reject_before_pause && outs[1].is_ok() {
                            r.see("clock-progress: the token meant to be refused before the pause was accepted (judged by the other workloads)", p.name());
                        }
                        (outs[0].clone(), outs[outs.len() - 1].clone())
                    } else {
                        let a = batteries_open(p, &key, &token, &cfg).0;
                        if reject_before_pause {
                            let _ = batteries_open(p, &key, &refused, &cfg).0;
                        }
                        std::thread::sleep(std::time::Duration::from_millis(2600));
                        (a, batteries_open(p, &key, &token, &cfg).0)
                    };
                    r.evaluations += 2;
                    let replay = json!({"cmd": prop, "note": "clock-progress case: re-run the check", "protocol": p.name(), "mode": name});
                    let elapsed = util::now_unix_nanos() - now_ns;
                    if elapsed < 2_000_000_000 {
                        r.inconclusive.push("clock-progress: the sleep returned early".into());
                        return r;
                    }
                    // after the sleep the instant is at least 0.5 s in the past
                    match (&second, is_exp) {
                        (Out::Ok(_), true) => r.violation(
                            format!("C11 expired-token-accepted-after-clock-progress {}", name.replace(' ', "-")),
                            format!("{} ({}): a token whose exp {} lay 1.5 s in the future was parsed, {} ms later (exp now in the past) it was STILL ACCEPTED; first parse: {}", p.name(), name, text, elapsed / 1_000_000, first.brief()),
                            replay,
                        ),
                        (Out::Err(e), false) => r.violation(
                            format!("C12 token-still-rejected-after-clock-progress {} err={}", name.replace(' ', "-"), e),
                            format!("{} ({}): a token whose nbf {} lay 1.5 s in the future was parsed, {} ms later (nbf now in the past) it was STILL REJECTED ({}); first parse: {}", p.name(), name, text, elapsed / 1_000_000, e, first.brief()),
                            replay,
                        ),
                        (Out::Panic(l), _) => r.violation(format!("{} panic clock-progress", prop), format!("{}: panic {}", p.name(), l), replay),
                        _ => {
                            r.count(&format!("{} clock-progress [{}]: verdict follows the clock", p.name(), name));
                            r.distinct(format!("{}|clock|{}|{}", p.name(), name, first.class()));
                            r.see("clock-progress first-parse outcomes (no verdict)", &format!("{} {}", name, first.class()));
                        }
                    }
                    r
                }));
            }
        }
        for h in handles {
            match h.join() {
                Ok(r) => total.merge(r),
                Err(_) => total.inconclusive.push("clock-progress worker died".into()),
            }
        }
    });
    total
}

pub fn replay(prop: &str, case: &Value) -> Report {
    let mut r = Report::new();
    match serde_json::from_value::<Case>(case.clone()) {
        Ok(c) => run_case(&c, &mut r, prop),
        Err(e) => r.inconclusive.push(format!("cannot decode replay case: {}", e)),
    }
    r
}

pub const RULE: &str = "payloads {\"exp\"|\"nbf\": value} are crafted at the core layer and parsed with PasetoParser::default(). Values: 21 instants (now-2s, -1min, -1h, -1d, -1y, 2000-01-01, 1971; now+60s, +1h, +1d, +1y, 2999, 9000-01-01, and now + {2^31, 2^32 seconds, 2^63 ns -/+ 1 min, 475 y, 2^64 ns, 3170 y}; plus the edges of the four-digit-year range: 0000-01-01, 0000-12-31, 0001-01-01 and instants at / just beyond 9999-12-31T23:59:59Z rendered with the (negative) offsets that keep the local year at 9999) rendered by the harness's own calendar arithmetic with EVERY UTC offset -23:59..+23:59 x 0..9 fractional digits (strict grammar; plus fractions of 10..40 digits on a sample of offsets), 'Z', '-00:00' and lenient variants (space / 't' separators and 'z', each also combined with 'Z') — full space on v4.local (thorough: all four local protocols and v2/v4 public), 500 (thorough 60000) sampled renderings on each other protocol; a catalogue of ~90 non-timestamp values (numbers, booleans, arrays, objects, empty string, near-miss date strings — impossible months/days/hours, ISO 8601 forms that RFC 3339 excludes — each in the future (2999) and in the past (2001)) plus random text; null; absent; a sample of the strict cases and the grid once more with check_claim(<the token's own value>) registered on the default parser, and every 61st case of any class with check_claim on ANOTHER claim that the token satisfies (the time checks must still all apply); every fifth token carries a footer and (v3/v4) an implicit assertion that the default parser is given through its setters after default(), in either order; every 29th case once more with the payload spelled as another implementation might (\\u escapes in the member names exp/nbf, \\u escapes inside the values, insignificant white space: same JSON value, same verdict); C12 additionally the 3x3 grid of (exp, nbf) in {past, future, absent} x 3 offsets. Plus a VIRTUAL-CLOCK sweep through the hook verif::set_now: 255 (thorough 3055) values of 'now' (year/leap-day boundaries, the last and first second of a minute / hour / day / month / year, 2^31/2^32 s, the i64-nanosecond limit 2262-04-11, up to year 8999, random, odd sub-second parts) x 27 distances from +-1 ns to +-950 years x sampled offsets, all with 9 fraction digits: exp accepted iff instant > now, nbf accepted iff instant < now (== now not decided). Plus clock-progress histories on all 8 protocols: a claim 1.5 s in the future is parsed, 2.6 s pass, and the SAME parser object (and a fresh one) must now give the opposite answer — also when the last parse before the pause was a REFUSED one (a clock reading kept from a failing parse must not judge the next). Oracle: instant known by construction; strict renderings and renderings with a ' ' separator (named in the property's quantifier) decide both ways, the other lenient renderings ('t', 'z') must merely never be accepted when out of window. distinct_nontrivial = distinct (protocol, outcome, class, instant, offset, fraction length, style) tuples";
