//! C13 (tokens expire by default) and C17 (repeated top-level claim fails the build).
//! A small state machine of the batteries-included builder, written from the PROPERTIES (not from
//! the code), is run next to the real builder over call words; every build outcome is compared.
use crate::c11::{days_from_civil, render, Style};
use crate::gens::Pools;
use crate::proto::*;
use crate::report::{parallel, Report};
use crate::rng::Rng;
use crate::util;
use serde::{Deserialize, Serialize};
use serde_json::{json, Map, Value};
use std::collections::BTreeMap;

#[derive(Clone, Debug, Serialize, Deserialize)]
pub struct Case {
    pub p: P,
    pub key: KeyMat,
    pub ops: Vec<BOp>,
}

/// strict RFC 3339 -> unix nanoseconds, with the harness's own calendar
pub fn parse_rfc3339(s: &str) -> Option<i128> {
    let b = s.as_bytes();
    if b.len() < 20 {
        return None;
    }
    let num = |a: usize, n: usize| -> Option<i64> {
        let t = s.get(a..a + n)?;
        if t.bytes().all(|c| c.is_ascii_digit()) {
            t.parse().ok()
        } else {
            None
        }
    };
    let (y, mo, d, h, mi, se) = (num(0, 4)?, num(5, 2)?, num(8, 2)?, num(11, 2)?, num(14, 2)?, num(17, 2)?);
    if b[4] != b'-' || b[7] != b'-' || !(b[10] == b'T' || b[10] == b't' || b[10] == b' ') || b[13] != b':' || b[16] != b':' {
        return None;
    }
    let mut i = 19;
    let mut nanos: i128 = 0;
    if b.get(i) == Some(&b'.') {
        i += 1;
        let st = i;
        while i < b.len() && b[i].is_ascii_digit() {
            i += 1;
        }
        if i == st {
            return None;
        }
        let digits = &s[st..i];
        let mut f = digits.chars().take(9).collect::<String>();
        while f.len() < 9 {
            f.push('0');
        }
        nanos = f.parse().ok()?;
    }
    let off: i64 = match b.get(i)? {
        b'Z' | b'z' if i + 1 == b.len() => 0,
        c @ (b'+' | b'-') if i + 6 == b.len() && b[i + 3] == b':' => {
            let (oh, om) = (num(i + 1, 2)?, num(i + 4, 2)?);
            let v = oh * 3600 + om * 60;
            if *c == b'-' {
                -v
            } else {
                v
            }
        }
        _ => return None,
    };
    let days = days_from_civil(y, mo as u32, d as u32);
    let secs = days * 86400 + h * 3600 + mi * 60 + se - off;
    Some(secs as i128 * 1_000_000_000 + nanos)
}

#[derive(Clone, Debug)]
pub struct BuildObs {
    /// index of the Build op within the word
    pub at: usize,
    pub out: Out<String>,
    /// payload read back (core decrypt/verify with the footer/assertion in force) and parsed as JSON
    pub payload: Option<Map<String, Value>>,
    pub readback: String,
    /// built while a sealing fault was injected (unusable key material in force, or the RNG failing): no verdict on this build
    pub faulted: bool,
}

pub struct Run {
    pub before: i128,
    pub after: i128,
    pub builds: Vec<BuildObs>,
}

pub fn run_word(c: &Case) -> Run {
    run_word_at(c, None)
}

/// `virtual_now`: the builder is created at this instant of the virtual clock (hook verif::set_now); the bracket collapses to it
pub fn run_word_at(c: &Case, virtual_now: Option<i128>) -> Run {
    if virtual_now.is_some() {
        rusty_paseto::verif::set_now(virtual_now);
    }
    let mut before = util::now_unix_nanos();
    let outs = batteries_run(c.p, &c.key, &c.ops);
    let mut after = util::now_unix_nanos();
    if let Some(v) = virtual_now {
        rusty_paseto::verif::set_now(None);
        before = v;
        after = v;
    }
    observe(c, outs, before, after)
}

/// turn the outcomes of one builder's operations into the observations the checkers judge (tokens are read back)
pub fn observe(c: &Case, outs: Vec<Out<String>>, before: i128, after: i128) -> Run {
    // a refused claim constructor contributes an entry of its own: it is not a build outcome
    let outs: Vec<Out<String>> = outs.into_iter().filter(|o| !matches!(o, Out::Err(e) if e.starts_with("ClaimCtor/"))).collect();
    // one entry per Build (and one per failing claim constructor: none with our values)
    let mut builds = Vec::new();
    let mut footer: Option<String> = None;
    let mut ia: Option<String> = None;
    let mut bi = 0;
    let (mut bad_key, mut rng_fault) = (false, false);
    for (i, op) in c.ops.iter().enumerate() {
        match op {
            BOp::UseKey(k) => bad_key = **k != c.key,
            BOp::RngFault(on) => rng_fault = *on,
            BOp::Footer(f) => footer = Some(f.clone()),
            BOp::Assertion(a) if c.p.has_assertion() => ia = Some(a.clone()),
            BOp::Build => {
                let out = outs.get(bi).cloned().unwrap_or(Out::Err("harness: missing build outcome".into()));
                bi += 1;
                let (payload, readback) = match &out {
                    Out::Ok(tok) => match core_open(c.p, &c.key, tok, footer.as_deref(), ia.as_deref()).0 {
                        Out::Ok(s) => match serde_json::from_str::<Value>(&s) {
                            Ok(Value::Object(m)) => (Some(m), "ok".to_string()),
                            _ => (None, format!("payload is not a JSON object: {}", util::clip(&s, 80))),
                        },
                        o => (None, format!("built token does not open with the footer/assertion in force: {}", o.brief())),
                    },
                    _ => (None, String::new()),
                };
                builds.push(BuildObs { at: i, out, payload, readback, faulted: bad_key || (rng_fault && c.p.is_local()) });
            }
            _ => {}
        }
    }
    Run { before, after, builds }
}

/// Two builders alive at once on one thread, their operations interleaved in a seeded order (the second builder is created
/// when its first operation is due).  Each builder must behave exactly as if it were alone: state that leaks between
/// builder objects (a per-thread or process-wide scratch set, a cache keyed by something two builders share) shows up as a
/// missed or an invented duplicate (C17) or as foreign/absent default claims (C13).
#[derive(Clone, Debug, Serialize, Deserialize)]
pub struct PairCase {
    pub a: Case,
    pub b: Case,
    /// false = next operation of a, true = next operation of b
    pub schedule: Vec<bool>,
}

pub fn run_pair(prop: &str, pc: &PairCase, r: &mut Report) {
    let before = util::now_unix_nanos();
    let mut sa = batteries_session(pc.a.p, &pc.a.key);
    let mut sb: Option<Box<dyn BSession>> = None;
    let (mut ia, mut ib) = (0usize, 0usize);
    let (mut oa, mut ob) = (Vec::new(), Vec::new());
    for &which in &pc.schedule {
        if !which {
            if let Some(op) = pc.a.ops.get(ia) {
                ia += 1;
                if let Some(o) = sa.step(op) {
                    oa.push(o);
                }
            }
        } else if let Some(op) = pc.b.ops.get(ib) {
            ib += 1;
            let s = sb.get_or_insert_with(|| batteries_session(pc.b.p, &pc.b.key));
            if let Some(o) = s.step(op) {
                ob.push(o);
            }
        }
    }
    let after = util::now_unix_nanos();
    let (ra, rb) = (observe(&pc.a, oa, before, after), observe(&pc.b, ob, before, after));
    let mut tmp = Report::new();
    for (c, run) in [(&pc.a, &ra), (&pc.b, &rb)] {
        if prop == "C13" {
            check_c13(c, run, &mut tmp)
        } else {
            check_c17(c, run, &mut tmp)
        }
    }
    // re-label: the replay of such a case needs both builders and the schedule
    let n = tmp.violations.len();
    for v in tmp.violations.iter_mut() {
        v.sig = format!("{} [two interleaved builders]", v.sig);
        v.desc = format!("with two builders interleaved on one thread ({} | {}; schedule {}): {}", word_string(&pc.a.ops), word_string(&pc.b.ops), pc.schedule.iter().map(|b| if *b { 'b' } else { 'a' }).collect::<String>(), v.desc);
        v.replay = json!({"cmd": format!("{}-pair", prop), "case": pc});
    }
    if n == 0 {
        r.count("interleaved builder pairs conform");
    }
    r.merge(tmp);
}

/// Many builders at once on DIFFERENT threads.  All threads of a round are released together by a barrier and each drives
/// its own builder through its own word; the custom claim names of a round carry the round number, so every round presents
/// names that the process has never seen before to all threads at the same moment (a process-wide table of names, a lazily
/// initialised cache, a check-then-insert under two different locks would be raced exactly here).  Each builder is judged
/// as if it were alone.
#[derive(Clone, Debug, Serialize, Deserialize)]
pub struct ConcCase {
    /// one base case per thread (custom names WITHOUT the round suffix)
    pub threads: Vec<Case>,
    pub rounds: usize,
}

fn with_round_names(ops: &[BOp], round: usize) -> Vec<BOp> {
    ops.iter()
        .map(|o| match o {
            BOp::Set(Claim::Custom(k, v)) if !["iss", "sub", "aud", "exp", "nbf", "iat", "jti"].contains(&k.as_str()) => BOp::Set(Claim::Custom(format!("{}~{}", k, round), v.clone())),
            o => o.clone(),
        })
        .collect()
}

/// `gen(round, thread)` supplies the base case of a thread in a round; returns the merged report
fn run_concurrent<G>(prop: &str, nthreads: usize, rounds: usize, first_round: usize, gen: G) -> Report
where
    G: Fn(usize, usize) -> Case + Sync,
{
    let barrier = std::sync::Barrier::new(nthreads);
    let mut out = Report::new();
    std::thread::scope(|s| {
        let mut hs = Vec::new();
        for t in 0..nthreads {
            let (barrier, gen) = (&barrier, &gen);
            hs.push(s.spawn(move || {
                let mut r = Report::new();
                for round in first_round..first_round + rounds {
                    let base = gen(round, t);
                    let c = Case { p: base.p, key: base.key.clone(), ops: with_round_names(&base.ops, round) };
                    barrier.wait();
                    // the monitored calls; a panic inside must not leave the other threads waiting at the barrier
                    let run = std::panic::catch_unwind(std::panic::AssertUnwindSafe(|| run_word(&c)));
                    let run = match run {
                        Ok(run) => run,
                        Err(_) => {
                            r.inconclusive.push(format!("concurrent round {} thread {}: panic outside a monitored call", round, t));
                            continue;
                        }
                    };
                    let mut tmp = Report::new();
                    if prop == "C13" {
                        check_c13(&c, &run, &mut tmp)
                    } else {
                        check_c17(&c, &run, &mut tmp)
                    }
                    let clocky = tmp.violation_sigs.keys().any(|k| k.contains("default-iat-wrong") || k.contains("default-nbf-wrong") || k.contains("default-lifetime-wrong"));
                    if clocky {
                        // a clock step cannot raise an alarm: the verdict must show again on a fresh execution of this word alone
                        let mut again = Report::new();
                        judge(prop, &c, &mut again);
                        if again.violations_total == 0 {
                            r.discard("clock-dependent verdict of a concurrent round not re-established on a fresh execution");
                            continue;
                        }
                    }
                    // the per-round names would make every word distinct: signatures use the base word
                    tmp.distinct.clear();
                    let n = tmp.violations.len();
                    for v in tmp.violations.iter_mut() {
                        v.sig = format!("{} [concurrent builders]", v.sig);
                        v.desc = format!("with {} builders driven at once on {} threads (round {}, thread {}, released together by a barrier; custom names first seen in this round): {}", nthreads, nthreads, round, t, v.desc);
                        v.replay = json!({"cmd": format!("{}-conc", prop), "case": ConcCase { threads: (0..nthreads).map(|u| gen(round, u)).collect(), rounds: 4000 }});
                    }
                    let sigs: Vec<(String, u64)> = tmp.violation_sigs.iter().map(|(k, v)| (format!("{} [concurrent builders]", k), *v)).collect();
                    tmp.violation_sigs = sigs.into_iter().collect();
                    if n == 0 && tmp.violations_total == 0 {
                        r.count("concurrent builders conform");
                        r.distinct(format!("conc|{}|{}|{}", base.p.name(), nthreads, word_string(&base.ops)));
                    }
                    r.merge(tmp);
                }
                r
            }));
        }
        for h in hs {
            match h.join() {
                Ok(r) => out.merge(r),
                Err(_) => out.inconclusive.push("a concurrent-builder worker thread died outside a monitored call".into()),
            }
        }
    });
    out
}

pub fn replay_conc(prop: &str, case: &Value) -> Report {
    let mut r = Report::new();
    match serde_json::from_value::<ConcCase>(case.clone()) {
        Ok(c) if !c.threads.is_empty() => {
            // fresh names every round: the recorded round cannot be re-entered (its names are only new once per process),
            // so the same words are driven for `rounds` further rounds
            let n = c.threads.len();
            r.merge(run_concurrent(prop, n, c.rounds.min(100_000), 1_000_000, |_, t| c.threads[t].clone()));
        }
        Ok(_) => r.inconclusive.push("replay case has no threads".into()),
        Err(e) => r.inconclusive.push(format!("cannot decode replay case: {}", e)),
    }
    r
}

/// model state after the first `upto` ops
struct Model {
    supplied: BTreeMap<String, Vec<Value>>,
    ack: bool,
    exp_after_ack: bool,
}

fn model(ops: &[BOp]) -> Model {
    let mut m = Model { supplied: BTreeMap::new(), ack: false, exp_after_ack: false };
    for op in ops {
        match op {
            // a custom claim under a reserved key cannot be constructed (C18): the call sequence skips it
            BOp::Set(Claim::Custom(k, _)) if ["iss", "sub", "aud", "exp", "nbf", "iat", "jti"].contains(&k.as_str()) => {}
            BOp::Set(c) => {
                if c.key() == "exp" && m.ack {
                    m.exp_after_ack = true;
                }
                m.supplied.entry(c.key().to_string()).or_default().push(c.value());
            }
            BOp::Ack => m.ack = true,
            _ => {}
        }
    }
    m
}

fn word_string(ops: &[BOp]) -> String {
    ops.iter()
        .map(|o| match o {
            BOp::Set(c) => format!("set({})", c.key()),
            BOp::Ack => "ack".into(),
            BOp::Footer(_) => "footer".into(),
            BOp::Assertion(_) => "assertion".into(),
            BOp::Build => "BUILD".into(),
            BOp::UseKey(_) => "use-key".into(),
            BOp::RngFault(on) => if *on { "rng-fault-on".into() } else { "rng-fault-off".into() },
        })
        .collect::<Vec<_>>()
        .join(" ")
}

const SLACK_NS: i128 = 5_000_000;

pub fn check_c13(c: &Case, run: &Run, r: &mut Report) {
    let w = word_string(&c.ops);
    let replay = || json!({"cmd": "C13", "case": c});
    let mut nth = 0;
    for b in &run.builds {
        nth += 1;
        r.evaluations += 1;
        if b.faulted {
            r.count(&format!("build under an injected sealing fault (no verdict) [{}]", b.out.class()));
            continue;
        }
        let m = model(&c.ops[..b.at]);
        let which = if nth == 1 { "first-build" } else { "later-build" };
        let tag = format!("{} {}", c.p.name(), which);
        let tok_payload = match (&b.out, &b.payload) {
            (Out::Ok(_), Some(p)) => p,
            (Out::Ok(_), None) => {
                r.violation(format!("C13 unreadable-token {}", tag), format!("{} word [{}] build #{}: {}", c.p.name(), w, nth, b.readback), replay());
                continue;
            }
            (Out::Panic(loc), _) => {
                r.violation(format!("C13 panic {}", tag), format!("{} word [{}] build #{} panicked: {}", c.p.name(), w, nth, loc), replay());
                continue;
            }
            (Out::Err(_), _) => {
                r.count(&format!("{} build-failed (C17's domain)", c.p.name()));
                continue;
            }
        };
        let has_exp = tok_payload.get("exp").map(|v| !v.is_null()).unwrap_or(false);
        let mut bad = false;
        if !m.ack && !has_exp {
            bad = true;
            r.violation(
                format!("C13 no-exp-without-acknowledgement {}", tag),
                format!("{} word [{}] build #{}: token carries no exp although no-expiration was never acknowledged; payload {}", c.p.name(), w, nth, util::clip(&Value::Object(tok_payload.clone()).to_string(), 200)),
                replay(),
            );
        }
        if m.ack && has_exp {
            bad = true;
            r.violation(
                format!("C13 exp-despite-acknowledgement {}", tag),
                format!("{} word [{}] build #{}: no-expiration was acknowledged but the token carries exp={}", c.p.name(), w, nth, tok_payload["exp"]),
                replay(),
            );
        }
        // defaults
        let t = |k: &str| tok_payload.get(k).and_then(|v| v.as_str()).and_then(parse_rfc3339);
        let dflt = |k: &str| !m.supplied.contains_key(k);
        if dflt("iat") {
            match t("iat") {
                Some(iat) if iat >= run.before - SLACK_NS && iat <= run.after + SLACK_NS => {}
                other => {
                    bad = true;
                    r.violation(
                        format!("C13 default-iat-wrong {}", tag),
                        format!("{} word [{}] build #{}: default iat {:?} (parsed {:?}) is not within the creation bracket [{}, {}] ns", c.p.name(), w, nth, tok_payload.get("iat"), other, run.before, run.after),
                        replay(),
                    );
                }
            }
        }
        if dflt("nbf") {
            match t("nbf") {
                Some(nbf) if nbf >= run.before - SLACK_NS && nbf <= run.after + SLACK_NS => {}
                other => {
                    bad = true;
                    r.violation(
                        format!("C13 default-nbf-wrong {}", tag),
                        format!("{} word [{}] build #{}: default nbf {:?} (parsed {:?}) is not within the creation bracket", c.p.name(), w, nth, tok_payload.get("nbf"), other),
                        replay(),
                    );
                }
            }
        }
        if dflt("iat") && dflt("nbf") && tok_payload.get("iat") != tok_payload.get("nbf") {
            bad = true;
            r.violation(format!("C13 default-iat-ne-nbf {}", tag), format!("{} word [{}] build #{}: default iat {:?} != default nbf {:?}", c.p.name(), w, nth, tok_payload.get("iat"), tok_payload.get("nbf")), replay());
        }
        if dflt("exp") && !m.ack {
            if let Some(exp) = t("exp") {
                let hour: i128 = 3_600_000_000_000;
                let ok_abs = exp >= run.before + hour - SLACK_NS && exp <= run.after + hour + SLACK_NS;
                let ok_rel = if dflt("iat") { t("iat").map(|iat| exp - iat == hour).unwrap_or(false) } else { true };
                if !ok_abs || !ok_rel {
                    bad = true;
                    r.violation(
                        format!("C13 default-lifetime-wrong {}", tag),
                        format!("{} word [{}] build #{}: default exp {:?} is not exactly creation time + 1 h (iat {:?}; exp-iat = {:?} ns)", c.p.name(), w, nth, tok_payload.get("exp"), tok_payload.get("iat"), t("iat").map(|i| exp - i)),
                        replay(),
                    );
                }
            } else if has_exp {
                bad = true;
                r.violation(format!("C13 default-exp-unparseable {}", tag), format!("{} word [{}] build #{}: default exp {:?} is not RFC 3339", c.p.name(), w, nth, tok_payload.get("exp")), replay());
            }
        }
        // caller-supplied claims (only unambiguous histories: every key supplied once)
        let unambiguous = m.supplied.values().all(|v| v.len() == 1);
        if unambiguous {
            for (k, vals) in &m.supplied {
                if k == "exp" && m.ack {
                    continue;
                }
                // C13 speaks about exp/iat/nbf; other caller-supplied claims are C17's ("each caller-supplied value replacing ...")
                if !["exp", "iat", "nbf"].contains(&k.as_str()) {
                    continue;
                }
                if tok_payload.get(k) != Some(&vals[0]) {
                    bad = true;
                    r.violation(
                        format!("C13 supplied-claim-lost {} key={}", tag, if ["exp", "nbf", "iat", "iss", "sub", "aud", "jti"].contains(&k.as_str()) { k.as_str() } else { "custom" }),
                        format!("{} word [{}] build #{}: caller-supplied claim {}={} is {:?} in the token", c.p.name(), w, nth, k, vals[0], tok_payload.get(k)),
                        replay(),
                    );
                }
            }
        }
        if !bad {
            r.count(&format!("{} conforms", tag));
            r.count(if m.ack { "acknowledged builds conform" } else { "expiring builds conform" });
            r.distinct(format!("{}|{}|{}", c.p.name(), w, nth));
            if r.samples.len() < 8 && (r.evaluations % 389 == 1 || nth > 1) {
                r.sample(json!({"protocol": c.p.name(), "word": w, "build_no": nth, "acknowledged": m.ack, "payload": tok_payload}));
            }
        }
    }
}

pub fn check_c17(c: &Case, run: &Run, r: &mut Report) {
    let w = word_string(&c.ops);
    let replay = || json!({"cmd": "C17", "case": c});
    let mut nth = 0;
    for b in &run.builds {
        nth += 1;
        r.evaluations += 1;
        if b.faulted {
            r.count(&format!("build under an injected sealing fault (no verdict) [{}]", b.out.class()));
            continue;
        }
        let m = model(&c.ops[..b.at]);
        let dups: Vec<&String> = m.supplied.iter().filter(|(_, v)| v.len() >= 2).map(|(k, _)| k).collect();
        let definite = !dups.is_empty();
        let latitude = m.exp_after_ack;
        let tag = c.p.name();
        let dup_err_key = b.out.err().and_then(|e| e.strip_prefix("Builder/DuplicateTopLevelPayloadClaim(")).map(|s| s.trim_end_matches(')').to_string());
        match &b.out {
            Out::Panic(loc) => r.violation(format!("C17 panic {}", tag), format!("{} word [{}] build #{} panicked: {}", tag, w, nth, loc), replay()),
            Out::Ok(_) if definite => r.violation(
                format!("C17 duplicate-not-refused {} build={}", tag, if nth == 1 { "first" } else { "later" }),
                format!("{} word [{}] build #{}: key(s) {:?} were supplied more than once but the build SUCCEEDED", tag, w, nth, dups),
                replay(),
            ),
            Out::Err(e) if definite => match &dup_err_key {
                Some(k) if dups.iter().any(|d| *d == k) || (latitude && k == "exp") => {
                    r.count(&format!("{} duplicate-refused", tag));
                    r.distinct(format!("{}|{}|{}|dup", tag, w, nth));
                }
                Some(k) => r.violation(
                    format!("C17 duplicate-error-names-wrong-key {}", tag),
                    format!("{} word [{}] build #{}: duplicate error names {:?}, but the keys supplied more than once are {:?}", tag, w, nth, k, dups),
                    replay(),
                ),
                None => r.violation(format!("C17 wrong-error-for-duplicate {} err={}", tag, e), format!("{} word [{}] build #{}: keys {:?} duplicated, build failed with {} instead of a duplicate-claim error", tag, w, nth, dups, e), replay()),
            },
            Out::Err(e) => {
                if latitude && dup_err_key.as_deref() == Some("exp") {
                    r.count(&format!("{} exp-after-ack refused-as-duplicate", tag));
                    r.distinct(format!("{}|{}|{}|lat-dup", tag, w, nth));
                } else {
                    r.violation(
                        format!("C17 build-failed-without-duplicate {} err={}", tag, e.split('(').next().unwrap_or(e)),
                        format!("{} word [{}] build #{}: no key was supplied twice, yet the build failed with {}", tag, w, nth, e),
                        replay(),
                    );
                }
            }
            Out::Ok(_) => {
                // no duplicate: must carry the caller's values over the defaults
                match &b.payload {
                    None => r.violation(format!("C17 unreadable-token {}", tag), format!("{} word [{}] build #{}: {}", tag, w, nth, b.readback), replay()),
                    Some(p) => {
                        let mut bad = false;
                        for (k, vals) in &m.supplied {
                            if k == "exp" && m.ack {
                                if p.get("exp").map(|v| !v.is_null()).unwrap_or(false) && !latitude {
                                    // exp supplied before the acknowledgement: C13 decides that it must be gone; not C17's statement
                                }
                                continue;
                            }
                            if p.get(k) != Some(&vals[0]) {
                                bad = true;
                                r.violation(
                                    format!("C17 supplied-value-not-in-token {} build={} key={}", tag, if nth == 1 { "first" } else { "later" }, if ["exp", "nbf", "iat", "iss", "sub", "aud", "jti"].contains(&k.as_str()) { k.as_str() } else { "custom" }),
                                    format!("{} word [{}] build #{}: caller-supplied {}={} does not replace the default / is missing: token has {:?}", tag, w, nth, k, vals[0], p.get(k)),
                                    replay(),
                                );
                            }
                        }
                        if !bad {
                            r.count(&format!("{} built-with-caller-values", tag));
                            if latitude {
                                r.count(&format!("{} exp-after-ack ignored", tag));
                            }
                            r.distinct(format!("{}|{}|{}|ok", tag, w, nth));
                            if r.samples.len() < 6 && r.evaluations % 997 == 3 {
                                r.sample(json!({"protocol": tag, "word": w, "build_no": nth, "outcome": "built", "payload": p}));
                            }
                        }
                    }
                }
            }
        }
        if definite && r.samples.len() < 10 && r.evaluations % 1511 == 5 {
            r.sample(json!({"protocol": tag, "word": w, "build_no": nth, "duplicated_keys": dups, "outcome": b.out.brief()}));
        }
    }
}

fn sym_c13(i: usize, occ: usize) -> BOp {
    let ts = |y: usize| format!("{}-01-01T00:00:00+00:00", y);
    // caller-supplied instants lie on BOTH sides of the (virtual) creation time and of creation + 1 h: a supplied value for
    // one time claim must not move the default of another
    match i {
        0 => BOp::Set(Claim::Exp(ts(if occ % 3 == 1 { 1999 } else { 2990 + occ }))),
        1 => BOp::Set(Claim::Nbf(ts(if occ % 3 == 0 { 9990 + occ % 10 } else { 2001 + occ }))),
        2 => BOp::Set(Claim::Iat(ts(if occ % 3 == 1 { 9980 + occ % 10 } else { 2010 + occ }))),
        3 => BOp::Set(Claim::Iss(format!("issuer-{}", occ))),
        4 => BOp::Set(Claim::Custom("a".into(), json!({"n": occ, "s": "\u{e9}"}))),
        5 => BOp::Ack,
        6 => BOp::Footer(format!("footer-{}", occ)),
        7 => BOp::Assertion(format!("assertion-{}", occ)),
        // custom claims whose names equal a time claim up to case: they are ordinary custom claims
        8 => BOp::Set(Claim::Custom("Exp".into(), json!(format!("custom-Exp-{}", occ)))),
        9 => BOp::Set(Claim::Custom("IAT".into(), json!(occ))),
        10 => BOp::Set(Claim::Custom("Nbf".into(), json!(format!("custom-Nbf-{}", occ)))),
        // an ATTEMPT to shadow a time claim with a custom claim under its exact reserved name (both constructor forms are
        // rotated by the harness): the constructor must refuse it, so it must leave no trace in the token
        11 => BOp::Set(Claim::Custom("exp".into(), Value::Null)),
        12 => BOp::Set(Claim::Custom("nbf".into(), json!(format!("not a date {}", occ)))),
        _ => BOp::Build,
    }
}
fn sym_c17(i: usize, occ: usize) -> BOp {
    let ts = |y: usize| format!("{}-01-01T00:00:00+00:00", y);
    match i {
        0 => BOp::Set(Claim::Exp(ts(2990 + occ))),
        1 => BOp::Set(Claim::Nbf(ts(2001 + occ))),
        2 => BOp::Set(Claim::Iat(ts(2010 + occ))),
        3 => BOp::Set(Claim::Iss(format!("issuer-{}", occ))),
        4 => BOp::Set(Claim::Sub(format!("subject-{}", occ))),
        5 => BOp::Set(Claim::Aud(format!("audience-{}", occ))),
        6 => BOp::Set(Claim::Jti(format!("id-{}", occ))),
        7 => BOp::Set(Claim::Custom("a".into(), json!(occ))),
        8 => BOp::Set(Claim::Custom("b".into(), json!(format!("b{}", occ)))),
        9 => BOp::Ack,
        10 => BOp::Footer(format!("footer-{}", occ)),
        // names with upper-case letters are claim names like any other; "Role" and "role" are two different claims
        11 => BOp::Set(Claim::Custom("userId".into(), json!(occ))),
        12 => BOp::Set(Claim::Custom("Role".into(), json!(format!("R{}", occ)))),
        13 => BOp::Set(Claim::Custom("role".into(), json!(format!("r{}", occ)))),
        _ => BOp::Build,
    }
}

/// the idx-th word of length len over an alphabet of k symbols (+ a final Build)
fn word(prop: &str, k: usize, len: usize, mut idx: usize) -> Vec<BOp> {
    let mut syms = Vec::with_capacity(len);
    for _ in 0..len {
        syms.push(idx % k);
        idx /= k;
    }
    syms_to_ops(prop, &syms)
}
fn syms_to_ops(prop: &str, syms: &[usize]) -> Vec<BOp> {
    let mut occ = [0usize; 24];
    // C17: in every second word (by the parity of its symbol sum) a setter's 2nd, 4th ... occurrence supplies the SAME value as
    // the one before it - supplying a key twice is a repetition whether or not the value changed
    let same_values = prop == "C17" && syms.iter().sum::<usize>() % 2 == 1;
    let mut ops: Vec<BOp> = syms
        .iter()
        .map(|&s| {
            let o = if prop == "C13" { sym_c13(s, occ[s]) } else { sym_c17(s, if same_values { occ[s] / 2 } else { occ[s] }) };
            occ[s] += 1;
            o
        })
        .collect();
    if !matches!(ops.last(), Some(BOp::Build)) {
        ops.push(BOp::Build);
    }
    ops
}

/// run one word and judge it; a verdict that depends on the wall clock (default iat/nbf/exp vs. the bracket) is
/// re-established on up to two fresh executions before it counts, so that a clock step cannot raise an alarm
fn judge(prop: &str, c: &Case, r: &mut Report) {
    let mut attempt = 0;
    loop {
        let mut tmp = Report::new();
        let run = run_word(c);
        if prop == "C13" {
            check_c13(c, &run, &mut tmp)
        } else {
            check_c17(c, &run, &mut tmp)
        }
        let clocky = tmp.violation_sigs.keys().any(|k| k.contains("default-iat-wrong") || k.contains("default-nbf-wrong") || k.contains("default-lifetime-wrong"));
        if clocky && attempt < 2 {
            attempt += 1;
            r.discard("clock-dependent verdict re-established on a fresh execution");
            continue;
        }
        r.merge(tmp);
        return;
    }
}

pub fn run(prop: &str, tier: &str, seed: u64) -> Report {
    let thorough = tier == "thorough";
    let pools = Pools::new(seed, 2, 2);
    let mut total = Report::new();
    if pools.rsa.is_empty() {
        total.inconclusive.push("no RSA key fixtures found".into());
        return total;
    }
    if parse_rfc3339("2000-01-01T00:00:00Z") != Some(946_684_800_000_000_000) || parse_rfc3339(&render(32_472_144_000, 5, -330, 9, Style::Strict)) != Some(32_472_144_000_000_000_005) {
        total.inconclusive.push("harness RFC 3339 parser self-test failed".into());
        return total;
    }
    let (k, maxlen) = if prop == "C13" { (14usize, if thorough { 6 } else { 4 }) } else { (15usize, if thorough { 5 } else { 4 }) };
    // exhaustive words on v4.local
    let mut counts = Vec::new();
    let mut totalw = 0usize;
    for len in 1..=maxlen {
        let n = k.pow(len as u32);
        counts.push((len, totalw, n));
        totalw += n;
    }
    let key4 = pools.key(P::V4L, 3);
    let r = parallel(totalw, util::threads(), |i, r| {
        let (len, base, _) = *counts.iter().rev().find(|(_, b, _)| i >= *b).unwrap();
        let ops = word(prop, k, len, i - base);
        let c = Case { p: P::V4L, key: key4.clone(), ops };
        judge(prop, &c, r);
        r.count("exhaustive words (v4.local)");
    });
    total.merge(r);
    // random longer words on all protocols
    let nrand = |p: P| -> usize {
        match (p, thorough) {
            (P::V1P, false) => 150,
            (P::V3P, false) => 300,
            (_, false) => 3000,
            (P::V1P, true) => 8000,
            (P::V3P, true) => 15_000,
            (_, true) => 200_000,
        }
    };
    let maxw = if prop == "C13" { 12 } else { 40 };
    let mut items: Vec<(P, usize)> = Vec::new();
    for &p in &ALL {
        for j in 0..nrand(p) {
            items.push((p, j));
        }
    }
    let r = parallel(items.len(), util::threads(), |i, r| {
        let (p, j) = items[i];
        let mut rng = Rng::new(seed, prop, (i as u64) << 8 | j as u64);
        let len = 1 + rng.below(maxw);
        // bias: builds are rarer than setters so that histories get long before the first build
        let syms: Vec<usize> = (0..len).map(|_| if rng.chance(1, 6) { k - 1 } else { rng.below(k - 1) }).collect();
        let ops = syms_to_ops(prop, &syms);
        let c = Case { p, key: pools.key(p, j % pools.count(p)), ops };
        judge(prop, &c, r);
        r.count(&format!("random words {}", p.name()));
    });
    total.merge(r);
    // a build that FAILS IN THE SEALING STEP (unusable private-key material on the public protocols, an injected RNG failure on
    // the local ones - hook verif::set_rng_fault) in the middle of a builder's life: whatever that call left behind, the builds
    // that follow are judged like any other
    {
        let nf = if thorough { 6000 } else { 400 };
        let r = parallel(nf * ALL.len(), util::threads(), |i, r| {
            let p = ALL[i % ALL.len()];
            if (p == P::V1P || p == P::V3P) && (i / ALL.len()) % 8 != 0 {
                return;
            }
            let mut rng = Rng::new(seed, "c13-seal-fault", (i as u64) << 1 | (prop == "C17") as u64);
            let key = pools.key(p, i % pools.count(p));
            let gen = |rng: &mut Rng, n: usize| -> Vec<usize> { (0..n).map(|_| rng.below(k - 1)).collect() };
            let (n1, n2) = (rng.below(4), rng.below(3));
            let (s1, s2) = (gen(&mut rng, n1), gen(&mut rng, n2));
            // one occurrence counter over both halves, so that a repeated setter still uses a different value
            let mut all = s1.clone();
            all.extend(s2.iter().copied());
            let mut ops_all = syms_to_ops(prop, &all);
            ops_all.pop(); // the appended final build
            let (head, tail) = ops_all.split_at(s1.len());
            let mut ops: Vec<BOp> = head.to_vec();
            if rng.chance(1, 3) {
                ops.push(BOp::Build);
            }
            if p.is_local() {
                ops.push(BOp::RngFault(true));
                ops.push(BOp::Build);
                if rng.chance(1, 4) {
                    ops.push(BOp::Build);
                }
                ops.push(BOp::RngFault(false));
            } else {
                let mut bad = key.clone();
                for b in bad.sk.iter_mut() {
                    *b = 0xff;
                }
                ops.push(BOp::UseKey(Box::new(bad)));
                ops.push(BOp::Build);
                ops.push(BOp::UseKey(Box::new(key.clone())));
            }
            ops.extend(tail.iter().cloned());
            ops.push(BOp::Build);
            if rng.chance(1, 3) {
                ops.push(BOp::Build);
            }
            let c = Case { p, key, ops };
            let before = r.violations_total;
            judge(prop, &c, r);
            if r.violations_total == before {
                r.count("histories with a failed sealing step conform");
            }
        });
        total.merge(r);
        total.require("histories with a failed sealing step conform", (nf * 6 / 2) as u64);
    }
    // caller-supplied exp / nbf / iat in UNUSUAL spellings that the typed constructors nevertheless accept on this tree (ISO 8601
    // forms outside RFC 3339: hour 24, basic format, ordinal and week dates, day 30 of February, a leap second, many fraction
    // digits ...): what the constructor accepted is the caller's value, and the token must carry it like any other
    if prop == "C13" {
        let mut ru = Report::new();
        let exotic = [
            "2031-12-31T24:00:00Z", "2031-12-31T24:00:00+00:00", "2031-02-30T00:00:00Z", "2031-04-31T12:00:00+02:00", "20311231T120000Z", "2031-365T00:00:00Z", "2031-366T00:00:00Z", "2031-W52-7T00:00:00Z",
            "2031-12-31T23:59:60Z", "2031-12-31T23:59:59.123456789012345678Z", "2031-12-31T23:59Z", "2031-12-31T23Z", "2031-12-31", "2031-12-31T23:59:59", "2031-12-31T23:59:59+14:00", "2031-12-31T23:59:59-12:00",
            "2031-12-31T23:59:59,5Z", "2031-12-31t23:59:59z", "2031-12-31 23:59:59Z", "+002031-12-31T23:59:59Z", "9999-12-31T23:59:59Z", "0000-01-01T00:00:00Z", "2031-12-31T23:59:59+0000", "2031-12-31T23:59:59+00",
        ];
        for which in ["exp", "nbf", "iat"] {
            for text in exotic {
                if !time_claim_accepted(which, text) {
                    ru.count("unusual time spelling refused by the constructor (no case)");
                    continue;
                }
                ru.see("unusual time spellings accepted by the constructors", &format!("{} {}", which, text));
                let claim = match which {
                    "exp" => Claim::Exp(text.to_string()),
                    "nbf" => Claim::Nbf(text.to_string()),
                    _ => Claim::Iat(text.to_string()),
                };
                for (wi, tail) in [vec![BOp::Build], vec![BOp::Footer("f".into()), BOp::Build, BOp::Build], vec![BOp::Set(Claim::Iss("i".into())), BOp::Build]].into_iter().enumerate() {
                    for &p in &[P::V4L, P::V2L, P::V4P, P::V3L][..if wi == 0 { 4 } else { 1 }] {
                        let mut ops = vec![BOp::Set(claim.clone())];
                        ops.extend(tail.iter().cloned());
                        let c = Case { p, key: pools.key(p, 0), ops };
                        let before = ru.violations_total;
                        judge(prop, &c, &mut ru);
                        if ru.violations_total == before {
                            ru.count("unusual accepted time spellings arrive in the token");
                        }
                    }
                }
            }
        }
        ru.require("unusual accepted time spellings arrive in the token", 30);
        total.merge(ru);
    }
    // different keys that collide under common hashes / truncations are NOT a repetition (C17), and both must arrive (C13: n/a)
    if prop == "C17" {
        let mut rc = Report::new();
        let pairs = crate::gens::colliding_key_pairs();
        for (i, (a, b)) in pairs.iter().enumerate() {
            for flip in [false, true] {
                let (x, y) = if flip { (b, a) } else { (a, b) };
                let p = if i % 4 == 0 { P::V4P } else { P::V4L };
                let mut ops = vec![BOp::Set(Claim::Custom(x.clone(), json!(1))), BOp::Set(Claim::Sub("s".into())), BOp::Set(Claim::Custom(y.clone(), json!(2))), BOp::Build];
                if flip {
                    // ... and a real repetition of one of them afterwards is still one
                    ops.push(BOp::Set(Claim::Custom(x.clone(), json!(3))));
                    ops.push(BOp::Build);
                }
                let c = Case { p, key: pools.key(p, 0), ops };
                let before = rc.violations_total;
                judge(prop, &c, &mut rc);
                if rc.violations_total == before {
                    rc.count("colliding-key pairs judged as different keys");
                }
            }
        }
        // many distinct keys on one builder (beyond an 8-bit counter), then one of them again
        for n in [255usize, 256, 257, 600] {
            let mut ops: Vec<BOp> = (0..n).map(|i| BOp::Set(Claim::Custom(format!("k{}", i), json!(i)))).collect();
            ops.push(BOp::Build);
            ops.push(BOp::Set(Claim::Custom(format!("k{}", n - 1), json!("again"))));
            ops.push(BOp::Build);
            let c = Case { p: P::V4L, key: pools.key(P::V4L, 0), ops };
            let before = rc.violations_total;
            judge(prop, &c, &mut rc);
            if rc.violations_total == before {
                rc.count("many-key histories conform");
            }
        }
        rc.require("many-key histories conform", 4);
        rc.require("colliding-key pairs judged as different keys", 60);
        total.merge(rc);
    }
    // two builders alive at once, operations interleaved: each must behave as if alone
    {
        let npairs = if thorough { 40_000 } else { 3_000 };
        let r = parallel(npairs, util::threads(), |i, r| {
            let mut rng = Rng::new(seed, "c13-pairs", (i as u64) << 1 | (prop == "C17") as u64);
            // same protocol half of the time (one monomorphisation), different ones otherwise (state shared across them)
            let pa = ALL[rng.below(ALL.len())];
            let pb = if rng.chance(1, 2) { pa } else { ALL[rng.below(ALL.len())] };
            // RSA signing is slow: keep v1.public pairs rare
            let (pa, pb) = if (pa == P::V1P || pb == P::V1P) && i % 16 != 0 { (P::V4L, if pb == P::V1P { P::V4P } else { pb }) } else { (pa, pb) };
            let mk = |rng: &mut Rng, p: P, j: usize| {
                let len = 1 + rng.below(5);
                let syms: Vec<usize> = (0..len).map(|_| if rng.chance(1, 6) { k - 1 } else { rng.below(k - 1) }).collect();
                Case { p, key: pools.key(p, j % pools.count(p)), ops: syms_to_ops(prop, &syms) }
            };
            let a = mk(&mut rng, pa, 0);
            let b = mk(&mut rng, pb, 1);
            let mut schedule: Vec<bool> = std::iter::repeat(false).take(a.ops.len()).chain(std::iter::repeat(true).take(b.ops.len())).collect();
            rng.shuffle(&mut schedule);
            let pc = PairCase { a, b, schedule };
            // clock-dependent verdicts are re-established on a fresh execution, as for single builders
            let mut attempt = 0;
            loop {
                let mut tmp = Report::new();
                run_pair(prop, &pc, &mut tmp);
                let clocky = tmp.violation_sigs.keys().any(|k| k.contains("default-iat-wrong") || k.contains("default-nbf-wrong") || k.contains("default-lifetime-wrong"));
                if clocky && attempt < 2 {
                    attempt += 1;
                    r.discard("clock-dependent verdict re-established on a fresh execution");
                    continue;
                }
                r.merge(tmp);
                break;
            }
        });
        total.merge(r);
        total.require("interleaved builder pairs conform", (npairs / 2) as u64);
    }
    // builders on DIFFERENT threads at the same moment (barrier-released rounds, names new to the process in every round)
    {
        let nthreads = util::threads().clamp(2, 8);
        let rounds = if thorough { 60_000 } else { 4_000 };
        // the custom-claim symbols of the alphabet (names a process-wide table would have to learn)
        let customs: Vec<usize> = if prop == "C13" { vec![4, 8, 9, 10] } else { vec![7, 8, 11, 12, 13] };
        let r = run_concurrent(prop, nthreads, rounds, 0, |round, t| {
            let mut rng = Rng::new(seed, "c13-conc", ((round as u64) << 8 | t as u64) << 1 | (prop == "C17") as u64);
            // mostly the fast protocols, so that the threads stay in step; each thread picks its own
            let p = if rng.chance(1, 64) { ALL[rng.below(ALL.len())] } else { [P::V4L, P::V4L, P::V2L, P::V4P, P::V3L][rng.below(5)] };
            let p = if p == P::V1P && round % 16 != 0 { P::V4L } else { p };
            let len = 1 + rng.below(7);
            // half of the setters are custom claims: repeated and fresh names both occur within one short word
            let mut syms: Vec<usize> = (0..len).map(|_| if rng.chance(1, 7) { k - 1 } else if rng.chance(1, 2) { customs[rng.below(customs.len())] } else { rng.below(k - 1) }).collect();
            // every second round ALL threads open with the same new name (maximal contention on whatever learns names), and
            // half of them supply it a second time later in the word
            if round % 2 == 1 {
                let c = customs[(round / 2) % customs.len()];
                syms.insert(0, c);
                if rng.chance(1, 2) {
                    let at = 1 + rng.below(syms.len());
                    syms.insert(at, c);
                }
            }
            Case { p, key: pools.key(p, t % pools.count(p)), ops: syms_to_ops(prop, &syms) }
        });
        total.merge(r);
        total.require("concurrent builders conform", (rounds * nthreads / 2) as u64);
    }
    // builders created at MANY instants of the virtual clock: defaults must be exactly (now+1h, now, now)
    if prop == "C13" {
        let mut vn: Vec<i128> = [1i128, 951_865_199, 951_868_799, 978_303_600, 978_307_199, 2_147_480_048, 2_147_483_647, 4_102_441_200, 4_102_444_799, 9_223_368_436, 9_223_372_036, 32_503_676_400, 221_845_388_399]
            .iter()
            .map(|s| s * 1_000_000_000)
            .collect();
        let mut rng = Rng::new(seed, "c13-virtual-now", 0);
        for _ in 0..(if thorough { 20_000 } else { 600 }) {
            vn.push((rng.next() % 221_000_000_000) as i128 * 1_000_000_000 + (rng.next() % 1_000_000_000) as i128);
        }
        for t in [1_791_071_999, 1_791_072_000, 1_793_491_199, 1_793_491_200, 1_798_758_000, 1_798_761_599, 1_798_761_600, 1_803_859_199, 1_835_479_800, 1_835_395_199, 1_791_032_399, 1_791_032_400, 1_791_028_859, 1_909_094_399, 1_932_764_401] {
            vn.push(t as i128 * 1_000_000_000);
            vn.push(t as i128 * 1_000_000_000 + 999_999_999);
        }
        vn.push(1_790_000_000_999_999_999);
        // the last hour of year 9999: now + 1 h is not representable.  Creation may refuse (the unchanged code panics in
        // Default - no token, no verdict); a token that IS built must still carry exp == iat + 1 h exactly
        for t in [253_402_297_199i128, 253_402_297_200, 253_402_297_201, 253_402_300_000, 253_402_300_799] {
            vn.push(t * 1_000_000_000 + 250_000_000);
        }
        let words: Vec<Vec<usize>> = vec![vec![], vec![3], vec![13, 13], vec![5], vec![1, 13, 0], vec![4, 13, 5], vec![11, 12]];
        // Is the hook on the builder's path at all?  A builder created with the virtual clock at 2100-01-01 must not stamp
        // the REAL current time: if it does, the builder no longer consults the hooked time source (a refactoring) and the
        // instants below would be judged against real-clock defaults — skipped as inconclusive, never a violation.
        let live = {
            let c = Case { p: P::V4L, key: pools.key(P::V4L, 0), ops: syms_to_ops(prop, &[]) };
            let before = util::now_unix_nanos();
            let run = run_word_at(&c, Some(4_102_444_800i128 * 1_000_000_000));
            let after = util::now_unix_nanos();
            let iat = run.builds.first().and_then(|b| b.payload.as_ref()).and_then(|m| m.get("iat")).and_then(|v| v.as_str()).and_then(parse_rfc3339);
            match iat {
                Some(t) if t >= before - 5_000_000 && t <= after + 5_000_000 => false,
                _ => true,
            }
        };
        if !live {
            total.inconclusive.push("virtual-clock hook not reached by PasetoBuilder::default() (a builder created with the virtual clock at 2100-01-01 stamped the real time): virtual-clock builders skipped".into());
        }
        let vn = if live { vn } else { Vec::new() };
        let r = parallel(vn.len(), util::threads(), |i, r| {
            let p = [P::V4L, P::V4L, P::V2L, P::V4P, P::V3L, P::V1L][i % 6];
            let c = Case { p, key: pools.key(p, i % pools.count(p)), ops: syms_to_ops(prop, &words[i % words.len()]) };
            let run = run_word_at(&c, Some(vn[i]));
            if run.builds.iter().any(|b| matches!(&b.out, Out::Err(e) if e.starts_with("BuilderCreation/"))) {
                r.count("builder creation refused at the edge of the representable time range (no token, no verdict)");
                r.see("builder creation refusals", &format!("virtual now {} s: {}", vn[i] / 1_000_000_000, run.builds[0].out.brief()));
                return;
            }
            let before = r.violations_total;
            check_c13(&c, &run, r);
            if r.violations_total == before {
                r.count("builders created on the virtual clock conform");
            }
        });
        total.merge(r);
        if live {
            total.require("builders created on the virtual clock conform", 300);
        }
    }
    total.require("exhaustive words (v4.local)", totalw as u64);
    for &p in &ALL {
        if prop == "C13" {
            total.require(&format!("{} first-build conforms", p.name()), 20);
            total.require(&format!("{} later-build conforms", p.name()), 5);
        } else {
            total.require(&format!("{} duplicate-refused", p.name()), 10);
            total.require(&format!("{} built-with-caller-values", p.name()), 10);
        }
    }
    total
}

pub fn replay(prop: &str, case: &Value) -> Report {
    let mut r = Report::new();
    match serde_json::from_value::<Case>(case.clone()) {
        Ok(c) => {
            let run = run_word(&c);
            if prop == "C13" {
                check_c13(&c, &run, &mut r)
            } else {
                check_c17(&c, &run, &mut r)
            }
        }
        Err(e) => r.inconclusive.push(format!("cannot decode replay case: {}", e)),
    }
    r
}

pub fn replay_pair(prop: &str, case: &Value) -> Report {
    let mut r = Report::new();
    match serde_json::from_value::<PairCase>(case.clone()) {
        Ok(c) => run_pair(prop, &c, &mut r),
        Err(e) => r.inconclusive.push(format!("cannot decode replay case: {}", e)),
    }
    r
}

pub const RULE_C13: &str = "call words over {set exp, set nbf, set iat, set iss, set custom a, set custom 'Exp' / 'IAT' / 'Nbf' (custom claims that equal a time claim up to case), an attempt to set a custom claim named exactly exp (null) or nbf (refused by the constructor in both forms: must leave no trace), acknowledge, set_footer, set_implicit_assertion, build} (a final build is appended to words that do not end in one): ALL words up to length 4 (thorough 6) on v4.local, seeded random words up to length 12 on all 8 protocols; plus 614 (thorough 20014) builders created at instants of a VIRTUAL clock (hook verif::set_now: year/leap-day boundaries, the last and first second of a minute / hour / day / month / year, 2^31 s, the i64-ns limit, up to year 8999, random, odd sub-second parts) whose defaults must be exactly (now+1h, now, now). Plus 3000 (thorough 40000) PAIRS of builders (same or different protocols) alive at once on one thread with their operations interleaved in a seeded order: each must behave exactly as if it were alone. Plus 4000 (thorough 60000) barrier-released ROUNDS of up to 8 builders on DIFFERENT threads at once (custom claim names new to the process in every round, shared by the threads of the round), each judged as if alone. Plus histories in which one build FAILS IN THE SEALING STEP (unusable private-key material / injected RNG failure through the hook verif::set_rng_fault; no verdict on that build) and the builds that follow are judged like any other. Every token of every successful build (first and later builds of one builder) is read back and compared with a state machine written from the property: exp present iff not acknowledged; default exp == creation + 3600.000000000 s, default iat == default nbf within the clock bracket taken around the run (5 ms slack); caller-supplied exp/iat/nbf values present - also in ~24 unusual spellings outside RFC 3339 (hour 24, basic format, ordinal / week dates, 30 February, leap second, 18 fraction digits ...) for which the typed constructor is first probed: what it accepts must arrive in the token. distinct_nontrivial = distinct (protocol, word, build number) that built and conformed; caller-supplied instants lie on both sides of the creation time and of creation + 1 h";
pub const RULE_C17: &str = "call words over {set_claim(k) for k in exp,nbf,iat,iss,sub,aud,jti,a,b,userId,Role,role; acknowledge; set_footer; build} (a final build appended): ALL words up to length 4 (thorough 5) on v4.local, seeded random words up to length 40 on all 8 protocols; 3000 (thorough 40000) PAIRS of builders (same or different protocols) alive at once on one thread with their operations interleaved in a seeded order, each judged as if alone; 4000 (thorough 60000) barrier-released ROUNDS of up to 8 builders on DIFFERENT threads at once (custom claim names new to the process in every round, shared by the threads of the round; half of the setters are custom claims), each judged as if alone; histories in which one build fails in the sealing step (unusable private-key material / injected RNG failure; no verdict on that build) and the following builds are judged like any other; every occurrence of a setter uses a different value, except in every second word, where a repeated setter supplies the SAME value again (still a repetition). Plus ~45 pairs of DIFFERENT custom keys that collide under FNV-1/1a, the 31-multiplier hash, djb2, CRC-32, byte sums, truncation (8..256 bytes, u8/u16 characters), NFC/NFD or an embedded NUL: setting both is not a repetition, setting one of them again is; 255/256/257/600 distinct keys on one builder, then one of them again. Model: once any key has been supplied twice every build must fail with the duplicate-claim error naming one of the duplicated keys; otherwise every build must succeed and carry the caller's values; exp supplied after the acknowledgement may be refused as duplicate or ignored. distinct_nontrivial = distinct (protocol, word, build number, outcome class)";
