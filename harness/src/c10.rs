//! C10: the generic and batteries-included local builders never reuse a nonce.
//! History monitor: N builds under one key with IDENTICAL claims/footer/assertion; nonce fields
//! (first 32 bytes of the decoded payload, v2: 24) must be pairwise distinct, no byte position
//! constant, every bit frequency within N/2 +- 5.3*sqrt(N) (Hoeffding, per-bit false alarm < 2^-79).
use crate::proto::*;
use crate::report::Report;
use crate::util;
use serde::{Deserialize, Serialize};
use serde_json::{json, Value};
use std::collections::HashSet;

#[derive(Clone, Debug, Serialize, Deserialize)]
pub struct Case {
    pub p: P,
    pub layer: Layer,
    pub reuse: bool,
    pub n: usize,
    pub threads: usize,
    /// the identical payload carries a 3 000-byte claim and a 1 500-byte footer (a nonce derived from a bounded buffer of
    /// payload || footer || randomness loses its randomness once the other pieces fill the buffer)
    #[serde(default)]
    pub big: bool,
}

fn fixed_claims() -> Vec<ClaimOp> {
    vec![
        ClaimOp::Set(Claim::Custom("data".into(), json!("identical payload"))),
        ClaimOp::Set(Claim::Sub("subject".into())),
        ClaimOp::Set(Claim::Exp("2999-01-01T00:00:00+00:00".into())),
    ]
}

fn build_many(c: &Case, key: &KeyMat, n: usize) -> Vec<Out<String>> {
    let big_footer = "F".repeat(1500);
    let footer = if c.big { Some(big_footer.as_str()) } else { Some("ftr") };
    let ia = if c.p.has_assertion() { Some("ia") } else { None };
    match c.layer {
        Layer::Generic => {
            let mut claims = fixed_claims();
            if c.big {
                claims.push(ClaimOp::Set(Claim::Custom("blob".into(), json!("b".repeat(3000)))));
            }
            generic_seal_many(c.p, key, &claims, footer, ia, n, c.reuse)
        }
        _ => {
            // exp/iat/nbf pinned so that the payload is identical from build to build
            let mut pre = vec![
                BOp::Set(Claim::Exp("2999-01-01T00:00:00+00:00".into())),
                BOp::Set(Claim::Iat("2020-01-01T00:00:00+00:00".into())),
                BOp::Set(Claim::Nbf("2020-01-01T00:00:00+00:00".into())),
                BOp::Set(Claim::Custom("data".into(), json!("identical payload"))),
                BOp::Footer(footer.unwrap_or("ftr").to_string()),
            ];
            if c.big {
                pre.push(BOp::Set(Claim::Custom("blob".into(), json!("b".repeat(3000)))));
            }
            if c.p.has_assertion() {
                pre.push(BOp::Assertion("ia".into()));
            }
            if c.reuse {
                let mut ops = pre;
                for _ in 0..n {
                    ops.push(BOp::Build);
                }
                batteries_run(c.p, key, &ops)
            } else {
                let mut ops = pre;
                ops.push(BOp::Build);
                (0..n).map(|_| batteries_run(c.p, key, &ops).pop().unwrap_or(Out::Err("no build".into()))).collect()
            }
        }
    }
}

thread_local! {
    /// every nonce minted under the (single) test key in this process, per protocol: nonces must also be distinct ACROSS
    /// histories (a nonce source with a small state space collides by the birthday bound long before one history does)
    static ALL_NONCES: std::cell::RefCell<std::collections::HashMap<&'static str, HashSet<Vec<u8>>>> = std::cell::RefCell::new(std::collections::HashMap::new());
}

fn register_nonces(p: P, tag: &str, nonces: &[Vec<u8>], r: &mut Report) {
    ALL_NONCES.with(|m| {
        let mut m = m.borrow_mut();
        let set = m.entry(p.name()).or_default();
        let mut hit: Option<&Vec<u8>> = None;
        let mut nhit = 0usize;
        for x in nonces {
            if !set.insert(x.clone()) {
                nhit += 1;
                if hit.is_none() {
                    hit = Some(x);
                }
            }
        }
        match hit {
            Some(x) => r.violation(
                format!("C10 nonce-repeated-across-histories {}", p.name()),
                format!("{}: {} nonce(s) of history {} were already used by an earlier history under the same key in this process ({} nonces so far); first: {}", p.name(), nhit, tag, set.len(), util::hex(x)),
                json!({"cmd": "C10", "note": "cross-history case: re-run the check", "protocol": p.name()}),
            ),
            None => r.count(&format!("{} nonces distinct across all histories of the process", p.name())),
        }
    });
}

pub fn run_case(c: &Case, r: &mut Report) {
    let key = KeyMat::sym(*b"wubbalubbadubdubwubbalubbadubdub");
    let tag = format!("{}/{}/{}{}", c.p.name(), c.layer.name(), if c.reuse { "one-builder" } else { "fresh-builder" }, if c.big { "/large-payload" } else { "" });
    let per = c.n / c.threads.max(1);
    let mut tokens: Vec<String> = Vec::with_capacity(c.n);
    let mut failed = 0usize;
    let mut first_fail = String::new();
    std::thread::scope(|s| {
        let hs: Vec<_> = (0..c.threads.max(1)).map(|_| s.spawn(|| build_many(c, &key, per))).collect();
        for h in hs {
            match h.join() {
                Ok(v) => {
                    for o in v {
                        match o {
                            Out::Ok(t) => tokens.push(t),
                            other => {
                                failed += 1;
                                if first_fail.is_empty() {
                                    first_fail = other.brief();
                                }
                            }
                        }
                    }
                }
                Err(_) => r.inconclusive.push("builder thread died".into()),
            }
        }
    });
    r.evaluations += (tokens.len() + failed) as u64;
    let replay = json!({"cmd": "C10", "case": c});
    if failed > 0 {
        // a failing build is not C10's business unless nothing was built
        r.discard(&format!("{} builds failed ({})", tag, first_fail));
    }
    let n = tokens.len();
    if n < 1000 {
        r.inconclusive.push(format!("{}: only {} tokens were built ({} failed: {})", tag, n, failed, first_fail));
        return;
    }
    let nl = c.p.nonce_len();
    let mut nonces: Vec<Vec<u8>> = Vec::with_capacity(n);
    for t in &tokens {
        match crate::c03::parts(c.p, t) {
            Some(pt) if pt.payload.len() >= nl => nonces.push(pt.payload[..nl].to_vec()),
            _ => {
                r.inconclusive.push(format!("{}: built token does not decode", tag));
                return;
            }
        }
    }
    // pairwise distinct nonces and tokens
    let mut seen: HashSet<&[u8]> = HashSet::with_capacity(n);
    let mut dup = None;
    for (i, x) in nonces.iter().enumerate() {
        if !seen.insert(x.as_slice()) {
            dup = Some(i);
            break;
        }
    }
    let tokset: HashSet<&str> = tokens.iter().map(|s| s.as_str()).collect();
    if let Some(i) = dup {
        let first = nonces.iter().position(|x| x == &nonces[i]).unwrap_or(0);
        r.violation(
            format!("C10 nonce-repeated {}", tag),
            format!("{}: builds #{} and #{} of {} (same key, identical claims) carry the same nonce {}", tag, first, i, n, util::hex(&nonces[i])),
            replay.clone(),
        );
    } else if tokset.len() != n {
        r.violation(format!("C10 token-repeated {}", tag), format!("{}: {} builds produced only {} distinct tokens", tag, n, tokset.len()), replay.clone());
    } else {
        r.count(&format!("{} all-distinct", tag));
    }
    if dup.is_none() {
        register_nonces(c.p, &tag, &nonces, r);
    }
    // per-bit frequency
    let bound = 5.3 * (n as f64).sqrt();
    let mut worst = 0f64;
    let mut biased: Vec<(usize, usize)> = Vec::new();
    for bit in 0..nl * 8 {
        let ones = nonces.iter().filter(|x| x[bit / 8] >> (bit % 8) & 1 == 1).count();
        let dev = (ones as f64 - n as f64 / 2.0).abs();
        if dev > worst {
            worst = dev;
        }
        if dev > bound {
            biased.push((bit, ones));
        }
    }
    if !biased.is_empty() {
        r.violation(
            format!("C10 nonce-bit-bias {}", tag),
            format!("{}: {} of {} nonce bits have a one-frequency outside {:.0} +- {:.0} over {} builds (first: bit {} set {} times)", tag, biased.len(), nl * 8, n as f64 / 2.0, bound, n, biased[0].0, biased[0].1),
            replay.clone(),
        );
    } else {
        r.count(&format!("{} bits-unbiased", tag));
    }
    // constant byte positions
    let mut constant = Vec::new();
    let mut min_distinct = 256;
    for pos in 0..nl {
        let d: HashSet<u8> = nonces.iter().map(|x| x[pos]).collect();
        min_distinct = min_distinct.min(d.len());
        if d.len() < 2 {
            constant.push(pos);
        }
    }
    if !constant.is_empty() {
        r.violation(format!("C10 nonce-byte-constant {}", tag), format!("{}: nonce byte position(s) {:?} never change over {} builds", tag, constant, n), replay.clone());
    } else {
        r.count(&format!("{} no-constant-byte", tag));
    }
    // a builder that has been used thousands of times must still produce tokens that are bound as configured:
    // sample 64 tokens spread over the history (and the last one) and open them
    if c.threads == 1 {
        let ia = if c.p.has_assertion() { Some("ia") } else { None };
        let big_footer = "F".repeat(1500);
        let step = (n / 64).max(1);
        let mut bad = 0usize;
        let mut first_bad = String::new();
        for i in (0..n).step_by(step).chain(std::iter::once(n - 1)) {
            let o = open_at(c.layer, c.p, &key, &tokens[i], Some(if c.big { big_footer.as_str() } else { "ftr" }), ia).0;
            let ok = match &o {
                Out::Ok(s) => s.contains("identical payload"),
                _ => false,
            };
            if !ok {
                bad += 1;
                if first_bad.is_empty() {
                    first_bad = format!("token #{}: {}", i + 1, o.brief());
                }
            }
        }
        r.evaluations += 65;
        if bad > 0 {
            r.violation(
                format!("C10 late-token-not-bound-as-configured {}", tag),
                format!("{}: {} of 65 sampled tokens of a {}-build history do not open with the configured footer/assertion/payload (first: {})", tag, bad, n, first_bad),
                replay.clone(),
            );
        } else {
            r.count(&format!("{} sampled tokens of the history open as configured", tag));
        }
    }
    r.distinct(format!("{}|n={}|threads={}", tag, n, c.threads));
    r.see("max-bit-deviation-in-sigmas", &format!("{} {:.2} (bound 10.6)", tag, worst / ((n as f64).sqrt() / 2.0)));
    r.see("min-distinct-values-per-byte-position", &format!("{} {}", tag, min_distinct));
    // nonce heads for the cross-process comparison done by the parent
    for x in nonces.iter().take(64) {
        r.see(&format!("nonce-heads {}", tag), &util::hex(x));
    }
    r.sample(json!({"config": tag, "builds": n, "threads": c.threads, "distinct_nonces": seen.len(), "distinct_tokens": tokset.len(), "max_bit_deviation": worst, "bit_bound": bound, "min_distinct_per_byte": min_distinct, "first_nonces": nonces.iter().take(3).map(|x| util::hex(x)).collect::<Vec<_>>()}));
}

/// Fault injection (hook `verif::set_rng_fault`): while the system RNG "fails", a local builder either fails or
/// (if its nonce source is not the faulted one) hands out tokens whose nonces are still pairwise distinct; a fallback to
/// a default/zero/input-derived nonce shows up as a repeat.  After the fault is cleared the same builder must work again
/// and produce distinct nonces.
pub fn rng_fault(r: &mut Report) {
    let key = KeyMat::sym(*b"wubbalubbadubdubwubbalubbadubdub");
    for &p in &LOCALS {
        for layer in [Layer::Generic, Layer::Batteries] {
            let c = Case { p, layer, reuse: false, n: 8, threads: 1, big: false };
            let tag = format!("{}/{}", p.name(), layer.name());
            rusty_paseto::verif::set_rng_fault(true);
            let during = build_many(&c, &key, 8);
            let c2 = Case { reuse: true, ..c.clone() };
            let during_reuse = build_many(&c2, &key, 8);
            rusty_paseto::verif::set_rng_fault(false);
            let after = build_many(&c, &key, 8);
            r.evaluations += (during.len() + during_reuse.len() + after.len()) as u64;
            let replay = json!({"cmd": "C10", "note": "RNG fault-injection case: re-run the check", "protocol": p.name(), "layer": layer.name()});
            let leaked: Vec<&Out<String>> = during.iter().chain(during_reuse.iter()).filter(|o| !o.is_err()).collect();
            if !leaked.is_empty() {
                // The property is "no nonce is used twice", not "builds fail when the RNG fails": a builder that draws its
                // nonce from a source the fault switch does not reach hands out tokens with FRESH nonces, which is fine.
                // What the fault is there to expose is a fallback to a stale / default / input-derived nonce: then the
                // tokens built under identical inputs while the fault is armed share their nonce field.
                let nonce_of = |t: &String| crate::c03::parts(p, t).map(|x| util::hex(&x.payload[..p.nonce_len().min(x.payload.len())])).unwrap_or_default();
                let ns: Vec<String> = leaked.iter().filter_map(|o| o.ok()).map(|t| nonce_of(t)).collect();
                let mut all: HashSet<String> = after.iter().filter_map(|o| o.ok()).map(|t| nonce_of(t)).collect();
                let mut repeated: Option<String> = None;
                for n in &ns {
                    if !all.insert(n.clone()) {
                        repeated = Some(n.clone());
                        break;
                    }
                }
                if let Some(n) = repeated {
                    r.violation(
                        format!("C10 nonce-reused-while-rng-fails {}", tag),
                        format!("{}: with the system RNG failing, {} of {} builds still returned a token and the nonce field {} occurs more than once among them and the builds after the fault", tag, leaked.len(), during.len() + during_reuse.len(), n),
                        replay,
                    );
                } else {
                    r.count(&format!("{} rng-fault: tokens handed out with pairwise distinct nonces (fault switch not on this builder's path)", tag));
                    r.count(&format!("{} rng-fault: no nonce repeated", tag));
                }
            } else {
                r.count(&format!("{} rng-fault: every build failed closed", tag));
                r.count(&format!("{} rng-fault: no nonce repeated", tag));
                for o in during.iter().take(1) {
                    r.see("error variants while the RNG fails", o.err().unwrap_or("?"));
                }
            }
            let ok_after: Vec<&String> = after.iter().filter_map(|o| o.ok()).collect();
            let distinct: HashSet<&&String> = ok_after.iter().collect();
            if ok_after.len() != after.len() || distinct.len() != ok_after.len() {
                r.violation(
                    format!("C10 builder-broken-after-rng-fault {}", tag),
                    format!("{}: after the RNG fault was cleared {} of {} builds succeeded with {} distinct tokens", tag, ok_after.len(), after.len(), distinct.len()),
                    json!({"cmd": "C10", "note": "RNG fault-injection case: re-run the check", "protocol": p.name(), "layer": layer.name()}),
                );
            } else {
                r.count(&format!("{} rng-fault: builds recover afterwards", tag));
                r.distinct(format!("{}|rng-fault", tag));
            }
        }
    }
}

/// Idle pauses: builds, a pause of real time, more builds ON THE SAME THREAD (fresh builders, and one batteries-included
/// builder kept across the pauses).  A nonce source that re-seeds, rewinds or re-reads a clock after an idle period shows
/// up as a nonce that was already used before the pause; tight loops of any length never see it.
pub fn pause_histories(tier: &str, r: &mut Report) {
    let key = KeyMat::sym(*b"wubbalubbadubdubwubbalubbadubdub");
    let pauses: Vec<u64> = if tier == "thorough" { vec![1300, 3100, 11_000, 31_000] } else { vec![1300] };
    let mut total = Report::new();
    std::thread::scope(|s| {
        let mut hs = Vec::new();
        for &p in &LOCALS {
            for layer in [Layer::Generic, Layer::Batteries] {
                for &ms in &pauses {
                    let key = key.clone();
                    hs.push(s.spawn(move || {
                        let mut r = Report::new();
                        let tag = format!("{}/{}", p.name(), layer.name());
                        let c = Case { p, layer, reuse: false, n: 6, threads: 1, big: false };
                        let c_reuse = Case { reuse: true, ..c.clone() };
                        let mut kept = if layer == Layer::Batteries { Some(batteries_session(p, &key)) } else { None };
                        if let Some(k) = kept.as_mut() {
                            for op in [BOp::Set(Claim::Exp("2999-01-01T00:00:00+00:00".into())), BOp::Set(Claim::Iat("2020-01-01T00:00:00+00:00".into())), BOp::Set(Claim::Nbf("2020-01-01T00:00:00+00:00".into())), BOp::Footer("ftr".into())] {
                                let _ = k.step(&op);
                            }
                        }
                        let mut toks: Vec<(usize, String)> = Vec::new();
                        let mut failed = 0usize;
                        for phase in 0..3usize {
                            if phase > 0 {
                                std::thread::sleep(std::time::Duration::from_millis(ms));
                            }
                            let mut outs = build_many(&c, &key, 6);
                            outs.extend(build_many(&c_reuse, &key, 6));
                            if let Some(k) = kept.as_mut() {
                                for _ in 0..4 {
                                    if let Some(o) = k.step(&BOp::Build) {
                                        outs.push(o);
                                    }
                                }
                            }
                            for o in outs {
                                match o {
                                    Out::Ok(t) => toks.push((phase, t)),
                                    _ => failed += 1,
                                }
                            }
                        }
                        r.evaluations += (toks.len() + failed) as u64;
                        if toks.len() < 30 {
                            r.inconclusive.push(format!("{} pause history: only {} tokens built ({} failed)", tag, toks.len(), failed));
                            return r;
                        }
                        let nl = p.nonce_len();
                        let mut seen: std::collections::HashMap<Vec<u8>, (usize, usize)> = std::collections::HashMap::new();
                        let mut hit = None;
                        for (i, (phase, t)) in toks.iter().enumerate() {
                            if let Some(pt) = crate::c03::parts(p, t) {
                                if pt.payload.len() >= nl {
                                    if let Some(prev) = seen.insert(pt.payload[..nl].to_vec(), (i, *phase)) {
                                        hit = Some((prev, (i, *phase), util::hex(&pt.payload[..nl])));
                                        break;
                                    }
                                }
                            }
                        }
                        match hit {
                            Some(((i0, ph0), (i1, ph1), n)) => r.violation(
                                format!("C10 nonce-repeated-after-idle-pause {}", tag),
                                format!("{}: builds on one thread with idle pauses of {} ms between three bursts: build #{} (burst {}) and build #{} (burst {}) carry the same nonce {}", tag, ms, i0, ph0, i1, ph1, n),
                                json!({"cmd": "C10", "note": "idle-pause history: re-run the check", "protocol": p.name(), "layer": layer.name(), "pause_ms": ms}),
                            ),
                            None => {
                                r.count(&format!("{} idle-pause history all-distinct", tag));
                                r.distinct(format!("{}|pause={}ms", tag, ms));
                            }
                        }
                        r
                    }));
                }
            }
        }
        for h in hs {
            match h.join() {
                Ok(x) => total.merge(x),
                Err(_) => total.inconclusive.push("pause-history worker died".into()),
            }
        }
    });
    r.merge(total);
}

/// Validate-then-reissue histories: on ONE thread, builds alternate with PARSES of one and the same token (and of the token just
/// built) at the same layer.  Whatever a parse feeds into the thread's state, the builds that follow must still carry fresh nonces.
pub fn reissue_histories(tier: &str, r: &mut Report) {
    let key = KeyMat::sym(*b"wubbalubbadubdubwubbalubbadubdub");
    let rounds = if tier == "thorough" { 3000 } else { 300 };
    for &p in &LOCALS {
        for layer in [Layer::Generic, Layer::Batteries] {
            let tag = format!("{}/{}", p.name(), layer.name());
            let c = Case { p, layer, reuse: false, n: 1, threads: 1, big: false };
            let t0 = match build_many(&c, &key, 1).pop() {
                Some(Out::Ok(t)) => t,
                _ => {
                    r.inconclusive.push(format!("{} reissue history: cannot build the token to be presented", tag));
                    continue;
                }
            };
            let cfg = ParserCfg { footer: Some("ftr".into()), assertion: if p.has_assertion() { Some("ia".into()) } else { None }, ..Default::default() };
            let open = |tok: &str| {
                if layer == Layer::Generic {
                    let _ = generic_open(p, &key, tok, &cfg);
                } else {
                    let _ = batteries_open(p, &key, tok, &cfg);
                }
            };
            let nl = p.nonce_len();
            let mut seen: std::collections::HashMap<Vec<u8>, usize> = std::collections::HashMap::new();
            let mut nonces: Vec<Vec<u8>> = Vec::new();
            let mut hit = None;
            for i in 0..rounds {
                // the same token before every build; every third round also the token built in the round before
                open(&t0);
                if let Some(Out::Ok(t)) = build_many(&c, &key, 1).pop() {
                    r.evaluations += 1;
                    if i % 3 == 2 {
                        open(&t);
                    }
                    if let Some(pt) = crate::c03::parts(p, &t) {
                        if pt.payload.len() >= nl {
                            let n = pt.payload[..nl].to_vec();
                            if let Some(prev) = seen.insert(n.clone(), i) {
                                hit.get_or_insert((prev, i, util::hex(&n)));
                            }
                            nonces.push(n);
                        }
                    }
                }
            }
            let _ = vlog_take();
            if nonces.len() < rounds / 2 {
                r.inconclusive.push(format!("{} reissue history: only {} tokens built", tag, nonces.len()));
                continue;
            }
            match hit {
                Some((i0, i1, n)) => r.violation(
                    format!("C10 nonce-repeated-in-a-validate-then-reissue-history {}", tag),
                    format!("{}: on one thread, builds alternating with parses of one and the same token: build #{} and build #{} carry the same nonce {}", tag, i0 + 1, i1 + 1, n),
                    json!({"cmd": "C10", "note": "reissue history: re-run the check", "protocol": p.name()}),
                ),
                None => {
                    r.count(&format!("{} validate-then-reissue history all-distinct", tag));
                    r.distinct(format!("{}|reissue|{}", tag, rounds));
                }
            }
            register_nonces(p, &format!("{} reissue", tag), &nonces, r);
        }
    }
}

pub fn cases(tier: &str) -> Vec<Case> {
    let thorough = tier == "thorough";
    let mut v = Vec::new();
    for &p in &LOCALS {
        for layer in [Layer::Generic, Layer::Batteries] {
            for reuse in [false, true] {
                v.push(Case { p, layer, reuse, n: 4096, threads: 1, big: false });
            }
        }
        // identical LARGE payloads (3 000-byte claim, 1 500-byte footer)
        v.push(Case { p, layer: Layer::Generic, reuse: false, n: 1024, threads: 1, big: true });
        v.push(Case { p, layer: Layer::Batteries, reuse: true, n: 1024, threads: 1, big: true });
        // one builder object used 70 000 times: beyond any 16-bit call counter
        v.push(Case { p, layer: Layer::Generic, reuse: true, n: 70_000, threads: 1, big: false });
        v.push(Case { p, layer: Layer::Batteries, reuse: true, n: 70_000, threads: 1, big: false });
        // several threads minting at once (each its own builders): per-thread nonce sources must not run in lock-step
        v.push(Case { p, layer: Layer::Generic, reuse: false, n: 8192, threads: 8, big: false });
        v.push(Case { p, layer: Layer::Batteries, reuse: true, n: 8192, threads: 8, big: false });
        if thorough {
            v.push(Case { p, layer: Layer::Generic, reuse: false, n: 102_400, threads: 16, big: false });
            v.push(Case { p, layer: Layer::Batteries, reuse: true, n: 102_400, threads: 16, big: false });
            // 75 000 builds per builder object: beyond any 16-bit call counter
            v.push(Case { p, layer: Layer::Generic, reuse: true, n: 1_200_000, threads: 16, big: false });
        }
    }
    v
}

pub fn run(tier: &str, _seed: u64) -> Report {
    let mut r = Report::new();
    for c in cases(tier) {
        run_case(&c, &mut r);
    }
    rng_fault(&mut r);
    reissue_histories(tier, &mut r);
    pause_histories(tier, &mut r);
    for &p in &LOCALS {
        for l in ["generic", "batteries"] {
            for m in ["one-builder", "fresh-builder"] {
                r.require(&format!("{}/{}/{} all-distinct", p.name(), l, m), 1);
            }
            r.require(&format!("{}/{} rng-fault: no nonce repeated", p.name(), l), 1);
            r.require(&format!("{}/{} idle-pause history all-distinct", p.name(), l), 1);
            r.require(&format!("{}/{} validate-then-reissue history all-distinct", p.name(), l), 1);
        }
    }
    r
}

pub fn replay(case: &Value) -> Report {
    let mut r = Report::new();
    match serde_json::from_value::<Case>(case.clone()) {
        Ok(c) => run_case(&c, &mut r),
        Err(e) => r.inconclusive.push(format!("cannot decode replay case: {}", e)),
    }
    r
}

pub const RULE: &str = "one case = a history of N builds (quick N=4096 on one thread, N=1024 with a LARGE identical payload (3 kB claim, 1.5 kB footer), N=70000 from ONE builder object and N=8192 minted concurrently by 8 threads; thorough additionally N=102400 and N=1200000 from 16 threads, i.e. 75000 builds per builder object) under one key with IDENTICAL claims, footer and assertion, for v1-v4 local x {GenericBuilder, PasetoBuilder with exp/iat/nbf pinned} x {fresh builder per build, one builder reused}; the nonce field of every token is extracted (32 bytes, v2: 24). Monitors: pairwise-distinct nonces and tokens within a history AND across all histories of the process (about 190 000 nonces per protocol in the quick tier, millions in the thorough tier: a nonce source with a 32-bit state space collides by the birthday bound), per-bit one-frequency within N/2 +- 5.3*sqrt(N), no constant byte position; the whole run is executed in two separate processes and the first 64 nonces of every history are compared across processes (fixed-seed PRNG). Idle-pause histories: three bursts of builds on ONE thread (fresh builders, a reused one and a batteries-included builder kept across the pauses) separated by 1.3 s (thorough also 3.1, 11 and 31 s) of idle time: no nonce may recur across a pause. Validate-then-reissue histories: on one thread 300 (thorough 3000) builds alternate with parses of one and the same token (and of the token just built) at the same layer: no nonce may repeat. Fault injection through the hook verif::set_rng_fault: while the system RNG fails, 16 builds under identical inputs must either fail or carry pairwise distinct nonces (a fallback to a stale/default/input-derived nonce repeats), and builds must succeed again with distinct tokens once the fault is cleared. distinct_nontrivial = distinct (version, layer, builder mode, N, threads) histories that built >= 1000 tokens";
