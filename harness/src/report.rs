//! What a run observed: counters, distinct case signatures, samples, violations.  One Report per
//! worker thread (never shared with the code under test), merged at the end.
use serde_json::{json, Value};
use std::collections::{BTreeMap, BTreeSet};

pub const MAX_VIOLATIONS_KEPT: usize = 60;
pub const MAX_SAMPLES: usize = 10;

#[derive(Clone, Debug)]
pub struct Violation {
    pub sig: String,
    pub desc: String,
    pub replay: Value,
}

#[derive(Default, Clone)]
pub struct Report {
    pub evaluations: u64,
    /// distinct non-trivial case signatures (rule is stated per property)
    pub distinct: BTreeSet<String>,
    /// counters per class (protocol/layer/case class/outcome class)
    pub classes: BTreeMap<String, u64>,
    /// sets of things seen (error variants, hook traces, ...)
    pub observed: BTreeMap<String, BTreeSet<String>>,
    pub samples: Vec<Value>,
    pub violations: Vec<Violation>,
    pub violations_total: u64,
    pub violation_sigs: BTreeMap<String, u64>,
    pub inconclusive: Vec<String>,
    pub discarded: BTreeMap<String, u64>,
}

impl Report {
    pub fn new() -> Self {
        Self::default()
    }
    pub fn count(&mut self, class: &str) {
        *self.classes.entry(class.to_string()).or_insert(0) += 1;
    }
    pub fn count_n(&mut self, class: &str, n: u64) {
        *self.classes.entry(class.to_string()).or_insert(0) += n;
    }
    pub fn see(&mut self, set: &str, item: &str) {
        let s = self.observed.entry(set.to_string()).or_default();
        if s.len() < 400 {
            s.insert(item.to_string());
        }
    }
    pub fn distinct(&mut self, sig: String) {
        self.distinct.insert(sig);
    }
    pub fn discard(&mut self, why: &str) {
        *self.discarded.entry(why.to_string()).or_insert(0) += 1;
    }
    pub fn sample(&mut self, v: Value) {
        if self.samples.len() < MAX_SAMPLES {
            self.samples.push(v);
        }
    }
    pub fn violation(&mut self, sig: impl Into<String>, desc: impl Into<String>, replay: Value) {
        let sig = sig.into();
        self.violations_total += 1;
        let n = self.violation_sigs.entry(sig.clone()).or_insert(0);
        *n += 1;
        // keep at most a few witnesses per signature, and a global cap
        if *n <= 3 && self.violations.len() < MAX_VIOLATIONS_KEPT {
            self.violations.push(Violation { sig, desc: desc.into(), replay });
        }
    }
    pub fn merge(&mut self, o: Report) {
        self.evaluations += o.evaluations;
        self.distinct.extend(o.distinct);
        for (k, v) in o.classes {
            *self.classes.entry(k).or_insert(0) += v;
        }
        for (k, v) in o.observed {
            self.observed.entry(k).or_default().extend(v);
        }
        for s in o.samples {
            if self.samples.len() < MAX_SAMPLES {
                self.samples.push(s);
            }
        }
        for v in o.violations {
            let kept = self.violations.iter().filter(|x| x.sig == v.sig).count();
            if kept < 3 && self.violations.len() < MAX_VIOLATIONS_KEPT {
                self.violations.push(v);
            }
        }
        self.violations_total += o.violations_total;
        for (k, v) in o.violation_sigs {
            *self.violation_sigs.entry(k).or_insert(0) += v;
        }
        self.inconclusive.extend(o.inconclusive);
        for (k, v) in o.discarded {
            *self.discarded.entry(k).or_insert(0) += v;
        }
    }
    /// a class that must have been observed at least `min` times, else the run is inconclusive
    pub fn require(&mut self, class: &str, min: u64) {
        let got = self.classes.get(class).copied().unwrap_or(0);
        if got < min {
            self.inconclusive.push(format!("class '{}' observed {} time(s), minimum {}", class, got, min));
        }
    }
    pub fn to_json(&self, prop: &str, rule: &str, assumptions: &[&str]) -> Value {
        json!({
            "property": prop,
            "evaluations": self.evaluations,
            "distinct_nontrivial": self.distinct.len(),
            "distinct_examples": self.distinct.iter().take(12).collect::<Vec<_>>(),
            "rule": rule,
            "assumptions": assumptions,
            "classes": self.classes,
            "observed": self.observed,
            "samples": self.samples,
            "discarded": self.discarded,
            "inconclusive": self.inconclusive,
            "violations_total": self.violations_total,
            "violation_sigs": self.violation_sigs,
            "violations": self.violations.iter().map(|v| json!({"sig": v.sig, "desc": v.desc, "replay": v.replay})).collect::<Vec<_>>(),
        })
    }
}

/// Run `f(item, &mut report)` for every item index in 0..n on `threads` workers (work stealing through
/// an atomic counter); each worker owns its Report; they are merged at the end in a fixed order.
pub fn parallel<F>(n: usize, threads: usize, f: F) -> Report
where
    F: Fn(usize, &mut Report) + Sync,
{
    use std::sync::atomic::{AtomicUsize, Ordering};
    let next = AtomicUsize::new(0);
    let threads = threads.max(1).min(n.max(1));
    let mut out = Report::new();
    std::thread::scope(|s| {
        let mut hs = Vec::new();
        for _ in 0..threads {
            hs.push(s.spawn(|| {
                let mut r = Report::new();
                loop {
                    let i = next.fetch_add(1, Ordering::Relaxed);
                    if i >= n {
                        break;
                    }
                    // a bug in the harness itself must not swallow what the other items observed
                    if std::panic::catch_unwind(std::panic::AssertUnwindSafe(|| f(i, &mut r))).is_err() {
                        r.inconclusive.push(format!("harness work item {} panicked outside a monitored call", i));
                    }
                }
                r
            }));
        }
        for h in hs {
            match h.join() {
                Ok(r) => out.merge(r),
                Err(_) => out.inconclusive.push("a harness worker thread died outside a monitored call".into()),
            }
        }
    });
    out
}
