//! vh — workload drivers and online monitors for rusty_paseto properties C01..C18.
//!   vh run <PROP> <tier> <seed> <out.json> [extra...]
//!   vh replay <replay.json> <out.json>
mod c01;
mod c03;
mod c04;
mod c08;
mod c09;
mod c10;
mod c11;
mod c13;
mod c14;
mod c18;
mod gens;
mod proto;
mod report;
mod rng;
mod util;

use report::Report;
use serde_json::Value;

fn rule_and_assumptions(prop: &str) -> (&'static str, Vec<&'static str>) {
    match prop {
        "C01" => (c01::RULE_C01, vec!["ring::rand::SystemRandom and the OS clock work", "messages above 1 MiB are not driven"]),
        "C02" => (c01::RULE_C01, vec!["key pairs: official vector keys, harness-derived Ed25519/P-384 pairs (derived with the same curve crates the library uses; cross-checked against the independent reference in C08), RSA-2048 fixtures", "RSA keys other than 2048 bit are not driven"]),
        "C03" => (c03::RULE, vec!["authenticity of the base tokens is established by the library itself (seal + self-check open); C01/C02/C08 cover that", "forbidden error variants = those that only arise after plaintext exists (Utf8Error, FromUtf8Error, JSON, claim errors); every other variant counts as an authentication/format rejection", "hook: keystream event inside CipherText::<V1|V3|V4,Local>::from (v2.local is a one-shot AEAD)"]),
        "C04" => (c04::RULE_C04, vec!["a different ENCODING of the same key is not a different key; none of the driven alternatives is one", "forgery resistance of the primitives themselves is assumed"]),
        "C05" => (c04::RULE_C05, vec!["an empty 4th segment for an explicitly empty footer is left to C08 (which is the property that forbids it)"]),
        "C06" => (c04::RULE_C06, vec!["random assertions of >= 12 base64-alphabet characters: a chance occurrence in the token has probability < 2^-60"]),
        "C07" => (c04::RULE_C07, vec!["forgery resistance of the primitives themselves is assumed"]),
        "C09" => (c09::RULE, vec!["plain panics are caught in-process (catch_unwind); aborts/stack overflows kill the harness and are detected by the parent, which re-runs in journal mode to obtain the witness", "inputs above 3 MiB are not driven"]),
        "C10" => (c10::RULE, vec!["unpredictability proper is out of reach: the monitor sees constants, counters, clocks, message-derived nonces, low entropy (birthday collisions) and fixed seeds, not a cryptographically weak but statistically clean generator", "thresholds: per-bit false-alarm probability < 2^-79 for a uniform source; a birthday collision of >= 192-bit nonces at N = 1e5 has probability < 2^-150"]),
        "C11" | "C12" => (c11::RULE, vec!["the harness clock and the library read the same realtime clock; margins 2 s (past) / 60 s (future); cases whose parse finished > 30 s after generation are discarded, never failed", "leap seconds (second 60) are not driven"]),
        "C13" => (c13::RULE_C13, vec!["payloads of local tokens are read back with the library's own decrypt (round-trip fidelity is C01's business)", "clock bracket: realtime clock read before and after the whole word is executed, 5 ms slack"]),
        "C17" => (c13::RULE_C17, vec!["payloads of local tokens are read back with the library's own decrypt (round-trip fidelity is C01's business)"]),
        "C14" => (c14::RULE_C14, vec!["trusted base: serde_json equality and serde_json's own float formatting (value domain restricted to exact short decimals, no NaN/inf, non-empty keys, as the property states)"]),
        "C15" => (c14::RULE_C15, vec!["integer-vs-float spellings of the same number are don't-care; when several expected claims fail any of them may be reported"]),
        "C16" => (c14::RULE_C16, vec!["validators are harness functions; their call log is thread-local and drained around every parse"]),
        "C18" => (c18::RULE, vec!["'must be refused' is demanded only for strings outside a broad superset of ISO 8601 date prefixes, so the oracle never demands more than the property"]),
        _ => ("", vec![]),
    }
}

fn run(prop: &str, tier: &str, seed: u64, extra: &[String]) -> Report {
    match prop {
        "C08" => match extra.first().map(|s| s.as_str()) {
            Some("emit") if extra.len() >= 2 => c08::emit(tier, seed, &extra[1]),
            Some("consume") if extra.len() >= 3 => c08::consume(&extra[1], &extra[2]),
            _ => {
                let mut r = Report::new();
                r.inconclusive.push("C08 needs: emit <lib.jsonl> | consume <ref.jsonl> <outcomes.jsonl>".into());
                r
            }
        },
        "C01" | "C02" => c01::run(prop, tier, seed),
        "C03" => c03::run(tier, seed),
        "C04" => c04::run_c04(tier, seed),
        "C05" => c04::run_c05(tier, seed),
        "C06" => c04::run_c06(tier, seed),
        "C07" => c04::run_c07(tier, seed),
        "C09" => c09::run(tier, seed),
        "C10" => c10::run(tier, seed),
        "C11" | "C12" => c11::run(prop, tier, seed),
        "C13" | "C17" => c13::run(prop, tier, seed),
        "C14" => c14::run_c14(tier, seed),
        "C15" => c14::run_c15(tier, seed),
        "C16" => c14::run_c16(tier, seed),
        "C18" => c18::run(tier, seed),
        _ => {
            let mut r = Report::new();
            r.inconclusive.push(format!("no driver for property {}", prop));
            r
        }
    }
}

fn replay(rec: &Value) -> (String, Report) {
    let cmd = rec.get("cmd").and_then(|v| v.as_str()).unwrap_or("").to_string();
    let case = rec.get("case").cloned().unwrap_or(Value::Null);
    let r = match cmd.as_str() {
        "C01" | "C02" => c01::replay(&cmd, &case),
        "C03" => c03::replay(&case),
        "C04" => c04::replay_c04(&case),
        "C04-first-call" => c04::replay_first_call(&case),
        "C05" => c04::replay_c05(&case),
        "C06" => c04::replay_c06(&case),
        "C07" => c04::replay_c07(&case),
        "C04-session" | "C05-session" | "C06-session" | "C15-session" => c04::replay_session(&case),
        "C08-seal" => c08::replay_seal(&case),
        "C09" => c09::replay(&case),
        "C10" => c10::replay(&case),
        "C11" | "C12" => c11::replay(&cmd, &case),
        "C13" | "C17" => c13::replay(&cmd, &case),
        "C13-pair" | "C17-pair" => c13::replay_pair(&cmd[..3], &case),
        "C13-conc" | "C17-conc" => c13::replay_conc(&cmd[..3], &case),
        "C14" => c14::replay_c14(&case),
        "C14-multi" => c14::replay_c14_multi(&case),
        "C15" => c14::replay_c15(&case),
        "C16" => c14::replay_c16(rec, &case),
        "C18" => c18::replay(&case),
        _ => {
            let mut r = Report::new();
            r.inconclusive.push(format!("replay record has no known cmd: {:?}", cmd));
            r
        }
    };
    (cmd, r)
}

fn main() {
    let args: Vec<String> = std::env::args().collect();
    proto::install_panic_hook();
    if args.len() >= 6 && args[1] == "run" {
        let prop = args[2].as_str();
        let tier = args[3].as_str();
        let seed: u64 = args[4].parse().unwrap_or(1);
        let t0 = std::time::Instant::now();
        let r = run(prop, tier, seed, &args[6..]);
        let (rule, assumptions) = rule_and_assumptions(prop);
        let mut j = r.to_json(prop, rule, &assumptions);
        j["harness_wall_s"] = serde_json::json!(t0.elapsed().as_secs_f64());
        std::fs::write(&args[5], serde_json::to_vec(&j).unwrap()).expect("write result");
    } else if args.len() >= 4 && args[1] == "replay" {
        let rec: Value = serde_json::from_slice(&std::fs::read(&args[2]).expect("read replay")).expect("parse replay");
        let (prop, r) = replay(&rec);
        let (rule, assumptions) = rule_and_assumptions(&prop);
        let j = r.to_json(&prop, rule, &assumptions);
        std::fs::write(&args[3], serde_json::to_vec(&j).unwrap()).expect("write result");
    } else if args.len() >= 3 && args[1] == "first-call" {
        // a fresh process whose VERY FIRST library call is the open described by the C04Case in argv[2] (lazy initialisation
        // paths differ from the steady state): prints the outcome class and brief text
        let out = c04::first_call(&args[2]);
        println!("{}", out);
    } else {
        eprintln!("usage: vh run <PROP> <tier> <seed> <out.json> | vh replay <replay.json> <out.json>");
        std::process::exit(2);
    }
}
