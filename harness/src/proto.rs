//! Uniform, dynamically-dispatched view of the eight protocols at the three API layers.
//! Every call into the library goes through `guard()`: catch_unwind + silent panic hook that
//! records the panic location + drain of the library's verification hook log.
use rusty_paseto::prelude::*;
use serde::{Deserialize, Serialize};
use serde_json::Value;
use std::cell::RefCell;
use std::panic::{catch_unwind, AssertUnwindSafe};

#[derive(Clone, Copy, PartialEq, Eq, Hash, Debug, PartialOrd, Ord, Serialize, Deserialize)]
pub enum P {
    V1L,
    V2L,
    V3L,
    V4L,
    V1P,
    V2P,
    V3P,
    V4P,
}

pub const ALL: [P; 8] = [P::V1L, P::V2L, P::V3L, P::V4L, P::V1P, P::V2P, P::V3P, P::V4P];
pub const LOCALS: [P; 4] = [P::V1L, P::V2L, P::V3L, P::V4L];
pub const PUBLICS: [P; 4] = [P::V1P, P::V2P, P::V3P, P::V4P];

impl P {
    pub fn name(self) -> &'static str {
        match self {
            P::V1L => "v1.local",
            P::V2L => "v2.local",
            P::V3L => "v3.local",
            P::V4L => "v4.local",
            P::V1P => "v1.public",
            P::V2P => "v2.public",
            P::V3P => "v3.public",
            P::V4P => "v4.public",
        }
    }
    pub fn header(self) -> String {
        format!("{}.", self.name())
    }
    pub fn is_local(self) -> bool {
        matches!(self, P::V1L | P::V2L | P::V3L | P::V4L)
    }
    pub fn has_assertion(self) -> bool {
        matches!(self, P::V3L | P::V4L | P::V3P | P::V4P)
    }
    pub fn version(self) -> u8 {
        match self {
            P::V1L | P::V1P => 1,
            P::V2L | P::V2P => 2,
            P::V3L | P::V3P => 3,
            P::V4L | P::V4P => 4,
        }
    }
    /// length of the nonce field at the front of a local payload
    pub fn nonce_len(self) -> usize {
        match self {
            P::V2L => 24,
            P::V1L | P::V3L | P::V4L => 32,
            _ => 0,
        }
    }
    /// length of the tag (local) or signature (public) at the end of the payload
    pub fn trailer_len(self) -> usize {
        match self {
            P::V1L | P::V3L => 48,
            P::V4L => 32,
            P::V2L => 16,
            P::V1P => 256,
            P::V2P | P::V4P => 64,
            P::V3P => 96,
        }
    }
    pub fn from_name(s: &str) -> Option<P> {
        ALL.iter().copied().find(|p| p.name() == s)
    }
}

#[derive(Clone, Copy, PartialEq, Eq, Hash, Debug, PartialOrd, Ord, Serialize, Deserialize)]
pub enum Layer {
    Core,
    Generic,
    Batteries,
}
pub const LAYERS: [Layer; 3] = [Layer::Core, Layer::Generic, Layer::Batteries];
impl Layer {
    pub fn name(self) -> &'static str {
        match self {
            Layer::Core => "core",
            Layer::Generic => "generic",
            Layer::Batteries => "batteries",
        }
    }
}

/// key material for one protocol: `sym` for local, `sk`/`pk` for public
#[derive(Clone, Debug, Serialize, Deserialize, PartialEq)]
pub struct KeyMat {
    #[serde(with = "hexarr")]
    pub sym: [u8; 32],
    #[serde(with = "hexvec")]
    pub sk: Vec<u8>,
    #[serde(with = "hexvec")]
    pub pk: Vec<u8>,
}
impl KeyMat {
    pub fn sym(k: [u8; 32]) -> Self {
        KeyMat { sym: k, sk: vec![], pk: vec![] }
    }
    pub fn pair(sk: Vec<u8>, pk: Vec<u8>) -> Self {
        KeyMat { sym: [0; 32], sk, pk }
    }
}

pub mod hexvec {
    use serde::{Deserialize, Deserializer, Serializer};
    pub fn serialize<S: Serializer>(v: &Vec<u8>, s: S) -> Result<S::Ok, S::Error> {
        s.serialize_str(&crate::util::hex(v))
    }
    pub fn deserialize<'de, D: Deserializer<'de>>(d: D) -> Result<Vec<u8>, D::Error> {
        let s = String::deserialize(d)?;
        crate::util::unhex(&s).ok_or_else(|| serde::de::Error::custom("bad hex"))
    }
}
pub mod hexarr {
    use serde::{Deserialize, Deserializer, Serializer};
    pub fn serialize<S: Serializer>(v: &[u8; 32], s: S) -> Result<S::Ok, S::Error> {
        s.serialize_str(&crate::util::hex(v))
    }
    pub fn deserialize<'de, D: Deserializer<'de>>(d: D) -> Result<[u8; 32], D::Error> {
        let s = String::deserialize(d)?;
        let v = crate::util::unhex(&s).ok_or_else(|| serde::de::Error::custom("bad hex"))?;
        if v.len() != 32 {
            return Err(serde::de::Error::custom("need 32 bytes"));
        }
        let mut a = [0u8; 32];
        a.copy_from_slice(&v);
        Ok(a)
    }
}

// ------------------------------------------------------------------------------------------
// outcome of a monitored call
// ------------------------------------------------------------------------------------------
#[derive(Clone, Debug, PartialEq)]
pub enum Out<T> {
    Ok(T),
    /// error variant path, e.g. "Cipher/InvalidSignature", "Claim/Missing(aud)", "Json"
    Err(String),
    /// panic location and message
    Panic(String),
}
impl<T> Out<T> {
    pub fn is_ok(&self) -> bool {
        matches!(self, Out::Ok(_))
    }
    pub fn is_err(&self) -> bool {
        matches!(self, Out::Err(_))
    }
    pub fn is_panic(&self) -> bool {
        matches!(self, Out::Panic(_))
    }
    pub fn ok(&self) -> Option<&T> {
        match self {
            Out::Ok(t) => Some(t),
            _ => None,
        }
    }
    pub fn err(&self) -> Option<&str> {
        match self {
            Out::Err(e) => Some(e),
            _ => None,
        }
    }
    pub fn brief(&self) -> String
    where
        T: std::fmt::Debug,
    {
        match self {
            Out::Ok(t) => {
                let s = format!("{:?}", t);
                if s.len() > 160 {
                    format!("Ok({}…[{} bytes])", s.chars().take(120).collect::<String>(), s.len())
                } else {
                    format!("Ok({})", s)
                }
            }
            Out::Err(e) => format!("Err({})", e),
            Out::Panic(p) => format!("PANIC({})", p),
        }
    }
    pub fn class(&self) -> &'static str {
        match self {
            Out::Ok(_) => "ok",
            Out::Err(_) => "err",
            Out::Panic(_) => "panic",
        }
    }
}

thread_local! {
    static PANIC_LOC: RefCell<Option<String>> = const { RefCell::new(None) };
    static IN_GUARD: RefCell<bool> = const { RefCell::new(false) };
}

pub fn install_panic_hook() {
    let default = std::panic::take_hook();
    std::panic::set_hook(Box::new(move |info| {
        let inside = IN_GUARD.with(|g| *g.borrow());
        if inside {
            let loc = info.location().map(|l| format!("{}:{}", l.file(), l.line())).unwrap_or_else(|| "?".into());
            let msg = if let Some(s) = info.payload().downcast_ref::<&str>() {
                s.to_string()
            } else if let Some(s) = info.payload().downcast_ref::<String>() {
                s.clone()
            } else {
                "(non-string panic payload)".to_string()
            };
            let loc = loc.rsplit_once("/src/").map(|(_, b)| format!("src/{}", b)).unwrap_or(loc);
            PANIC_LOC.with(|p| *p.borrow_mut() = Some(format!("{} :: {}", loc, msg.chars().take(160).collect::<String>())));
        } else {
            default(info);
        }
    }));
}

/// Run one library call under the monitor.  Returns the outcome and the hook trace of the call.
pub fn guard<T, E>(f: impl FnOnce() -> Result<T, E>, fmt: impl FnOnce(&E) -> String) -> (Out<T>, Vec<&'static str>) {
    let _ = rusty_paseto::verif::take();
    IN_GUARD.with(|g| *g.borrow_mut() = true);
    PANIC_LOC.with(|p| *p.borrow_mut() = None);
    let r = catch_unwind(AssertUnwindSafe(f));
    IN_GUARD.with(|g| *g.borrow_mut() = false);
    let trace = rusty_paseto::verif::take();
    let out = match r {
        Ok(Ok(t)) => Out::Ok(t),
        Ok(Err(e)) => Out::Err(fmt(&e)),
        Err(_) => Out::Panic(PANIC_LOC.with(|p| p.borrow_mut().take()).unwrap_or_else(|| "unknown location".into())),
    };
    (out, trace)
}

// ------------------------------------------------------------------------------------------
// error variant naming (no Display text: variants only, so messages can change freely)
// ------------------------------------------------------------------------------------------
pub fn perr(e: &PasetoError) -> String {
    let v = match e {
        PasetoError::PasetoCipherError(_) => "PasetoCipherError",
        PasetoError::Cryption => "Cryption",
        PasetoError::InvalidKey => "InvalidKey",
        PasetoError::Signature => "Signature",
        PasetoError::KeyRejected { .. } => "KeyRejected",
        PasetoError::Cipher { .. } => "Cipher",
        PasetoError::RsaCipher { .. } => "RsaCipher",
        PasetoError::ECSDAError { .. } => "ECSDAError",
        PasetoError::InvalidLength { .. } => "InvalidLength",
        PasetoError::InvalidSignature => "InvalidSignature",
        PasetoError::TryFromSlice { .. } => "TryFromSlice",
        PasetoError::IncorrectSize => "IncorrectSize",
        PasetoError::WrongHeader => "WrongHeader",
        PasetoError::FooterInvalid => "FooterInvalid",
        PasetoError::PayloadBase64Decode { .. } => "PayloadBase64Decode",
        PasetoError::Utf8Error { .. } => "Utf8Error",
        PasetoError::ChaChaCipherError => "ChaChaCipherError",
        PasetoError::Infallibale { .. } => "Infallibale",
        PasetoError::FromUtf8Error { .. } => "FromUtf8Error",
        #[allow(unreachable_patterns)]
        _ => "OtherPasetoError",
    };
    format!("Cipher/{}", v)
}

pub fn claim_err(e: &PasetoClaimError) -> String {
    match e {
        PasetoClaimError::Expired => "Claim/Expired".into(),
        PasetoClaimError::UseBeforeAvailable(_) => "Claim/UseBeforeAvailable".into(),
        PasetoClaimError::RFC3339Date(_) => "Claim/RFC3339Date".into(),
        PasetoClaimError::Missing(k) => format!("Claim/Missing({})", k),
        PasetoClaimError::Unexpected(k) => format!("Claim/Unexpected({})", k),
        PasetoClaimError::CustomValidation(k) => format!("Claim/CustomValidation({})", k),
        PasetoClaimError::Invalid(k, _, _) => format!("Claim/Invalid({})", k),
        PasetoClaimError::Reserved(k) => format!("Claim/Reserved({})", k),
        PasetoClaimError::DuplicateTopLevelPayloadClaim(k) => format!("Claim/DuplicateTopLevelPayloadClaim({})", k),
        #[allow(unreachable_patterns)]
        _ => "Claim/Other".into(),
    }
}

pub fn parser_err(e: &GenericParserError) -> String {
    match e {
        GenericParserError::ClaimError { source } => claim_err(source),
        GenericParserError::CipherError { source } => perr(source),
        GenericParserError::PayloadJsonError { .. } => "Json".into(),
        #[allow(unreachable_patterns)]
        _ => "OtherParserError".into(),
    }
}

pub fn builder_err(e: &GenericBuilderError) -> String {
    match e {
        GenericBuilderError::ClaimError { source } => claim_err(source),
        GenericBuilderError::BadEmailAddress(_) => "Builder/BadEmailAddress".into(),
        GenericBuilderError::DuplicateTopLevelPayloadClaim(k) => format!("Builder/DuplicateTopLevelPayloadClaim({})", k),
        GenericBuilderError::CipherError { source } => perr(source),
        GenericBuilderError::PayloadJsonError { .. } => "Json".into(),
        #[allow(unreachable_patterns)]
        _ => "OtherBuilderError".into(),
    }
}

/// Does this error variant say that plaintext was handled (forbidden before authentication)?
pub fn is_plaintext_error(e: &str) -> bool {
    e == "Cipher/Utf8Error" || e == "Cipher/FromUtf8Error" || e == "Json" || e.starts_with("Claim/")
}

// ------------------------------------------------------------------------------------------
// claims and builder operations (serialisable so that every case can be replayed)
// ------------------------------------------------------------------------------------------
#[derive(Clone, Debug, Serialize, Deserialize, PartialEq)]
pub enum Claim {
    /// CustomClaim::try_from((key, serde_json::Value))
    Custom(String, Value),
    /// native Rust value through Serialize (see `native_value`)
    Native(String, Native),
    Iss(String),
    Sub(String),
    Aud(String),
    Jti(String),
    Exp(String),
    Nbf(String),
    Iat(String),
}

#[derive(Clone, Debug, Serialize, Deserialize, PartialEq)]
pub enum Native {
    Str(String),
    I64(i64),
    U64(u64),
    Bool(bool),
    F64(f64),
    /// single precision: must come back as its own shortest decimal form (3.14), not as the widened double (3.140000104904175)
    F32(f32),
    Unit,
    OptNone,
    OptSome(i32),
    VecI(Vec<i64>),
    VecS(Vec<String>),
    Tuple(i32, String, bool),
    Struct { id: u32, name: String, tags: Vec<String>, inner: Option<Box<Native>> },
    Map(Vec<(String, i64)>),
    EnumUnit,
    EnumNewtype(i64),
    EnumStruct { a: u8, b: String },
    Char(char),
    Bytes(Vec<u8>),
    /// a value whose Serialize impl FAILS after it has produced some output (a set_claim with it cannot succeed: no verdict on that call)
    Unserialisable,
}

#[derive(Serialize)]
struct NStruct<'a> {
    id: u32,
    name: &'a str,
    tags: &'a [String],
    inner: Option<NativeSer<'a>>,
}
#[derive(Serialize)]
enum NEnum<'a> {
    Unit,
    Newtype(i64),
    Struct { a: u8, b: &'a str },
}

/// Serialize adaptor: the library sees a *native Rust type* (struct, tuple, Option, map, enum), not a Value.
pub struct NativeSer<'a>(pub &'a Native);
impl<'a> Serialize for NativeSer<'a> {
    fn serialize<S: serde::Serializer>(&self, s: S) -> Result<S::Ok, S::Error> {
        match self.0 {
            Native::Str(x) => x.serialize(s),
            Native::I64(x) => x.serialize(s),
            Native::U64(x) => x.serialize(s),
            Native::Bool(x) => x.serialize(s),
            Native::F64(x) => x.serialize(s),
            Native::F32(x) => x.serialize(s),
            Native::Unit => ().serialize(s),
            Native::OptNone => Option::<i32>::None.serialize(s),
            Native::OptSome(x) => Some(*x).serialize(s),
            Native::VecI(x) => x.serialize(s),
            Native::VecS(x) => x.serialize(s),
            Native::Tuple(a, b, c) => (a, b, c).serialize(s),
            Native::Struct { id, name, tags, inner } => {
                NStruct { id: *id, name, tags, inner: inner.as_ref().map(|b| NativeSer(b)) }.serialize(s)
            }
            Native::Map(kv) => {
                let m: std::collections::BTreeMap<&str, i64> = kv.iter().map(|(k, v)| (k.as_str(), *v)).collect();
                m.serialize(s)
            }
            Native::EnumUnit => NEnum::Unit.serialize(s),
            Native::EnumNewtype(x) => NEnum::Newtype(*x).serialize(s),
            Native::EnumStruct { a, b } => NEnum::Struct { a: *a, b }.serialize(s),
            Native::Unserialisable => {
                use serde::ser::SerializeSeq;
                let mut seq = s.serialize_seq(Some(3))?;
                seq.serialize_element(&1)?;
                seq.serialize_element("two")?;
                Err(<S::Error as serde::ser::Error>::custom("harness: this value refuses to serialise"))
            }
            Native::Char(c) => c.serialize(s),
            Native::Bytes(b) => b.serialize(s),
        }
    }
}

/// The JSON value a native value must appear as (built by hand, not through the library).
pub fn native_value(n: &Native) -> Value {
    use serde_json::json;
    match n {
        Native::Str(x) => json!(x),
        Native::I64(x) => json!(x),
        Native::U64(x) => json!(x),
        Native::Bool(x) => json!(x),
        Native::F64(x) => json!(x),
        Native::F32(x) => format!("{}", x).parse::<f64>().ok().and_then(serde_json::Number::from_f64).map(Value::Number).unwrap_or(Value::Null),
        Native::Unit => Value::Null,
        Native::OptNone => Value::Null,
        Native::OptSome(x) => json!(x),
        Native::Unserialisable => Value::Null,
        Native::VecI(x) => json!(x),
        Native::VecS(x) => json!(x),
        Native::Tuple(a, b, c) => json!([a, b, c]),
        Native::Struct { id, name, tags, inner } => {
            json!({"id": id, "name": name, "tags": tags, "inner": inner.as_ref().map(|b| native_value(b)).unwrap_or(Value::Null)})
        }
        Native::Map(kv) => {
            let mut m = serde_json::Map::new();
            for (k, v) in kv {
                m.insert(k.clone(), json!(v));
            }
            Value::Object(m)
        }
        Native::EnumUnit => json!("Unit"),
        Native::EnumNewtype(x) => json!({"Newtype": x}),
        Native::EnumStruct { a, b } => json!({"Struct": {"a": a, "b": b}}),
        Native::Char(c) => json!(c.to_string()),
        Native::Bytes(b) => json!(b),
    }
}

impl Claim {
    pub fn key(&self) -> &str {
        match self {
            Claim::Custom(k, _) | Claim::Native(k, _) => k,
            Claim::Iss(_) => "iss",
            Claim::Sub(_) => "sub",
            Claim::Aud(_) => "aud",
            Claim::Jti(_) => "jti",
            Claim::Exp(_) => "exp",
            Claim::Nbf(_) => "nbf",
            Claim::Iat(_) => "iat",
        }
    }
    /// expected JSON value under `key()` (harness-side model, independent of the library)
    pub fn value(&self) -> Value {
        match self {
            Claim::Custom(_, v) => v.clone(),
            Claim::Native(_, n) => native_value(n),
            Claim::Iss(s) | Claim::Sub(s) | Claim::Aud(s) | Claim::Jti(s) | Claim::Exp(s) | Claim::Nbf(s) | Claim::Iat(s) => {
                Value::String(s.clone())
            }
        }
    }
}

#[derive(Clone, Debug, Serialize, Deserialize, PartialEq)]
pub enum ClaimOp {
    Set(Claim),
    Remove(String),
    /// GenericBuilder::extend_claims with a map of plain JSON values
    Extend(Vec<(String, Value)>),
}

/// operations on ONE GenericBuilder that is built from several times (C14 histories)
#[derive(Clone, Debug, Serialize, Deserialize, PartialEq)]
pub enum GOp {
    Set(Claim),
    Remove(String),
    Extend(Vec<(String, Value)>),
    Footer(String),
    Assertion(String),
    Build,
    /// later builds use this key (same builder object, another key)
    UseKey(Box<KeyMat>),
}

/// one live batteries-included builder; `step` returns an outcome for Build and for a failing claim constructor
pub trait BSession {
    fn step(&mut self, op: &BOp) -> Option<Out<String>>;
}

/// operations on the batteries-included builder (C13, C17)
#[derive(Clone, Debug, Serialize, Deserialize, PartialEq)]
pub enum BOp {
    Set(Claim),
    Ack,
    Footer(String),
    Assertion(String),
    Build,
    /// later builds use this key (same builder object, another key)
    UseKey(Box<KeyMat>),
    /// arm / clear the injected RNG failure (hook verif::set_rng_fault, per thread): builds of local tokens in between fail in the sealing step
    RngFault(bool),
}

/// validator behaviours (C16); the closure reads its behaviour from a thread-local table
#[derive(Clone, Debug, Serialize, Deserialize, PartialEq)]
pub enum VBehave {
    Accept,
    Reject,
    /// accept iff the value equals this
    AcceptIfEq(Value),
    /// accept iff the value is non-null
    AcceptIfPresent,
}

#[derive(Clone, Debug, Serialize, Deserialize, PartialEq)]
pub enum VReg {
    /// parser.validate_claim(claim, closure)
    ValidateClaim,
    /// parser.extend_validation_claims(map) only (GenericParser only)
    ExtendOnly,
}

#[derive(Clone, Debug, Serialize, Deserialize, PartialEq)]
pub struct VSpec {
    pub claim: Claim,
    pub behave: VBehave,
    pub reg: VReg,
    /// use the harness's SECOND validator function (own behaviour table, log entries prefixed "#2:"): lets a history register
    /// two distinguishable validators for one key
    #[serde(default)]
    pub second: bool,
    /// != 0: the claim object handed to validate_claim is a USER-DEFINED claim type (harness `OddClaim`) that only names the
    /// key and serialises as a unit (1), a string (2), an object without a member of that name (3) or with extra members (4)
    #[serde(default)]
    pub odd: u8,
}

/// a claim type the crate does not ship: PasetoClaim only promises get_key(); how the claim serialises is the user's business
pub struct OddClaim {
    key: String,
    shape: u8,
}
impl OddClaim {
    pub fn new(key: &str, shape: u8) -> Self {
        OddClaim { key: key.to_string(), shape }
    }
}
impl PasetoClaim for OddClaim {
    fn get_key(&self) -> &str {
        &self.key
    }
}
impl serde::Serialize for OddClaim {
    fn serialize<S: serde::Serializer>(&self, s: S) -> Result<S::Ok, S::Error> {
        use serde::ser::SerializeMap;
        match self.shape {
            1 => s.serialize_unit(),
            2 => s.serialize_str("marker"),
            3 => {
                let mut m = s.serialize_map(Some(1))?;
                m.serialize_entry("some-other-name", &1)?;
                m.end()
            }
            _ => {
                let mut m = s.serialize_map(Some(2))?;
                m.serialize_entry(&self.key, "placeholder")?;
                m.serialize_entry("extra", &2)?;
                m.end()
            }
        }
    }
}

#[derive(Clone, Debug, Default, Serialize, Deserialize, PartialEq)]
pub struct ParserCfg {
    pub footer: Option<String>,
    pub assertion: Option<String>,
    /// check_claim(..) in this order
    pub expected: Vec<Claim>,
    pub validators: Vec<VSpec>,
    /// batteries layer: PasetoParser::default() (true) or PasetoParser::new() (false)
    pub default_parser: bool,
    /// GenericParser only: register the expected claims through ONE extend_check_claims(map) call instead of check_claim
    #[serde(default)]
    pub expected_via_extend: bool,
    /// call set_implicit_assertion BEFORE set_footer (the setters must commute)
    #[serde(default)]
    pub assertion_first: bool,
    /// register the validators BEFORE the expected claims (check_claim after validate_claim on the same key: both apply)
    #[serde(default)]
    pub validators_first: bool,
}

/// collects boxed claims for extend_check_claims
pub struct ExtendSink<'m, 'b>(pub &'m mut std::collections::HashMap<String, Box<dyn erased_serde::Serialize + 'b>>);
impl<'m, 'b> ExtendSink<'m, 'b> {
    pub fn push<T: PasetoClaim + serde::Serialize + 'b>(&mut self, c: T) {
        let k = c.get_key().to_string();
        self.0.insert(k, Box::new(c));
    }
}

fn extend_map(kvs: &[(String, Value)]) -> std::collections::HashMap<String, Box<dyn erased_serde::Serialize>> {
    let mut m: std::collections::HashMap<String, Box<dyn erased_serde::Serialize>> = std::collections::HashMap::new();
    for (k, v) in kvs {
        m.insert(k.clone(), Box::new(v.clone()));
    }
    m
}

/// one step of a parser SESSION: one parser object lives through all steps (C04/C05/C06 histories)
#[derive(Clone, Debug, Serialize, Deserialize, PartialEq)]
pub enum PStep {
    SetFooter(String),
    SetAssertion(String),
    /// parse `token` under key number `key` of the session's key list
    Parse { token: String, key: usize },
    /// let wall-clock time pass while the parser object stays alive
    SleepMs(u64),
    /// register (or replace) an expected claim on the live parser
    Check(Claim),
    /// register a harness validator on the live parser (validate_claim, or extend_validation_claims on GenericParser)
    Validate(VSpec),
    /// register (or replace) SEVERAL expected claims at once: ONE extend_check_claims call on GenericParser (check_claim calls
    /// on PasetoParser, which has no such method)
    CheckMany(Vec<Claim>),
    /// register SEVERAL harness validators at once (the ExtendOnly ones go into ONE extend_validation_claims call)
    ValidateMany(Vec<VSpec>),
    /// while this parser object stays alive, ANOTHER parser object (any protocol, any layer) is created, configured, used
    /// and dropped on the same thread; its outcomes go to `nested_outs_take()`
    Nested(Box<NestedSession>),
}

#[derive(Clone, Debug, Serialize, Deserialize, PartialEq)]
pub struct NestedSession {
    pub p: P,
    pub batteries: bool,
    pub keys: Vec<KeyMat>,
    pub cfg: ParserCfg,
    pub steps: Vec<PStep>,
}

thread_local! {
    /// outcomes of the nested sessions (PStep::Nested) run on this thread since the last nested_outs_take()
    static NESTED_OUTS: RefCell<Vec<Vec<Out<Value>>>> = const { RefCell::new(Vec::new()) };
    /// validator call log of each Parse step of the last session() on this thread
    static SESSION_LOGS: RefCell<Vec<Vec<(String, Value)>>> = const { RefCell::new(Vec::new()) };
    /// call log of harness validators: (key, value seen)
    pub static VLOG: RefCell<Vec<(String, Value)>> = const { RefCell::new(Vec::new()) };
    static VTABLE: RefCell<Vec<(String, VBehave)>> = const { RefCell::new(Vec::new()) };
}

fn harness_validator(key: &str, value: &Value) -> Result<(), PasetoClaimError> {
    VLOG.with(|l| l.borrow_mut().push((key.to_string(), value.clone())));
    let b = VTABLE.with(|t| t.borrow().iter().find(|(k, _)| k == key).map(|(_, b)| b.clone()));
    let accept = match b {
        None => true,
        Some(VBehave::Accept) => true,
        Some(VBehave::Reject) => false,
        Some(VBehave::AcceptIfEq(v)) => &v == value,
        Some(VBehave::AcceptIfPresent) => !value.is_null(),
    };
    if accept {
        Ok(())
    } else {
        // a user's validator may fail with ANY claim error variant (the crate's own examples use `Unexpected` for a value of
        // the wrong type): rotate through them; every one of them must make the parse fail
        match ctor_turn() % 7 {
            0 | 1 => Err(PasetoClaimError::CustomValidation(format!("vh:{}", key))),
            2 => Err(PasetoClaimError::Unexpected(key.to_string())),
            3 => Err(PasetoClaimError::Missing(key.to_string())),
            4 => Err(PasetoClaimError::Invalid(key.to_string(), "expected".into(), "received".into())),
            5 => Err(PasetoClaimError::Expired),
            _ => Err(PasetoClaimError::RFC3339Date(key.to_string())),
        }
    }
}
static HV: fn(&str, &Value) -> Result<(), PasetoClaimError> = harness_validator;

thread_local! {
    static VTABLE_B: RefCell<Vec<(String, VBehave)>> = const { RefCell::new(Vec::new()) };
}
fn harness_validator_b(key: &str, value: &Value) -> Result<(), PasetoClaimError> {
    VLOG.with(|l| l.borrow_mut().push((format!("#2:{}", key), value.clone())));
    let b = VTABLE_B.with(|t| t.borrow().iter().find(|(k, _)| k == key).map(|(_, b)| b.clone()));
    let accept = match b {
        None | Some(VBehave::Accept) => true,
        Some(VBehave::Reject) => false,
        Some(VBehave::AcceptIfEq(v)) => &v == value,
        Some(VBehave::AcceptIfPresent) => !value.is_null(),
    };
    if accept {
        Ok(())
    } else {
        Err(PasetoClaimError::CustomValidation(format!("vh2:{}", key)))
    }
}
static HVB: fn(&str, &Value) -> Result<(), PasetoClaimError> = harness_validator_b;
fn hv_for(v: &VSpec) -> &'static fn(&str, &Value) -> Result<(), PasetoClaimError> {
    if v.second {
        &HVB
    } else {
        &HV
    }
}

pub fn vlog_take() -> Vec<(String, Value)> {
    VLOG.with(|l| std::mem::take(&mut *l.borrow_mut()))
}
pub fn nested_outs_take() -> Vec<Vec<Out<Value>>> {
    NESTED_OUTS.with(|l| std::mem::take(&mut *l.borrow_mut()))
}
fn run_nested(n: &NestedSession) {
    // the nested session uses the same thread-local harness tables: put the outer session's back afterwards
    let saved_vt = VTABLE.with(|t| t.borrow().clone());
    let saved_logs = session_logs_take();
    let outs = session(n.p, n.batteries, &n.keys, &n.cfg, &n.steps);
    NESTED_OUTS.with(|x| x.borrow_mut().push(outs));
    VTABLE.with(|t| *t.borrow_mut() = saved_vt);
    SESSION_LOGS.with(|l| *l.borrow_mut() = saved_logs);
}
pub fn session_logs_take() -> Vec<Vec<(String, Value)>> {
    SESSION_LOGS.with(|l| std::mem::take(&mut *l.borrow_mut()))
}
fn vtable_add(v: &VSpec) {
    let table = if v.second { &VTABLE_B } else { &VTABLE };
    table.with(|t| {
        let mut t = t.borrow_mut();
        t.retain(|(k, _)| k != v.claim.key());
        t.push((v.claim.key().to_string(), v.behave.clone()));
    });
}
fn vtable_set(v: &[VSpec]) {
    VTABLE.with(|t| *t.borrow_mut() = v.iter().filter(|s| !s.second).map(|s| (s.claim.key().to_string(), s.behave.clone())).collect());
    VTABLE_B.with(|t| *t.borrow_mut() = v.iter().filter(|s| s.second).map(|s| (s.claim.key().to_string(), s.behave.clone())).collect());
}

// ------------------------------------------------------------------------------------------
// the per-protocol implementations
// ------------------------------------------------------------------------------------------
pub struct BuildRes {
    pub out: Out<String>,
}

/// every third claim reaches the builder as a `.clone()` of the constructed one (the claim types are Clone)
pub fn clone_turn<T: Clone>(c: T) -> T {
    if ctor_turn() % 3 == 0 {
        c.clone()
    } else {
        c
    }
}

macro_rules! set_claim_on {
    ($b:expr, $c:expr) => {
        match $c {
            Claim::Custom(k, v) => match if ctor_turn() % 2 == 0 { CustomClaim::try_from((k.as_str(), v.clone())) } else { CustomClaim::try_from((k.clone(), v.clone())) } {
                Ok(c) => {
                    $b.set_claim(clone_turn(c));
                    Ok(())
                }
                Err(e) => Err(e),
            },
            Claim::Native(k, n) => match CustomClaim::try_from((k.as_str(), NativeSer(n))) {
                Ok(c) => {
                    $b.set_claim(c);
                    Ok(())
                }
                Err(e) => Err(e),
            },
            Claim::Iss(s) => {
                $b.set_claim(clone_turn(IssuerClaim::from(s.as_str())));
                Ok(())
            }
            Claim::Sub(s) => {
                $b.set_claim(clone_turn(SubjectClaim::from(s.as_str())));
                Ok(())
            }
            Claim::Aud(s) => {
                $b.set_claim(clone_turn(AudienceClaim::from(s.as_str())));
                Ok(())
            }
            Claim::Jti(s) => {
                $b.set_claim(clone_turn(TokenIdentifierClaim::from(s.as_str())));
                Ok(())
            }
            Claim::Exp(s) => match if ctor_turn() % 2 == 0 { ExpirationClaim::try_from(s.as_str()) } else { ExpirationClaim::try_from(s.clone()) } {
                Ok(c) => {
                    $b.set_claim(clone_turn(c));
                    Ok(())
                }
                Err(e) => Err(e),
            },
            Claim::Nbf(s) => match if ctor_turn() % 2 == 0 { NotBeforeClaim::try_from(s.as_str()) } else { NotBeforeClaim::try_from(s.clone()) } {
                Ok(c) => {
                    $b.set_claim(clone_turn(c));
                    Ok(())
                }
                Err(e) => Err(e),
            },
            Claim::Iat(s) => match if ctor_turn() % 2 == 0 { IssuedAtClaim::try_from(s.as_str()) } else { IssuedAtClaim::try_from(s.clone()) } {
                Ok(c) => {
                    $b.set_claim(clone_turn(c));
                    Ok(())
                }
                Err(e) => Err(e),
            },
        }
    };
}

macro_rules! check_claim_on {
    ($p:expr, $c:expr, $how:ident $(, $extra:expr)?) => {
        match $c {
            Claim::Custom(k, v) => match if ctor_turn() % 2 == 0 { CustomClaim::try_from((k.clone(), v.clone())) } else { CustomClaim::try_from((k.as_str(), v.clone())) } {
                Ok(c) => {
                    $p.$how(c $(, $extra)?);
                    Ok(())
                }
                Err(e) => Err(e),
            },
            Claim::Native(k, n) => match CustomClaim::try_from((k.clone(), native_value(n))) {
                Ok(c) => {
                    $p.$how(c $(, $extra)?);
                    Ok(())
                }
                Err(e) => Err(e),
            },
            Claim::Iss(s) => {
                $p.$how(IssuerClaim::from(s.as_str()) $(, $extra)?);
                Ok(())
            }
            Claim::Sub(s) => {
                $p.$how(SubjectClaim::from(s.as_str()) $(, $extra)?);
                Ok(())
            }
            Claim::Aud(s) => {
                $p.$how(AudienceClaim::from(s.as_str()) $(, $extra)?);
                Ok(())
            }
            Claim::Jti(s) => {
                $p.$how(TokenIdentifierClaim::from(s.as_str()) $(, $extra)?);
                Ok(())
            }
            Claim::Exp(s) => match ExpirationClaim::try_from(s.as_str()) {
                Ok(c) => {
                    $p.$how(c $(, $extra)?);
                    Ok(())
                }
                Err(e) => Err(e),
            },
            Claim::Nbf(s) => match NotBeforeClaim::try_from(s.as_str()) {
                Ok(c) => {
                    $p.$how(c $(, $extra)?);
                    Ok(())
                }
                Err(e) => Err(e),
            },
            Claim::Iat(s) => match IssuedAtClaim::try_from(s.as_str()) {
                Ok(c) => {
                    $p.$how(c $(, $extra)?);
                    Ok(())
                }
                Err(e) => Err(e),
            },
        }
    };
}

/// validate_claim registration: the claim object only NAMES the claim, so the registered claim types are handed over as
/// `X::default()` every other time (the idiom for "a validator for sub"), otherwise as a value-carrying claim
macro_rules! validate_claim_on {
    ($p:expr, $c:expr, $extra:expr) => {
        match $c {
            Claim::Iss(_) if ctor_turn() % 2 == 1 => {
                $p.validate_claim(IssuerClaim::default(), $extra);
                Ok(())
            }
            Claim::Sub(_) if ctor_turn() % 2 == 1 => {
                $p.validate_claim(SubjectClaim::default(), $extra);
                Ok(())
            }
            Claim::Aud(_) if ctor_turn() % 2 == 1 => {
                $p.validate_claim(AudienceClaim::default(), $extra);
                Ok(())
            }
            Claim::Jti(_) if ctor_turn() % 2 == 1 => {
                $p.validate_claim(TokenIdentifierClaim::default(), $extra);
                Ok(())
            }
            Claim::Exp(_) if ctor_turn() % 2 == 1 => {
                $p.validate_claim(ExpirationClaim::default(), $extra);
                Ok(())
            }
            Claim::Nbf(_) if ctor_turn() % 2 == 1 => {
                $p.validate_claim(NotBeforeClaim::default(), $extra);
                Ok(())
            }
            Claim::Iat(_) if ctor_turn() % 2 == 1 => {
                $p.validate_claim(IssuedAtClaim::default(), $extra);
                Ok(())
            }
            other => check_claim_on!($p, other, validate_claim, $extra),
        }
    };
}

/// error type unifying "could not even construct the claim/key" with the library's own errors
pub enum HErr<E> {
    Lib(E),
    ClaimCtor(PasetoClaimError),
    KeyCtor(PasetoError),
}

fn fmt_h<E>(f: impl Fn(&E) -> String) -> impl Fn(&HErr<E>) -> String {
    move |e| match e {
        HErr::Lib(e) => f(e),
        HErr::ClaimCtor(c) => format!("ClaimCtor/{}", claim_err(c)),
        HErr::KeyCtor(k) => format!("KeyCtor/{}", perr(k)),
    }
}

macro_rules! ia_builder {
    (assert, $b:expr, $ia:expr) => {
        if let Some(a) = $ia {
            $b.set_implicit_assertion(ImplicitAssertion::from(a));
        }
    };
    (noassert, $b:expr, $ia:expr) => {
        let _ = $ia;
    };
}

macro_rules! open_call {
    (assert, $V:ident, $Pu:ident, $f:ident, $tok:expr, $k:expr, $footer:expr, $ia:expr) => {
        Paseto::<$V, $Pu>::$f($tok, $k, $footer.map(Footer::from), $ia.map(ImplicitAssertion::from))
    };
    (noassert, $V:ident, $Pu:ident, $f:ident, $tok:expr, $k:expr, $footer:expr, $ia:expr) => {{
        let _ = $ia;
        Paseto::<$V, $Pu>::$f($tok, $k, $footer.map(Footer::from))
    }};
}

macro_rules! with_keys {
    // local
    (local, $V:ident, $key:expr, |$bk:ident, $pk:ident| $body:expr) => {{
        let $bk = PasetoSymmetricKey::<$V, Local>::from(key32($key.sym));
        let $pk = PasetoSymmetricKey::<$V, Local>::from(key32($key.sym));
        let _ = (&$bk, &$pk);
        $body
    }};
}

thread_local! {
    static CTOR_TURN: std::cell::Cell<u32> = const { std::cell::Cell::new(0) };
}
/// rotates through the equivalent public constructors of key types, so that sealing and opening rarely use the same one
pub fn ctor_turn() -> u32 {
    CTOR_TURN.with(|c| {
        let v = c.get().wrapping_add(1);
        c.set(v);
        v
    })
}
/// Key<32> from the same 32 bytes through one of its four public constructors
pub fn key32(b: [u8; 32]) -> Key<32> {
    match ctor_turn() % 7 {
        0 => Key::<32>::from(b),
        1 => Key::<32>::from(&b),
        2 => Key::<32>::from(&b[..]),
        3 => Key::<32>::try_from(crate::util::hex(&b).as_str()).unwrap_or_else(|_| Key::<32>::from(b)),
        4 => Key::<32>::from(b).clone(),
        5 => {
            // through Deref / AsRef of another key object
            let k = Key::<32>::from(b);
            let arr: &[u8; 32] = &k;
            Key::<32>::from(arr)
        }
        _ => {
            let k = Key::<32>::from(b);
            Key::<32>::from(k.as_ref())
        }
    }
}

/// common operations; implemented once per protocol by the macro below
pub trait Proto {
    fn core_seal(key: &KeyMat, nonce: &[u8], msg: &str, footer: Option<&str>, ia: Option<&str>) -> (Out<String>, Vec<&'static str>);
    fn core_open(key: &KeyMat, token: &str, footer: Option<&str>, ia: Option<&str>) -> (Out<String>, Vec<&'static str>);
    /// ONE core builder object sealed from `nonces.len()` times (set_payload/set_footer/set_implicit_assertion once, or again before each seal)
    fn core_seal_many(key: &KeyMat, nonces: &[Vec<u8>], msg: &str, footer: Option<&str>, ia: Option<&str>, reconfigure: bool) -> Vec<Out<String>>;
    fn core_script(key: &KeyMat, ops: &[CoreOp]) -> Vec<Out<String>>;
    /// ONE key object (per role) used for a whole sequence of seals and opens, the way applications keep their keys
    fn core_key_session(key: &KeyMat, steps: &[KStep]) -> Vec<Out<String>>;
    fn generic_seal(key: &KeyMat, ops: &[ClaimOp], footer: Option<&str>, ia: Option<&str>) -> (Out<String>, Vec<&'static str>);
    /// several builds from ONE GenericBuilder (nonce-freshness histories)
    fn generic_seal_many(key: &KeyMat, ops: &[ClaimOp], footer: Option<&str>, ia: Option<&str>, n: usize, reuse: bool) -> Vec<Out<String>>;
    fn generic_open(key: &KeyMat, token: &str, cfg: &ParserCfg) -> (Out<Value>, Vec<&'static str>);
    /// one parser, several tokens in sequence
    fn generic_open_seq(key: &KeyMat, tokens: &[&str], cfg: &ParserCfg) -> Vec<(Out<Value>, Vec<(String, Value)>)>;
    fn generic_run(key: &KeyMat, ops: &[GOp]) -> Vec<Out<String>>;
    fn batteries_run(key: &KeyMat, ops: &[BOp]) -> Vec<Out<String>>;
    /// a live batteries-included builder that is driven one operation at a time (so that several can be interleaved)
    fn batteries_session(key: &KeyMat) -> Box<dyn BSession>;
    /// one parser object (generic or batteries layer) driven through `steps`; returns one outcome per Parse step
    fn session(batteries: bool, keys: &[KeyMat], cfg: &ParserCfg, steps: &[PStep]) -> Vec<Out<Value>>;
    fn batteries_open(key: &KeyMat, token: &str, cfg: &ParserCfg) -> (Out<Value>, Vec<&'static str>);
    fn batteries_open_seq(key: &KeyMat, tokens: &[&str], cfg: &ParserCfg) -> Vec<(Out<Value>, Vec<(String, Value)>)>;
}

macro_rules! impl_proto {
    ($T:ident, $V:ident, $Pu:ident, $kind:ident, $assert:ident, $seal:ident, $open:ident) => {
        pub struct $T;
        impl $T {
            #[allow(unused_variables)]
            fn configure_generic<'a>(p: &mut GenericParser<'a, 'a, $V, $Pu>, cfg: &'a ParserCfg) -> Result<(), PasetoClaimError> {
                if cfg.assertion_first {
                    ia_builder!($assert, p, cfg.assertion.as_deref());
                }
                if let Some(f) = &cfg.footer {
                    p.set_footer(Footer::from(f.as_str()));
                }
                if !cfg.assertion_first {
                    ia_builder!($assert, p, cfg.assertion.as_deref());
                }
                let mut ext: ValidatorMap = std::collections::HashMap::new();
                for phase in 0..2 {
                    let expectations_now = (phase == 0) != cfg.validators_first;
                    if expectations_now {
                    if cfg.expected_via_extend {
                        let mut m: std::collections::HashMap<String, Box<dyn erased_serde::Serialize + 'a>> = std::collections::HashMap::new();
                        {
                            let mut sink = ExtendSink(&mut m);
                            for c in &cfg.expected {
                                check_claim_on!(sink, c, push)?;
                            }
                        }
                        p.extend_check_claims(m);
                    } else {
                        for c in &cfg.expected {
                            check_claim_on!(p, c, check_claim)?;
                        }
                    }
                    } else {
                    for v in &cfg.validators {
                        match v.reg {
                            VReg::ValidateClaim => {
                                if v.odd != 0 {
                                p.validate_claim(OddClaim::new(v.claim.key(), v.odd), hv_for(v));
                            } else {
                                validate_claim_on!(p, &v.claim, hv_for(v))?;
                            }
                            }
                            VReg::ExtendOnly => {
                                ext.insert(v.claim.key().to_string(), Box::new(*hv_for(v)));
                            }
                        }
                    }
                    }
                }
                if !ext.is_empty() {
                    p.extend_validation_claims(ext);
                }
                Ok(())
            }
            #[allow(unused_variables)]
            fn configure_batteries<'a>(p: &mut PasetoParser<'a, $V, $Pu>, cfg: &'a ParserCfg) -> Result<(), PasetoClaimError> {
                if cfg.assertion_first {
                    ia_builder!($assert, p, cfg.assertion.as_deref());
                }
                if let Some(f) = &cfg.footer {
                    p.set_footer(Footer::from(f.as_str()));
                }
                if !cfg.assertion_first {
                    ia_builder!($assert, p, cfg.assertion.as_deref());
                }
                for phase in 0..2 {
                    let expectations_now = (phase == 0) != cfg.validators_first;
                    if expectations_now {
                    for c in &cfg.expected {
                        // PasetoParser::check_claim wants 'static claims: give it owned ones
                        match c {
                            Claim::Custom(k, v) => {
                                p.check_claim(CustomClaim::try_from((k.clone(), v.clone()))?);
                            }
                            Claim::Native(k, n) => {
                                p.check_claim(CustomClaim::try_from((k.clone(), native_value(n)))?);
                            }
                            Claim::Exp(s) => {
                                p.check_claim(ExpirationClaim::try_from(s.as_str())?);
                            }
                            Claim::Nbf(s) => {
                                p.check_claim(NotBeforeClaim::try_from(s.as_str())?);
                            }
                            Claim::Iat(s) => {
                                p.check_claim(IssuedAtClaim::try_from(s.as_str())?);
                            }
                            Claim::Iss(s) => {
                                p.check_claim(IssuerClaim::from(leak(s)));
                            }
                            Claim::Sub(s) => {
                                p.check_claim(SubjectClaim::from(leak(s)));
                            }
                            Claim::Aud(s) => {
                                p.check_claim(AudienceClaim::from(leak(s)));
                            }
                            Claim::Jti(s) => {
                                p.check_claim(TokenIdentifierClaim::from(leak(s)));
                            }
                        }
                    }
                    } else {
                    for v in &cfg.validators {
                        if v.odd != 0 {
                                p.validate_claim(OddClaim::new(v.claim.key(), v.odd), hv_for(v));
                            } else {
                                validate_claim_on!(p, &v.claim, hv_for(v))?;
                            }
                    }
                    }
                }
                Ok(())
            }
        }
        impl Proto for $T {
            #[allow(unused_variables)]
            fn core_seal(key: &KeyMat, nonce: &[u8], msg: &str, footer: Option<&str>, ia: Option<&str>) -> (Out<String>, Vec<&'static str>) {
                guard(
                    || -> Result<String, PasetoError> {
                        let mut b = if ctor_turn() % 2 == 0 { Paseto::<$V, $Pu>::builder() } else { Paseto::<$V, $Pu>::default() };
                        // the order of the three setters must not matter: payload first, last, or in the middle
                        let order = ctor_turn() % 3;
                        if order == 0 {
                            b.set_payload(Payload::from(msg));
                        }
                        if let Some(f) = footer {
                            b.set_footer(Footer::from(f));
                        }
                        if order == 1 {
                            b.set_payload(Payload::from(msg));
                        }
                        ia_builder!($assert, b, ia);
                        if order == 2 {
                            b.set_payload(Payload::from(msg));
                        }
                        // the core builder is Clone + Copy: every third one is used through an explicit clone()
                        let mut b = clone_turn(b);
                        seal_core!($kind, $V, b, key, nonce)
                    },
                    perr,
                )
            }
            #[allow(unused_variables)]
            fn core_seal_many(key: &KeyMat, nonces: &[Vec<u8>], msg: &str, footer: Option<&str>, ia: Option<&str>, reconfigure: bool) -> Vec<Out<String>> {
                let mut outs = Vec::new();
                let mut b = Paseto::<$V, $Pu>::builder();
                b.set_payload(Payload::from(msg));
                if let Some(f) = footer {
                    b.set_footer(Footer::from(f));
                }
                ia_builder!($assert, b, ia);
                for nonce in nonces {
                    if reconfigure {
                        b.set_payload(Payload::from(msg));
                        if let Some(f) = footer {
                            b.set_footer(Footer::from(f));
                        }
                        ia_builder!($assert, b, ia);
                    }
                    let (o, _) = guard(|| -> Result<String, PasetoError> { seal_core!($kind, $V, b, key, nonce.as_slice()) }, perr);
                    outs.push(o);
                }
                outs
            }
            #[allow(unused_variables)]
            fn core_key_session(key: &KeyMat, steps: &[KStep]) -> Vec<Out<String>> {
                let mut outs: Vec<Out<String>> = Vec::new();
                let made: Result<(), PasetoError> = (|| {
                    session_keys!($kind, $V, key, |sk, ok| {
                        let mut last = String::new();
                        for st in steps {
                            match st {
                                KStep::Seal { nonce, msg, footer, ia } => {
                                    let (o, _) = guard(
                                        || -> Result<String, PasetoError> {
                                            let mut b = Paseto::<$V, $Pu>::builder();
                                            b.set_payload(Payload::from(msg.as_str()));
                                            if let Some(f) = footer {
                                                b.set_footer(Footer::from(f.as_str()));
                                            }
                                            ia_builder!($assert, b, ia.as_deref());
                                            seal_with!($kind, $V, b, sk, nonce.as_slice())
                                        },
                                        perr,
                                    );
                                    if let Out::Ok(t) = &o {
                                        last = t.clone();
                                    }
                                    outs.push(o);
                                }
                                KStep::Open { token, footer, ia } => {
                                    let tok: &str = token.as_deref().unwrap_or(last.as_str());
                                    let (o, _) = guard(|| -> Result<String, PasetoError> { open_call!($assert, $V, $Pu, $open, tok, ok, footer.as_deref(), ia.as_deref()) }, perr);
                                    outs.push(o);
                                }
                            }
                        }
                        Ok(())
                    })
                })();
                if let Err(e) = made {
                    // the key objects could not be constructed: every step fails that way
                    outs = steps.iter().map(|_| Out::Err(format!("KeyCtor/{}", perr(&e)))).collect();
                }
                outs
            }
            #[allow(unused_variables)]
            fn core_script(key: &KeyMat, ops: &[CoreOp]) -> Vec<Out<String>> {
                let mut outs = Vec::new();
                let mut b = Paseto::<$V, $Pu>::builder();
                for op in ops {
                    match op {
                        CoreOp::Payload(m) => {
                            b.set_payload(Payload::from(m.as_str()));
                        }
                        CoreOp::Footer(f) => {
                            b.set_footer(Footer::from(f.as_str()));
                        }
                        CoreOp::Assertion(a) => {
                            ia_builder!($assert, b, Some(a.as_str()));
                        }
                        CoreOp::Seal(nonce) => {
                            let (o, _) = guard(|| -> Result<String, PasetoError> { seal_core!($kind, $V, b, key, nonce.as_slice()) }, perr);
                            outs.push(o);
                        }
                    }
                }
                outs
            }
            fn core_open(key: &KeyMat, token: &str, footer: Option<&str>, ia: Option<&str>) -> (Out<String>, Vec<&'static str>) {
                guard(
                    || -> Result<String, PasetoError> {
                        open_keys!($kind, $V, key, |k| open_call!($assert, $V, $Pu, $open, token, &k, footer, ia))
                    },
                    perr,
                )
            }
            #[allow(unused_variables)]
            fn generic_seal(key: &KeyMat, ops: &[ClaimOp], footer: Option<&str>, ia: Option<&str>) -> (Out<String>, Vec<&'static str>) {
                guard(
                    || -> Result<String, HErr<GenericBuilderError>> {
                        let mut b = (if ctor_turn() % 2 == 0 { GenericBuilder::<$V, $Pu>::default() } else { GenericBuilder::<$V, $Pu>::new() });
                        for op in ops {
                            match op {
                                ClaimOp::Set(c) => set_claim_on!(b, c).map_err(HErr::ClaimCtor)?,
                                ClaimOp::Remove(k) => {
                                    b.remove_claim(k);
                                }
                                ClaimOp::Extend(kvs) => {
                                    b.extend_claims(extend_map(kvs));
                                }
                            }
                        }
                        if let Some(f) = footer {
                            b.set_footer(Footer::from(f));
                        }
                        ia_builder!($assert, b, ia);
                        seal_keys!($kind, $V, key, |k| b.$seal(&k).map_err(HErr::Lib))
                    },
                    fmt_h(builder_err),
                )
            }
            #[allow(unused_variables)]
            fn generic_seal_many(key: &KeyMat, ops: &[ClaimOp], footer: Option<&str>, ia: Option<&str>, n: usize, reuse: bool) -> Vec<Out<String>> {
                let mut outs = Vec::with_capacity(n);
                if reuse {
                    // one builder, claims re-set before each build (so that a draining builder still gets identical claims)
                    let mut b = (if ctor_turn() % 2 == 0 { GenericBuilder::<$V, $Pu>::default() } else { GenericBuilder::<$V, $Pu>::new() });
                    if let Some(f) = footer {
                        b.set_footer(Footer::from(f));
                    }
                    ia_builder!($assert, b, ia);
                    for _ in 0..n {
                        let (o, _) = guard(
                            || -> Result<String, HErr<GenericBuilderError>> {
                                for op in ops {
                                    match op {
                                        ClaimOp::Set(c) => set_claim_on!(b, c).map_err(HErr::ClaimCtor)?,
                                        ClaimOp::Remove(k) => {
                                            b.remove_claim(k);
                                        }
                                        ClaimOp::Extend(kvs) => {
                                            b.extend_claims(extend_map(kvs));
                                        }
                                    }
                                }
                                seal_keys!($kind, $V, key, |k| b.$seal(&k).map_err(HErr::Lib))
                            },
                            fmt_h(builder_err),
                        );
                        outs.push(o);
                    }
                } else {
                    for _ in 0..n {
                        outs.push(Self::generic_seal(key, ops, footer, ia).0);
                    }
                }
                outs
            }
            fn generic_open(key: &KeyMat, token: &str, cfg: &ParserCfg) -> (Out<Value>, Vec<&'static str>) {
                vtable_set(&cfg.validators);
                guard(
                    || -> Result<Value, HErr<GenericParserError>> {
                        open_keys_h!($kind, $V, key, |k| {
                            let mut p = (if ctor_turn() % 2 == 0 { GenericParser::<$V, $Pu>::default() } else { GenericParser::<$V, $Pu>::new() });
                            Self::configure_generic(&mut p, cfg).map_err(HErr::ClaimCtor)?;
                            p.parse(token, &k).map_err(HErr::Lib)
                        })
                    },
                    fmt_h(parser_err),
                )
            }
            fn generic_open_seq(key: &KeyMat, tokens: &[&str], cfg: &ParserCfg) -> Vec<(Out<Value>, Vec<(String, Value)>)> {
                vtable_set(&cfg.validators);
                let r = (|| -> Result<Vec<(Out<Value>, Vec<(String, Value)>)>, HErr<GenericParserError>> {
                    open_keys_h!($kind, $V, key, |k| {
                        let mut res = Vec::new();
                        let mut p = (if ctor_turn() % 2 == 0 { GenericParser::<$V, $Pu>::default() } else { GenericParser::<$V, $Pu>::new() });
                        Self::configure_generic(&mut p, cfg).map_err(HErr::ClaimCtor)?;
                        for t in tokens {
                            let _ = vlog_take();
                            let (o, _) = guard(|| -> Result<Value, HErr<GenericParserError>> { p.parse(t, &k).map_err(HErr::Lib) }, fmt_h(parser_err));
                            res.push((o, vlog_take()));
                        }
                        Ok(res)
                    })
                })();
                match r {
                    Ok(v) => v,
                    Err(e) => vec![(Out::Err(fmt_h(parser_err)(&e)), vec![])],
                }
            }
            #[allow(unused_variables)]
            fn generic_run(key: &KeyMat, ops: &[GOp]) -> Vec<Out<String>> {
                let mut cur_key: KeyMat = key.clone();
                let mut outs = Vec::new();
                let mut b = (if ctor_turn() % 2 == 0 { GenericBuilder::<$V, $Pu>::default() } else { GenericBuilder::<$V, $Pu>::new() });
                for op in ops {
                    match op {
                        GOp::Set(c) => {
                            let (o, _) = guard(|| -> Result<(), PasetoClaimError> { set_claim_on!(b, c) }, claim_err);
                            if matches!(c, Claim::Native(_, Native::Unserialisable)) {
                                // a set_claim that cannot succeed (the unchanged library panics in it): no verdict on the call itself
                                continue;
                            }
                            if !matches!(o, Out::Ok(())) {
                                outs.push(match o {
                                    Out::Err(e) => Out::Err(format!("ClaimCtor/{}", e)),
                                    Out::Panic(p) => Out::Panic(p),
                                    Out::Ok(()) => unreachable!(),
                                });
                            }
                        }
                        GOp::Remove(k) => {
                            b.remove_claim(k);
                        }
                        GOp::Extend(kvs) => {
                            b.extend_claims(extend_map(kvs));
                        }
                        GOp::Footer(f) => {
                            b.set_footer(Footer::from(f.as_str()));
                        }
                        GOp::Assertion(a) => {
                            ia_builder!($assert, b, Some(a.as_str()));
                        }
                        GOp::UseKey(k2) => {
                            cur_key = (**k2).clone();
                        }
                        GOp::Build => {
                            let (o, _) = guard(
                                || -> Result<String, HErr<GenericBuilderError>> { seal_keys!($kind, $V, (&cur_key), |k| b.$seal(&k).map_err(HErr::Lib)) },
                                fmt_h(builder_err),
                            );
                            outs.push(o);
                        }
                    }
                }
                outs
            }
            #[allow(unused_variables)]
            fn batteries_run(key: &KeyMat, ops: &[BOp]) -> Vec<Out<String>> {
                let mut cur_key: KeyMat = key.clone();
                let mut outs = Vec::new();
                // creation reads the clock and adds an hour: at the very end of the representable range it may refuse (panic)
                let (created, _) = guard(|| -> Result<PasetoBuilder<'_, $V, $Pu>, PasetoClaimError> { Ok(PasetoBuilder::<$V, $Pu>::default()) }, claim_err);
                let mut b = match created {
                    Out::Ok(b) => b,
                    Out::Panic(loc) => return vec![Out::Err(format!("BuilderCreation/panic {}", loc))],
                    Out::Err(e) => return vec![Out::Err(format!("BuilderCreation/{}", e))],
                };
                for op in ops {
                    match op {
                        BOp::Set(c) => {
                            let (o, _) = guard(|| -> Result<(), PasetoClaimError> { set_claim_on!(b, c) }, claim_err);
                            if !matches!(o, Out::Ok(())) {
                                outs.push(match o {
                                    Out::Err(e) => Out::Err(format!("ClaimCtor/{}", e)),
                                    Out::Panic(p) => Out::Panic(p),
                                    Out::Ok(()) => unreachable!(),
                                });
                            }
                        }
                        BOp::Ack => {
                            b.set_no_expiration_danger_acknowledged();
                        }
                        BOp::Footer(f) => {
                            b.set_footer(Footer::from(f.as_str()));
                        }
                        BOp::Assertion(a) => {
                            ia_builder!($assert, b, Some(a.as_str()));
                        }
                        BOp::UseKey(k2) => {
                            cur_key = (**k2).clone();
                        }
                        BOp::RngFault(on) => {
                            rusty_paseto::verif::set_rng_fault(*on);
                        }
                        BOp::Build => {
                            let (o, _) = guard(
                                || -> Result<String, HErr<GenericBuilderError>> { seal_keys!($kind, $V, (&cur_key), |k| b.build(&k).map_err(HErr::Lib)) },
                                fmt_h(builder_err),
                            );
                            outs.push(o);
                        }
                    }
                }
                rusty_paseto::verif::set_rng_fault(false);
                outs
            }
            fn batteries_session(key: &KeyMat) -> Box<dyn BSession> {
                struct S {
                    b: PasetoBuilder<'static, $V, $Pu>,
                    key: KeyMat,
                }
                impl BSession for S {
                    fn step(&mut self, op: &BOp) -> Option<Out<String>> {
                        // the builder keeps references into what it is given: the session owns a leaked copy
                        let op: &'static BOp = Box::leak(Box::new(op.clone()));
                        if let BOp::UseKey(k2) = op {
                            self.key = (**k2).clone();
                            return None;
                        }
                        let b = &mut self.b;
                        let key = &self.key;
                        match op {
                            BOp::Set(c) => {
                                let (o, _) = guard(|| -> Result<(), PasetoClaimError> { set_claim_on!(b, c) }, claim_err);
                                match o {
                                    Out::Ok(()) => None,
                                    Out::Err(e) => Some(Out::Err(format!("ClaimCtor/{}", e))),
                                    Out::Panic(p) => Some(Out::Panic(p)),
                                }
                            }
                            BOp::Ack => {
                                b.set_no_expiration_danger_acknowledged();
                                None
                            }
                            BOp::Footer(f) => {
                                b.set_footer(Footer::from(f.as_str()));
                                None
                            }
                            BOp::Assertion(a) => {
                                ia_builder!($assert, b, Some(a.as_str()));
                                None
                            }
                            BOp::UseKey(_) => None,
                            BOp::RngFault(on) => {
                                rusty_paseto::verif::set_rng_fault(*on);
                                None
                            }
                            BOp::Build => {
                                let (o, _) = guard(
                                    || -> Result<String, HErr<GenericBuilderError>> { seal_keys!($kind, $V, key, |k| b.build(&k).map_err(HErr::Lib)) },
                                    fmt_h(builder_err),
                                );
                                Some(o)
                            }
                        }
                    }
                }
                Box::new(S { b: PasetoBuilder::<$V, $Pu>::default(), key: key.clone() })
            }
            #[allow(unused_variables)]
            fn session(batteries: bool, keys: &[KeyMat], cfg: &ParserCfg, steps: &[PStep]) -> Vec<Out<Value>> {
                vtable_set(&cfg.validators);
                let _ = session_logs_take();
                let r = (|| -> Result<Vec<Out<Value>>, HErr<GenericParserError>> {
                    keys_vec!($kind, $V, keys, |ks| {
                        let mut res = Vec::new();
                        if batteries {
                            let mut p = if cfg.default_parser { PasetoParser::<$V, $Pu>::default() } else { PasetoParser::<$V, $Pu>::new() };
                            Self::configure_batteries(&mut p, cfg).map_err(HErr::ClaimCtor)?;
                            for st in steps {
                                match st {
                                    PStep::SetFooter(f) => {
                                        p.set_footer(Footer::from(f.as_str()));
                                    }
                                    PStep::SetAssertion(a) => {
                                        ia_builder!($assert, p, Some(a.as_str()));
                                    }
                                    PStep::SleepMs(ms) => std::thread::sleep(std::time::Duration::from_millis(*ms)),
                                    PStep::Check(c) => {
                                        let one = ParserCfg { expected: vec![c.clone()], ..Default::default() };
                                        // (leaks one small config per step: PasetoParser::check_claim wants 'static claims)
                                        let one: &'static ParserCfg = Box::leak(Box::new(one));
                                        Self::configure_batteries(&mut p, one).map_err(HErr::ClaimCtor)?;
                                    }
                                    PStep::Validate(v) => {
                                        vtable_add(v);
                                        let one: &'static ParserCfg = Box::leak(Box::new(ParserCfg { validators: vec![v.clone()], ..Default::default() }));
                                        Self::configure_batteries(&mut p, one).map_err(HErr::ClaimCtor)?;
                                    }
                                    PStep::CheckMany(cs) => {
                                        let many: &'static ParserCfg = Box::leak(Box::new(ParserCfg { expected: cs.clone(), ..Default::default() }));
                                        Self::configure_batteries(&mut p, many).map_err(HErr::ClaimCtor)?;
                                    }
                                    PStep::ValidateMany(vs) => {
                                        for v in vs {
                                            vtable_add(v);
                                        }
                                        let many: &'static ParserCfg = Box::leak(Box::new(ParserCfg { validators: vs.iter().cloned().map(|mut v| { v.reg = VReg::ValidateClaim; v }).collect(), ..Default::default() }));
                                        Self::configure_batteries(&mut p, many).map_err(HErr::ClaimCtor)?;
                                    }
                                    PStep::Nested(n) => run_nested(n),
                                    PStep::Parse { token, key } => {
                                        let k = &ks[*key % ks.len()];
                                        let _ = vlog_take();
                                        let (o, _) = guard(|| -> Result<Value, HErr<GenericParserError>> { p.parse(token, k).map_err(HErr::Lib) }, fmt_h(parser_err));
                                        SESSION_LOGS.with(|l| l.borrow_mut().push(vlog_take()));
                                        res.push(o);
                                    }
                                }
                            }
                        } else {
                            let mut p = (if ctor_turn() % 2 == 0 { GenericParser::<$V, $Pu>::default() } else { GenericParser::<$V, $Pu>::new() });
                            Self::configure_generic(&mut p, cfg).map_err(HErr::ClaimCtor)?;
                            for st in steps {
                                match st {
                                    PStep::SetFooter(f) => {
                                        p.set_footer(Footer::from(f.as_str()));
                                    }
                                    PStep::SetAssertion(a) => {
                                        ia_builder!($assert, p, Some(a.as_str()));
                                    }
                                    PStep::SleepMs(ms) => std::thread::sleep(std::time::Duration::from_millis(*ms)),
                                    PStep::Check(c) => {
                                        check_claim_on!(p, c, check_claim).map_err(HErr::ClaimCtor)?;
                                    }
                                    PStep::Validate(v) => {
                                        vtable_add(v);
                                        let one: &'static ParserCfg = Box::leak(Box::new(ParserCfg { validators: vec![v.clone()], ..Default::default() }));
                                        Self::configure_generic(&mut p, one).map_err(HErr::ClaimCtor)?;
                                    }
                                    PStep::CheckMany(cs) => {
                                        let many: &'static ParserCfg = Box::leak(Box::new(ParserCfg { expected: cs.clone(), expected_via_extend: true, ..Default::default() }));
                                        Self::configure_generic(&mut p, many).map_err(HErr::ClaimCtor)?;
                                    }
                                    PStep::ValidateMany(vs) => {
                                        for v in vs {
                                            vtable_add(v);
                                        }
                                        let many: &'static ParserCfg = Box::leak(Box::new(ParserCfg { validators: vs.clone(), ..Default::default() }));
                                        Self::configure_generic(&mut p, many).map_err(HErr::ClaimCtor)?;
                                    }
                                    PStep::Nested(n) => run_nested(n),
                                    PStep::Parse { token, key } => {
                                        let k = &ks[*key % ks.len()];
                                        let _ = vlog_take();
                                        let (o, _) = guard(|| -> Result<Value, HErr<GenericParserError>> { p.parse(token, k).map_err(HErr::Lib) }, fmt_h(parser_err));
                                        SESSION_LOGS.with(|l| l.borrow_mut().push(vlog_take()));
                                        res.push(o);
                                    }
                                }
                            }
                        }
                        Ok(res)
                    })
                })();
                match r {
                    Ok(v) => v,
                    Err(e) => vec![Out::Err(fmt_h(parser_err)(&e))],
                }
            }
            fn batteries_open(key: &KeyMat, token: &str, cfg: &ParserCfg) -> (Out<Value>, Vec<&'static str>) {
                vtable_set(&cfg.validators);
                guard(
                    || -> Result<Value, HErr<GenericParserError>> {
                        open_keys_h!($kind, $V, key, |k| {
                            let mut p = if cfg.default_parser { PasetoParser::<$V, $Pu>::default() } else { PasetoParser::<$V, $Pu>::new() };
                            Self::configure_batteries(&mut p, cfg).map_err(HErr::ClaimCtor)?;
                            p.parse(token, &k).map_err(HErr::Lib)
                        })
                    },
                    fmt_h(parser_err),
                )
            }
            fn batteries_open_seq(key: &KeyMat, tokens: &[&str], cfg: &ParserCfg) -> Vec<(Out<Value>, Vec<(String, Value)>)> {
                vtable_set(&cfg.validators);
                let r = (|| -> Result<Vec<(Out<Value>, Vec<(String, Value)>)>, HErr<GenericParserError>> {
                    open_keys_h!($kind, $V, key, |k| {
                        let mut res = Vec::new();
                        let mut p = if cfg.default_parser { PasetoParser::<$V, $Pu>::default() } else { PasetoParser::<$V, $Pu>::new() };
                        Self::configure_batteries(&mut p, cfg).map_err(HErr::ClaimCtor)?;
                        for t in tokens {
                            let _ = vlog_take();
                            let (o, _) = guard(|| -> Result<Value, HErr<GenericParserError>> { p.parse(t, &k).map_err(HErr::Lib) }, fmt_h(parser_err));
                            res.push((o, vlog_take()));
                        }
                        Ok(res)
                    })
                })();
                match r {
                    Ok(v) => v,
                    Err(e) => vec![(Out::Err(fmt_h(parser_err)(&e)), vec![])],
                }
            }
        }
    };
}

/// intentionally leaks: PasetoParser::check_claim requires 'static claims and the registered string claims borrow
fn leak(s: &str) -> &'static str {
    Box::leak(s.to_string().into_boxed_str())
}

// ---- key handling per kind -------------------------------------------------------------------
macro_rules! seal_core {
    (local, V2, $b:expr, $key:expr, $nonce:expr) => {{
        let k = PasetoSymmetricKey::<V2, Local>::from(key32($key.sym));
        if $nonce.len() == 24 {
            let n = Key::<24>::from($nonce);
            $b.try_encrypt(&k, &PasetoNonce::<V2, Local>::from(&n))
        } else {
            let n = Key::<32>::from($nonce);
            $b.try_encrypt(&k, &PasetoNonce::<V2, Local>::from(&n))
        }
    }};
    (local, $V:ident, $b:expr, $key:expr, $nonce:expr) => {{
        let k = PasetoSymmetricKey::<$V, Local>::from(key32($key.sym));
        let n = Key::<32>::from($nonce);
        $b.try_encrypt(&k, &PasetoNonce::<$V, Local>::from(&n))
    }};
    (ed, $V:ident, $b:expr, $key:expr, $nonce:expr) => {{
        let _ = $nonce;
        let kb = Key::<64>::from($key.sk.as_slice());
        $b.try_sign(&PasetoAsymmetricPrivateKey::<$V, Public>::from(&kb))
    }};
    (p384, $V:ident, $b:expr, $key:expr, $nonce:expr) => {{
        let _ = $nonce;
        let kb = Key::<48>::from($key.sk.as_slice());
        $b.try_sign(&PasetoAsymmetricPrivateKey::<$V, Public>::from(&kb))
    }};
    (rsa, $V:ident, $b:expr, $key:expr, $nonce:expr) => {{
        let _ = $nonce;
        $b.try_sign(&PasetoAsymmetricPrivateKey::<$V, Public>::from($key.sk.as_slice()))
    }};
}

/// seal with an EXISTING key object
macro_rules! seal_with {
    (local, V2, $b:expr, $k:expr, $nonce:expr) => {{
        if $nonce.len() == 24 {
            let n = Key::<24>::from($nonce);
            $b.try_encrypt($k, &PasetoNonce::<V2, Local>::from(&n))
        } else {
            let n = Key::<32>::from($nonce);
            $b.try_encrypt($k, &PasetoNonce::<V2, Local>::from(&n))
        }
    }};
    (local, $V:ident, $b:expr, $k:expr, $nonce:expr) => {{
        let n = Key::<32>::from($nonce);
        $b.try_encrypt($k, &PasetoNonce::<$V, Local>::from(&n))
    }};
    ($kind:ident, $V:ident, $b:expr, $k:expr, $nonce:expr) => {{
        let _ = $nonce;
        $b.try_sign($k)
    }};
}

/// the key objects of a session: for local tokens ONE object seals and opens; for public tokens one private and one public key object
macro_rules! session_keys {
    (local, $V:ident, $key:expr, |$sk:ident, $ok:ident| $body:expr) => {{
        let the_key = PasetoSymmetricKey::<$V, Local>::from(key32($key.sym));
        let $sk = &the_key;
        let $ok = &the_key;
        $body
    }};
    ($kind:ident, $V:ident, $key:expr, |$sk:ident, $ok:ident| $body:expr) => {{
        seal_keys!($kind, $V, $key, |sk_obj| {
            open_keys!($kind, $V, $key, |ok_obj| {
                let $sk = &sk_obj;
                let $ok = &ok_obj;
                $body
            })
        })
    }};
}

macro_rules! seal_keys {
    (local, $V:ident, $key:expr, |$k:ident| $body:expr) => {{
        let $k = PasetoSymmetricKey::<$V, Local>::from(key32($key.sym));
        $body
    }};
    (ed, $V:ident, $key:expr, |$k:ident| $body:expr) => {{
        let kb = Key::<64>::from($key.sk.as_slice());
        let $k = if ctor_turn() % 2 == 0 { PasetoAsymmetricPrivateKey::<$V, Public>::from(&kb) } else { PasetoAsymmetricPrivateKey::<$V, Public>::from($key.sk.as_slice()) };
        $body
    }};
    (p384, $V:ident, $key:expr, |$k:ident| $body:expr) => {{
        let kb = Key::<48>::from($key.sk.as_slice());
        let $k = PasetoAsymmetricPrivateKey::<$V, Public>::from(&kb);
        $body
    }};
    (rsa, $V:ident, $key:expr, |$k:ident| $body:expr) => {{
        let $k = PasetoAsymmetricPrivateKey::<$V, Public>::from($key.sk.as_slice());
        $body
    }};
}

macro_rules! open_keys {
    (local, $V:ident, $key:expr, |$k:ident| $body:expr) => {{
        let $k = PasetoSymmetricKey::<$V, Local>::from(key32($key.sym));
        $body
    }};
    (ed, $V:ident, $key:expr, |$k:ident| $body:expr) => {{
        let kb = Key::<32>::from($key.pk.as_slice());
        let $k = PasetoAsymmetricPublicKey::<$V, Public>::from(&kb);
        $body
    }};
    (p384, $V:ident, $key:expr, |$k:ident| $body:expr) => {{
        let kb = Key::<49>::from($key.pk.as_slice());
        let $k = PasetoAsymmetricPublicKey::<$V, Public>::try_from(&kb)?;
        $body
    }};
    (rsa, $V:ident, $key:expr, |$k:ident| $body:expr) => {{
        let $k = PasetoAsymmetricPublicKey::<$V, Public>::from($key.pk.as_slice());
        $body
    }};
}

/// all keys of a session, constructed BEFORE the parser (the parser's lifetime parameter covers its keys)
macro_rules! keys_vec {
    (local, $V:ident, $keys:expr, |$ks:ident| $body:expr) => {{
        let $ks: Vec<PasetoSymmetricKey<$V, Local>> = $keys.iter().map(|k| PasetoSymmetricKey::<$V, Local>::from(key32(k.sym))).collect();
        $body
    }};
    (ed, $V:ident, $keys:expr, |$ks:ident| $body:expr) => {{
        let kbs: Vec<Key<32>> = $keys.iter().map(|k| Key::<32>::from(k.pk.as_slice())).collect();
        let $ks: Vec<PasetoAsymmetricPublicKey<$V, Public>> = kbs.iter().map(PasetoAsymmetricPublicKey::<$V, Public>::from).collect();
        $body
    }};
    (p384, $V:ident, $keys:expr, |$ks:ident| $body:expr) => {{
        let kbs: Vec<Key<49>> = $keys.iter().map(|k| Key::<49>::from(k.pk.as_slice())).collect();
        let mut $ks: Vec<PasetoAsymmetricPublicKey<$V, Public>> = Vec::new();
        for kb in kbs.iter() {
            $ks.push(PasetoAsymmetricPublicKey::<$V, Public>::try_from(kb).map_err(HErr::KeyCtor)?);
        }
        $body
    }};
    (rsa, $V:ident, $keys:expr, |$ks:ident| $body:expr) => {{
        let $ks: Vec<PasetoAsymmetricPublicKey<$V, Public>> = $keys.iter().map(|k| PasetoAsymmetricPublicKey::<$V, Public>::from(k.pk.as_slice())).collect();
        $body
    }};
}

macro_rules! open_keys_h {
    (p384, $V:ident, $key:expr, |$k:ident| $body:expr) => {{
        let kb = Key::<49>::from($key.pk.as_slice());
        let $k = PasetoAsymmetricPublicKey::<$V, Public>::try_from(&kb).map_err(HErr::KeyCtor)?;
        $body
    }};
    ($kind:ident, $V:ident, $key:expr, |$k:ident| $body:expr) => {
        open_keys!($kind, $V, $key, |$k| $body)
    };
}

impl_proto!(TV1L, V1, Local, local, noassert, try_encrypt, try_decrypt);
impl_proto!(TV2L, V2, Local, local, noassert, try_encrypt, try_decrypt);
impl_proto!(TV3L, V3, Local, local, assert, try_encrypt, try_decrypt);
impl_proto!(TV4L, V4, Local, local, assert, try_encrypt, try_decrypt);
impl_proto!(TV1P, V1, Public, rsa, noassert, try_sign, try_verify);
impl_proto!(TV2P, V2, Public, ed, noassert, try_sign, try_verify);
impl_proto!(TV3P, V3, Public, p384, assert, try_sign, try_verify);
impl_proto!(TV4P, V4, Public, ed, assert, try_sign, try_verify);

#[macro_export]
macro_rules! dispatch {
    ($p:expr, $T:ident => $e:expr) => {
        match $p {
            $crate::proto::P::V1L => {
                type $T = $crate::proto::TV1L;
                $e
            }
            $crate::proto::P::V2L => {
                type $T = $crate::proto::TV2L;
                $e
            }
            $crate::proto::P::V3L => {
                type $T = $crate::proto::TV3L;
                $e
            }
            $crate::proto::P::V4L => {
                type $T = $crate::proto::TV4L;
                $e
            }
            $crate::proto::P::V1P => {
                type $T = $crate::proto::TV1P;
                $e
            }
            $crate::proto::P::V2P => {
                type $T = $crate::proto::TV2P;
                $e
            }
            $crate::proto::P::V3P => {
                type $T = $crate::proto::TV3P;
                $e
            }
            $crate::proto::P::V4P => {
                type $T = $crate::proto::TV4P;
                $e
            }
        }
    };
}

// ---- convenience free functions ---------------------------------------------------------------
pub fn core_seal(p: P, key: &KeyMat, nonce: &[u8], msg: &str, footer: Option<&str>, ia: Option<&str>) -> (Out<String>, Vec<&'static str>) {
    dispatch!(p, T => T::core_seal(key, nonce, msg, footer, ia))
}
pub fn core_open(p: P, key: &KeyMat, token: &str, footer: Option<&str>, ia: Option<&str>) -> (Out<String>, Vec<&'static str>) {
    dispatch!(p, T => T::core_open(key, token, footer, ia))
}
pub fn generic_seal(p: P, key: &KeyMat, ops: &[ClaimOp], footer: Option<&str>, ia: Option<&str>) -> (Out<String>, Vec<&'static str>) {
    dispatch!(p, T => T::generic_seal(key, ops, footer, ia))
}
pub fn generic_seal_many(p: P, key: &KeyMat, ops: &[ClaimOp], footer: Option<&str>, ia: Option<&str>, n: usize, reuse: bool) -> Vec<Out<String>> {
    dispatch!(p, T => T::generic_seal_many(key, ops, footer, ia, n, reuse))
}
pub fn generic_open(p: P, key: &KeyMat, token: &str, cfg: &ParserCfg) -> (Out<Value>, Vec<&'static str>) {
    dispatch!(p, T => T::generic_open(key, token, cfg))
}
pub fn generic_open_seq(p: P, key: &KeyMat, tokens: &[&str], cfg: &ParserCfg) -> Vec<(Out<Value>, Vec<(String, Value)>)> {
    dispatch!(p, T => T::generic_open_seq(key, tokens, cfg))
}
pub fn batteries_run(p: P, key: &KeyMat, ops: &[BOp]) -> Vec<Out<String>> {
    dispatch!(p, T => T::batteries_run(key, ops))
}
pub fn batteries_session(p: P, key: &KeyMat) -> Box<dyn BSession> {
    dispatch!(p, T => T::batteries_session(key))
}
pub fn batteries_open(p: P, key: &KeyMat, token: &str, cfg: &ParserCfg) -> (Out<Value>, Vec<&'static str>) {
    dispatch!(p, T => T::batteries_open(key, token, cfg))
}
pub fn batteries_open_seq(p: P, key: &KeyMat, tokens: &[&str], cfg: &ParserCfg) -> Vec<(Out<Value>, Vec<(String, Value)>)> {
    dispatch!(p, T => T::batteries_open_seq(key, tokens, cfg))
}

/// open at any layer with only footer/assertion configured; at the upper layers the payload comes back
/// as a JSON value, which is re-serialised for comparison by the caller when needed.
pub fn open_at(layer: Layer, p: P, key: &KeyMat, token: &str, footer: Option<&str>, ia: Option<&str>) -> (Out<String>, Vec<&'static str>) {
    match layer {
        Layer::Core => core_open(p, key, token, footer, ia),
        Layer::Generic | Layer::Batteries => {
            // the order in which footer and assertion are configured on the parser must not matter: alternate it
            let cfg = ParserCfg { footer: footer.map(|s| s.to_string()), assertion: ia.map(|s| s.to_string()), default_parser: false, assertion_first: ctor_turn() % 2 == 0, ..Default::default() };
            let (o, t) = if layer == Layer::Generic { generic_open(p, key, token, &cfg) } else { batteries_open(p, key, token, &cfg) };
            let o = match o {
                Out::Ok(v) => Out::Ok(v.to_string()),
                Out::Err(e) => Out::Err(e),
                Out::Panic(p) => Out::Panic(p),
            };
            (o, t)
        }
    }
}

pub fn session(p: P, batteries: bool, keys: &[KeyMat], cfg: &ParserCfg, steps: &[PStep]) -> Vec<Out<Value>> {
    dispatch!(p, T => T::session(batteries, keys, cfg, steps))
}

pub fn generic_run(p: P, key: &KeyMat, ops: &[GOp]) -> Vec<Out<String>> {
    dispatch!(p, T => T::generic_run(key, ops))
}

/// one step of a history on ONE core builder object
#[derive(Clone, Debug, Serialize, Deserialize, PartialEq)]
pub enum CoreOp {
    Payload(String),
    Footer(String),
    Assertion(String),
    Seal(Vec<u8>),
}

/// one step of a history on ONE key object (core layer; a fresh core builder per seal)
#[derive(Clone, Debug, Serialize, Deserialize, PartialEq)]
pub enum KStep {
    Seal { nonce: Vec<u8>, msg: String, footer: Option<String>, ia: Option<String> },
    /// `token: None` = the token of the latest successful Seal
    Open { token: Option<String>, footer: Option<String>, ia: Option<String> },
}

/// does the typed constructor of exp / nbf / iat accept this text on the tree under test? (a panic counts as "no")
pub fn time_claim_accepted(which: &str, text: &str) -> bool {
    let (o, _) = guard(
        || -> Result<(), PasetoClaimError> {
            match which {
                "exp" => ExpirationClaim::try_from(text).map(|_| ()),
                "nbf" => NotBeforeClaim::try_from(text).map(|_| ()),
                _ => IssuedAtClaim::try_from(text).map(|_| ()),
            }
        },
        claim_err,
    );
    o.is_ok()
}

pub fn core_key_session(p: P, key: &KeyMat, steps: &[KStep]) -> Vec<Out<String>> {
    dispatch!(p, T => T::core_key_session(key, steps))
}

pub fn core_script(p: P, key: &KeyMat, ops: &[CoreOp]) -> Vec<Out<String>> {
    dispatch!(p, T => T::core_script(key, ops))
}

pub fn core_seal_many(p: P, key: &KeyMat, nonces: &[Vec<u8>], msg: &str, footer: Option<&str>, ia: Option<&str>, reconfigure: bool) -> Vec<Out<String>> {
    dispatch!(p, T => T::core_seal_many(key, nonces, msg, footer, ia, reconfigure))
}
