//! C03: every alteration of an authentic token is rejected before its content is used.
//! Oracle by construction: every mutation operator knows which region it touched and whether the
//! mutant falls into one of the two tolerated classes.
use crate::gens::Pools;
use crate::proto::*;
use crate::report::{parallel, Report};
use crate::rng::Rng;
use crate::util;
use serde::{Deserialize, Serialize};
use serde_json::{json, Value};

#[derive(Clone, Debug, Serialize, Deserialize)]
pub struct Base {
    pub p: P,
    pub key: KeyMat,
    pub msg: String,
    pub footer: Option<String>,
    pub ia: Option<String>,
    /// the authentic token (kept verbatim: RSA-PSS signing is randomised)
    pub token: String,
}

#[derive(Clone, Debug, Serialize, Deserialize)]
pub struct Mutant {
    pub token: String,
    pub op: String,
    pub region: String,
    /// expected footer handed to the parser (None = the original one)
    pub supply_footer: Option<Option<String>>,
}

#[derive(Clone, Debug, Serialize, Deserialize)]
pub struct Case {
    pub base: Base,
    pub layer: Layer,
    pub mutant: Mutant,
}

const P384_N: [u8; 48] = [
    0xFF, 0xFF, 0xFF, 0xFF, 0xFF, 0xFF, 0xFF, 0xFF, 0xFF, 0xFF, 0xFF, 0xFF, 0xFF, 0xFF, 0xFF, 0xFF, 0xFF, 0xFF, 0xFF, 0xFF, 0xFF, 0xFF, 0xFF, 0xFF, 0xC7, 0x63, 0x4D, 0x81, 0xF4, 0x37, 0x2D, 0xDF, 0x58,
    0x1A, 0x0D, 0xB2, 0x48, 0xB0, 0xA7, 0x7A, 0xEC, 0xEC, 0x19, 0x6A, 0xCC, 0xC5, 0x29, 0x73,
];
const ED_L_LE: [u8; 32] = [
    0xed, 0xd3, 0xf5, 0x5c, 0x1a, 0x63, 0x12, 0x58, 0xd6, 0x9c, 0xf7, 0xa2, 0xde, 0xf9, 0xde, 0x14, 0, 0, 0, 0, 0, 0, 0, 0, 0, 0, 0, 0, 0, 0, 0, 0x10,
];

fn be_sub(a: &[u8], b: &[u8]) -> Vec<u8> {
    // a - b, big endian, same length, assumes a >= b
    let mut out = vec![0u8; a.len()];
    let mut borrow = 0i32;
    for i in (0..a.len()).rev() {
        let mut d = a[i] as i32 - b[i] as i32 - borrow;
        if d < 0 {
            d += 256;
            borrow = 1;
        } else {
            borrow = 0;
        }
        out[i] = d as u8;
    }
    out
}
fn le_add(a: &[u8], b: &[u8]) -> (Vec<u8>, bool) {
    let mut out = vec![0u8; a.len()];
    let mut carry = 0u32;
    for i in 0..a.len() {
        let s = a[i] as u32 + b[i] as u32 + carry;
        out[i] = s as u8;
        carry = s >> 8;
    }
    (out, carry != 0)
}

pub struct Parts<'a> {
    pub header: String,
    pub payload_b64: &'a str,
    pub footer_b64: Option<&'a str>,
    pub payload: Vec<u8>,
}

pub fn parts(p: P, token: &str) -> Option<Parts<'_>> {
    let segs: Vec<&str> = token.split('.').collect();
    if segs.len() < 3 || segs.len() > 4 {
        return None;
    }
    let payload = util::unb64(segs[2])?;
    Some(Parts { header: p.header(), payload_b64: segs[2], footer_b64: segs.get(3).copied(), payload })
}

fn region_of(p: P, payload_len: usize, idx: usize) -> &'static str {
    if p.is_local() {
        if idx < p.nonce_len() {
            "nonce"
        } else if idx >= payload_len.saturating_sub(p.trailer_len()) {
            "tag"
        } else {
            "ciphertext"
        }
    } else if idx >= payload_len.saturating_sub(p.trailer_len()) {
        "signature"
    } else {
        "message"
    }
}

fn assemble(header: &str, payload: &[u8], footer_b64: Option<&str>) -> String {
    match footer_b64 {
        Some(f) => format!("{}{}.{}", header, util::b64(payload), f),
        None => format!("{}{}", header, util::b64(payload)),
    }
}

/// All mutants of one base token.  `full` = the exhaustive operators (core layer); otherwise the reduced set
/// used at the upper layers.  `other` = a second authentic token (same protocol, key, footer, assertion) for splices.
pub fn mutants(b: &Base, other: &Base, full: bool, rng: &mut Rng, extra_random: usize, double_flips: bool) -> Vec<Mutant> {
    let p = b.p;
    let mut out: Vec<Mutant> = Vec::new();
    let pt = match parts(p, &b.token) {
        Some(x) => x,
        None => return out,
    };
    let po = parts(p, &other.token);
    let hdr = pt.header.clone();
    let n = pt.payload.len();
    let mut push = |token: String, op: &str, region: &str, supply: Option<Option<String>>| {
        if token != b.token && token != other.token {
            out.push(Mutant { token, op: op.to_string(), region: region.to_string(), supply_footer: supply });
        }
    };
    // 1. every single-bit flip of the decoded payload
    for i in 0..n {
        for bit in 0..8 {
            if !full && (i * 8 + bit) % 5 != 0 {
                continue;
            }
            let mut v = pt.payload.clone();
            v[i] ^= 1 << bit;
            push(assemble(&hdr, &v, pt.footer_b64), "bitflip", region_of(p, n, i), None);
        }
    }
    // 1b. double flips inside the tag/signature (thorough, short tokens)
    if double_flips && n <= 200 {
        let start = n - p.trailer_len().min(n);
        let bits: Vec<usize> = (start * 8..n * 8).collect();
        for (ai, &a) in bits.iter().enumerate() {
            for &c in bits.iter().skip(ai + 1) {
                if (a * 31 + c) % 7 != 0 {
                    continue;
                }
                let mut v = pt.payload.clone();
                v[a / 8] ^= 1 << (a % 8);
                v[c / 8] ^= 1 << (c % 8);
                push(assemble(&hdr, &v, pt.footer_b64), "double-bitflip", region_of(p, n, a / 8), None);
            }
        }
    }
    // 2. every single-character substitution of the token text
    if full {
        let chars: Vec<char> = b.token.chars().collect();
        let mut alphabet: Vec<char> = util::B64.iter().map(|&c| c as char).collect();
        alphabet.extend(['=', '+', '/', '.', ' ', 'é']);
        let hlen = hdr.chars().count();
        let plen = pt.payload_b64.chars().count();
        for i in 0..chars.len() {
            let region = if i < hlen {
                "header"
            } else if i < hlen + plen {
                "payload-text"
            } else if i == hlen + plen {
                "dot"
            } else {
                "footer-text"
            };
            for &a in &alphabet {
                if a == chars[i] {
                    continue;
                }
                let mut c2 = chars.clone();
                c2[i] = a;
                push(c2.into_iter().collect(), "char-subst", region, None);
            }
        }
        // 3. every proper prefix
        for cut in 0..chars.len() {
            push(chars[..cut].iter().collect(), "prefix", "structure", None);
        }
        // 4. suffix extensions
        for ext in [".", "..", "A", "AA", "AAA", "=", "==", ".A", ".AAAA", "\0", " ", "\n", "-", "_"] {
            push(format!("{}{}", b.token, ext), "suffix-extension", "structure", None);
        }
        // 4b. LONG extensions and truncations (length checks that wrap: 256, 65536 ...), of the token and of the footer segment
        for n in [4usize, 64, 252, 255, 256, 257, 260, 512, 768, 1024, 4096, 65536] {
            let fill: String = std::iter::repeat('A').take(n).collect();
            push(format!("{}.{}", b.token, fill), "long-suffix-extension", "structure", None);
            push(format!("{}{}", b.token, fill), "long-extension-of-last-segment", if pt.footer_b64.is_some() { "footer-text" } else { "payload-text" }, None);
            if let Some(f) = pt.footer_b64 {
                if f.len() > n {
                    push(format!("{}{}.{}", hdr, pt.payload_b64, &f[..f.len() - n]), "long-footer-truncation", "footer-text", None);
                    push(format!("{}{}.{}", hdr, pt.payload_b64, &f[n..]), "long-footer-head-removal", "footer-text", None);
                }
                // same-length footer whose tail differs only beyond position n
                if f.len() > n {
                    let mut c2: Vec<char> = f.chars().collect();
                    let last = c2.len() - 1;
                    c2[last] = if c2[last] == 'A' { 'B' } else { 'A' };
                    let _ = n;
                    push(format!("{}{}.{}", hdr, pt.payload_b64, c2.into_iter().collect::<String>()), "footer-last-char", "footer-text", None);
                }
            }
        }
        // 6. move the payload/footer dot
        if let Some(f) = pt.footer_b64 {
            let s: Vec<char> = format!("{}{}", pt.payload_b64, f).chars().collect();
            for pos in 0..=s.len() {
                let a: String = s[..pos].iter().collect();
                let c: String = s[pos..].iter().collect();
                push(format!("{}{}.{}", hdr, a, c), "move-footer-dot", "structure", None);
            }
            // no dot at all: footer text glued to the payload
            push(format!("{}{}{}", hdr, pt.payload_b64, f), "drop-footer-dot", "structure", None);
        }
        // 8. non-canonical base64
        {
            let pc: Vec<char> = pt.payload_b64.chars().collect();
            if let Some(&last) = pc.last() {
                let rem = pc.len() % 4;
                if rem == 2 || rem == 3 {
                    let idx = util::B64.iter().position(|&c| c as char == last).unwrap_or(0);
                    let free = if rem == 2 { 16 } else { 4 };
                    for k in 1..free {
                        let alt = util::B64[(idx & !(free - 1)) | k] as char;
                        if alt == last {
                            continue;
                        }
                        let mut c2 = pc.clone();
                        *c2.last_mut().unwrap() = alt;
                        let body: String = c2.into_iter().collect();
                        push(
                            match pt.footer_b64 {
                                Some(f) => format!("{}{}.{}", hdr, body, f),
                                None => format!("{}{}", hdr, body),
                            },
                            "b64-trailing-bits",
                            "payload-text",
                            None,
                        );
                    }
                }
            }
            for pad in ["=", "==", "==="] {
                push(
                    match pt.footer_b64 {
                        Some(f) => format!("{}{}{}.{}", hdr, pt.payload_b64, pad, f),
                        None => format!("{}{}{}", hdr, pt.payload_b64, pad),
                    },
                    "b64-padding",
                    "payload-text",
                    None,
                );
                if let Some(f) = pt.footer_b64 {
                    push(format!("{}{}.{}{}", hdr, pt.payload_b64, f, pad), "b64-padding", "footer-text", None);
                }
            }
            let std_alpha = pt.payload_b64.replace('-', "+").replace('_', "/");
            if std_alpha != pt.payload_b64 {
                push(
                    match pt.footer_b64 {
                        Some(f) => format!("{}{}.{}", hdr, std_alpha, f),
                        None => format!("{}{}", hdr, std_alpha),
                    },
                    "b64-std-alphabet",
                    "payload-text",
                    None,
                );
            }
        }
    }
    // 4c. white space and invisible characters glued to either end of the token (all layers)
    for ws in ["\n", " ", "\r\n", "\t", "\u{a0}", "\u{2028}", "\u{3000}", "\u{feff}", "\u{200b}", "  "] {
        push(format!("{}{}", b.token, ws), "whitespace-appended", "structure", None);
        push(format!("{}{}", ws, b.token), "whitespace-prepended", "structure", None);
        push(format!("{}{}{}", ws, b.token, ws), "whitespace-around", "structure", None);
    }
    // 4c'. the wrappings a token travels in ("Bearer <token>", quotes, URL-encoded dots, an upper-cased header, a JSON
    // string, a trailing ';' or ','): a parser that tolerates them as a convenience accepts strings that are not the token
    {
        let t = &b.token;
        let up_header = match t.find('.').and_then(|i| t[i + 1..].find('.').map(|j| i + 1 + j)) {
            Some(k) => format!("{}{}", t[..k].to_uppercase(), &t[k..]),
            None => t.to_uppercase(),
        };
        for (wrapped, op) in [
            (format!("Bearer {}", t), "bearer-prefix"),
            (format!("bearer {}", t), "bearer-prefix"),
            (format!("\"{}\"", t), "quoted"),
            (format!("'{}'", t), "quoted"),
            (format!("<{}>", t), "quoted"),
            (t.replace('.', "%2E"), "url-encoded-dots"),
            (t.replacen('.', "%2e", 1), "url-encoded-dots"),
            (up_header, "header-upper-cased"),
            (format!("{};", t), "trailing-separator"),
            (format!("{},", t), "trailing-separator"),
            (format!("{}=", t), "trailing-separator"),
            (format!("token={}", t), "key-value-prefix"),
            (format!("{}\0", t), "nul-terminated"),
        ] {
            push(wrapped, op, "structure", None);
        }
    }
    // 4d. extra segments (a fifth, sixth ... segment after the footer / after an empty footer)
    for tail in [".", "..", ".A", "..A", ".AAAA.AAAA", "...."] {
        push(format!("{}{}", b.token, tail), "extra-segments", "structure", None);
    }
    // 5. delete / insert bytes at the field boundaries of the decoded payload
    {
        let mut cuts = vec![0usize, n];
        if p.is_local() {
            cuts.push(p.nonce_len().min(n));
        }
        cuts.push(n - p.trailer_len().min(n));
        cuts.sort();
        cuts.dedup();
        for &c in &cuts {
            for k in [1usize, 2, 3, 8, 16, 32] {
                if c + k <= n {
                    let mut v = pt.payload.clone();
                    v.drain(c..c + k);
                    push(assemble(&hdr, &v, pt.footer_b64), "delete-at-boundary", region_of(p, n, c.min(n.saturating_sub(1))), None);
                }
                if c >= k {
                    let mut v = pt.payload.clone();
                    v.drain(c - k..c);
                    push(assemble(&hdr, &v, pt.footer_b64), "delete-at-boundary", region_of(p, n, c - k), None);
                }
                let mut v = pt.payload.clone();
                let ins = rng.bytes(k);
                for (j, x) in ins.iter().enumerate() {
                    v.insert(c + j, *x);
                }
                push(assemble(&hdr, &v, pt.footer_b64), "insert-at-boundary", region_of(p, n, c.min(n.saturating_sub(1))), None);
                let mut v = pt.payload.clone();
                for j in 0..k {
                    v.insert(c + j, 0);
                }
                push(assemble(&hdr, &v, pt.footer_b64), "insert-zeros-at-boundary", region_of(p, n, c.min(n.saturating_sub(1))), None);
            }
        }
    }
    // 7. splices of two authentic tokens (same protocol, key, footer, assertion)
    if let Some(po) = &po {
        let m = po.payload.len();
        let t = p.trailer_len();
        if p.is_local() {
            let nl = p.nonce_len();
            if n >= nl + t && m >= nl + t {
                let (n1, c1, t1) = (&pt.payload[..nl], &pt.payload[nl..n - t], &pt.payload[n - t..]);
                let (n2, c2, t2) = (&po.payload[..nl], &po.payload[nl..m - t], &po.payload[m - t..]);
                let combos: [(&[u8], &[u8], &[u8], &str); 6] =
                    [(n1, c1, t2, "tag"), (n1, c2, t1, "ciphertext"), (n2, c1, t1, "nonce"), (n2, c2, t1, "tag"), (n2, c1, t2, "ciphertext"), (n1, c2, t2, "nonce")];
                for (a, c, d, region) in combos {
                    let v = [a, c, d].concat();
                    push(assemble(&hdr, &v, pt.footer_b64), "splice", region, None);
                }
            }
        } else if n >= t && m >= t {
            let (m1, s1) = (&pt.payload[..n - t], &pt.payload[n - t..]);
            let (m2, s2) = (&po.payload[..m - t], &po.payload[m - t..]);
            push(assemble(&hdr, &[m1, s2].concat(), pt.footer_b64), "splice", "signature", None);
            push(assemble(&hdr, &[m2, s1].concat(), pt.footer_b64), "splice", "message", None);
        }
    }
    // footer swaps: another footer on the authentic payload, presented both with the original and with the new expectation
    for nf in ["other-footer", "", "{\"kid\":\"evil\"}"] {
        let enc = util::b64(nf.as_bytes());
        if Some(enc.as_str()) == pt.footer_b64 || (nf.is_empty() && pt.footer_b64.is_none()) {
            continue;
        }
        let tok = if nf.is_empty() && pt.footer_b64.is_some() { format!("{}{}", hdr, pt.payload_b64) } else { format!("{}{}.{}", hdr, pt.payload_b64, enc) };
        // stripping a non-empty footer (or adding one) with the matching expectation must fail authentication
        push(tok.clone(), "footer-swap", "footer", None);
        push(tok, "footer-swap+matching-expectation", "footer", Some(if nf.is_empty() { None } else { Some(nf.to_string()) }));
    }
    // 8b. the footer segment replaced by bytes that a LOSSY text decoder would map to the same string: every U+FFFD of the footer
    //     (EF BF BD) replaced by an invalid UTF-8 sequence; and, for any footer, one byte replaced by an invalid lead/continuation byte
    if let (Some(fseg), Some(ftxt)) = (pt.footer_b64, b.footer.as_deref()) {
        let fb = ftxt.as_bytes();
        for bad in [&[0xFFu8][..], &[0x80][..], &[0xE2, 0x82][..], &[0xC3][..], &[0xF0, 0x9F][..]] {
            let mut out_bytes: Vec<u8> = Vec::new();
            let mut i = 0;
            let mut replaced = false;
            while i < fb.len() {
                if fb[i..].starts_with(&[0xEF, 0xBF, 0xBD]) {
                    out_bytes.extend_from_slice(bad);
                    i += 3;
                    replaced = true;
                } else {
                    out_bytes.push(fb[i]);
                    i += 1;
                }
            }
            if replaced {
                push(format!("{}{}.{}", hdr, pt.payload_b64, util::b64(&out_bytes)), "footer-fffd-to-invalid-utf8", "footer", None);
            }
            if !fb.is_empty() {
                let mut v = fb.to_vec();
                let pos = v.len() / 2;
                v.splice(pos..pos + 1, bad.iter().copied());
                push(format!("{}{}.{}", hdr, pt.payload_b64, util::b64(&v)), "footer-byte-to-invalid-utf8", "footer", None);
            }
        }
        let _ = fseg;
    }
    // 9. signature re-encodings
    if p == P::V3P && n >= 96 {
        let (msg, sig) = pt.payload.split_at(n - 96);
        let s = &sig[48..];
        let neg = be_sub(&P384_N, s);
        let mut v = msg.to_vec();
        v.extend_from_slice(&sig[..48]);
        v.extend_from_slice(&neg);
        push(assemble(&hdr, &v, pt.footer_b64), "ecdsa-s-negation", "signature", None);
        let rneg = be_sub(&P384_N, &sig[..48]);
        let mut v = msg.to_vec();
        v.extend_from_slice(&rneg);
        v.extend_from_slice(s);
        push(assemble(&hdr, &v, pt.footer_b64), "ecdsa-r-negation", "signature", None);
    }
    if (p == P::V2P || p == P::V4P) && n >= 64 {
        let (msg, sig) = pt.payload.split_at(n - 64);
        let (s2, overflow) = le_add(&sig[32..], &ED_L_LE);
        if !overflow {
            let mut v = msg.to_vec();
            v.extend_from_slice(&sig[..32]);
            v.extend_from_slice(&s2);
            push(assemble(&hdr, &v, pt.footer_b64), "ed25519-s-plus-L", "signature", None);
        }
    }
    // 10. random multi-byte edits
    for _ in 0..extra_random {
        let mut v = pt.payload.clone();
        let mut region = "structure";
        match rng.below(5) {
            0 => {
                let k = 1 + rng.below(4);
                for _ in 0..k {
                    if !v.is_empty() {
                        let i = rng.below(v.len());
                        v[i] ^= 1 + rng.below(255) as u8;
                        region = region_of(p, n, i);
                    }
                }
            }
            1 => {
                if !v.is_empty() {
                    let i = rng.below(v.len());
                    let k = 1 + rng.below(8);
                    v.drain(i..(i + k).min(v.len()));
                }
            }
            2 => {
                let i = rng.below(v.len() + 1);
                let ins = rng.bytes_upto(9);
                for (j, x) in ins.iter().enumerate() {
                    v.insert(i + j, *x);
                }
            }
            3 => {
                if v.len() >= 2 {
                    let i = rng.below(v.len());
                    let j = rng.below(v.len());
                    v.swap(i, j);
                    region = region_of(p, n, i);
                }
            }
            _ => {
                let k = rng.below(v.len() + 1);
                v.truncate(k);
            }
        }
        push(assemble(&hdr, &v, pt.footer_b64), "random-edit", region, None);
    }
    out
}

/// is `mutant` in one of the two tolerated classes relative to the base token?
fn tolerated(b: &Base, m: &Mutant) -> Option<&'static str> {
    if m.supply_footer.is_some() {
        return None;
    }
    // an added / removed EMPTY footer segment: only between a 3-segment token and the same token plus one trailing '.'
    let segs = |t: &str| t.split('.').count();
    if (m.token == format!("{}.", b.token) && segs(&b.token) == 3) || (b.token == format!("{}.", m.token) && segs(&m.token) == 3) {
        return Some("empty-footer-segment");
    }
    if !b.p.is_local() {
        let (pb, pm) = (parts(b.p, &b.token)?, parts(b.p, &m.token)?);
        let t = b.p.trailer_len();
        if m.token.starts_with(&pb.header)
            && pb.footer_b64 == pm.footer_b64
            && pb.payload.len() == pm.payload.len()
            && pb.payload.len() >= t
            && pb.payload[..pb.payload.len() - t] == pm.payload[..pm.payload.len() - t]
        {
            return Some("signature-only-change");
        }
    }
    None
}

fn is_crypto_reject(e: &str) -> bool {
    !matches!(e, "Cipher/IncorrectSize" | "Cipher/WrongHeader" | "Cipher/FooterInvalid" | "Cipher/PayloadBase64Decode")
}

fn validator_cfg(b: &Base, supply: &Option<Option<String>>, default_parser: bool) -> ParserCfg {
    let footer = match supply {
        Some(f) => f.clone(),
        None => b.footer.clone(),
    };
    ParserCfg {
        footer,
        assertion: b.ia.clone(),
        expected: vec![],
        validators: vec![VSpec { claim: Claim::Custom("k".into(), json!(1)), behave: VBehave::Accept, reg: VReg::ValidateClaim, second: false, odd: 0 }],
        default_parser,
        ..Default::default()
    }
}

pub fn eval(b: &Base, layer: Layer, m: &Mutant, r: &mut Report) {
    r.evaluations += 1;
    let p = b.p;
    let tag = format!("{}/{}", p.name(), layer.name());
    let supply: Option<&str> = match &m.supply_footer {
        Some(f) => f.as_deref(),
        None => b.footer.as_deref(),
    };
    let _ = vlog_take();
    let (out, trace): (Out<String>, Vec<&'static str>) = match layer {
        Layer::Core => core_open(p, &b.key, &m.token, supply, b.ia.as_deref()),
        Layer::Generic => {
            let (o, t) = generic_open(p, &b.key, &m.token, &validator_cfg(b, &m.supply_footer, false));
            (map_json(o), t)
        }
        Layer::Batteries => {
            let (o, t) = batteries_open(p, &b.key, &m.token, &validator_cfg(b, &m.supply_footer, true));
            (map_json(o), t)
        }
    };
    let vlog = vlog_take();
    let replay = || json!({"cmd": "C03", "case": Case { base: b.clone(), layer, mutant: m.clone() }});
    let what = format!("{} op={} region={}", tag, m.op, m.region);
    let tol = tolerated(b, m);
    match &out {
        Out::Panic(loc) => {
            r.violation(format!("C03 panic {} op={}", tag, m.op), format!("{}: a panic is not a rejection: {} (mutant {:?})", what, loc, util::clip(&m.token, 90)), replay());
        }
        Out::Ok(x) => {
            let same = if layer == Layer::Core { *x == b.msg } else { serde_json::from_str::<Value>(x).ok() == serde_json::from_str::<Value>(&b.msg).ok() };
            if !same {
                r.violation(
                    format!("C03 different-content-accepted {} op={} region={}", tag, m.op, m.region),
                    format!("{}: altered token ACCEPTED and returned different content {:?} (original {:?}); mutant {:?}", what, util::clip(x, 80), util::clip(&b.msg, 80), util::clip(&m.token, 120)),
                    replay(),
                );
            } else if let Some(class) = tol {
                r.count(&format!("{} tolerated-accept[{}]", tag, class));
                r.see("tolerated-accepts", &format!("{} {} {}", tag, m.op, class));
            } else {
                r.violation(
                    format!("C03 altered-token-accepted {} op={} region={}", tag, m.op, m.region),
                    format!("{}: altered token ACCEPTED (returned the original message); mutant {:?} vs authentic {:?}", what, util::clip(&m.token, 120), util::clip(&b.token, 120)),
                    replay(),
                );
            }
        }
        Out::Err(e) => {
            r.see(&format!("rejection-variants {}", tag), e);
            if is_plaintext_error(e) {
                r.violation(
                    format!("C03 plaintext-handled-before-authentication {} err={} op={}", tag, e, m.op),
                    format!("{}: rejected with {} — an error that can only arise after plaintext was produced; mutant {:?}", what, e, util::clip(&m.token, 120)),
                    replay(),
                );
            } else if is_crypto_reject(e) {
                r.count(&format!("{} rejected-at-crypto", tag));
                r.distinct(format!("{}|{}|{}", tag, m.op, m.region));
            } else {
                r.count(&format!("{} rejected-at-format", tag));
            }
            if tol.is_some() {
                r.count(&format!("{} tolerated-class-rejected", tag));
            }
            if !trace.is_empty() {
                r.violation(
                    format!("C03 keystream-before-authentication {} op={}", tag, m.op),
                    format!("{}: the call ended in rejection ({}) but the decryption primitive ran during it (hook trace {:?}); mutant {:?}", what, e, trace, util::clip(&m.token, 120)),
                    replay(),
                );
            }
        }
    }
    if !out.is_ok() && !vlog.is_empty() {
        r.violation(
            format!("C03 validator-ran-on-rejected-token {} op={}", tag, m.op),
            format!("{}: a claim validator was invoked ({:?}) although the token was not accepted ({})", what, vlog, out.brief()),
            replay(),
        );
    }
    if out.is_ok() && layer == Layer::Core && p.is_local() && p != P::V2L {
        // observation only: the property constrains rejected calls, not how an accepted one decrypts
        r.see("keystream events during ACCEPTED local decrypts", &format!("{} n={}", p.name(), trace.len()));
    }
    if r.samples.len() < 8 && r.evaluations % 1013 == 7 {
        r.sample(json!({"entry": tag, "operator": m.op, "region": m.region, "authentic": util::clip(&b.token, 60), "mutant": util::clip(&m.token, 60), "outcome": out.brief(), "hook_trace": trace}));
    }
}

fn map_json(o: Out<Value>) -> Out<String> {
    match o {
        Out::Ok(v) => Out::Ok(v.to_string()),
        Out::Err(e) => Out::Err(e),
        Out::Panic(p) => Out::Panic(p),
    }
}

pub fn make_base(p: P, key: &KeyMat, msg: &str, footer: Option<&str>, ia: Option<&str>, rng: &mut Rng) -> Option<Base> {
    let ia = if p.has_assertion() { ia } else { None };
    let nonce = rng.bytes(32);
    let tok = core_seal(p, key, &nonce, msg, footer, ia).0.ok()?.clone();
    // authenticity self-check (a failure here is C01/C02's finding, not C03's)
    match core_open(p, key, &tok, footer, ia).0 {
        Out::Ok(m) if m == msg => {}
        _ => return None,
    }
    Some(Base { p, key: key.clone(), msg: msg.to_string(), footer: footer.map(|s| s.to_string()), ia: ia.map(|s| s.to_string()), token: tok })
}

pub fn run(tier: &str, seed: u64) -> Report {
    let thorough = tier == "thorough";
    let pools = Pools::new(seed, 8, 4);
    let mut total = Report::new();
    if pools.rsa.is_empty() {
        total.inconclusive.push("no RSA key fixtures found".into());
        return total;
    }
    let mut rng = Rng::new(seed, "c03-bases", 0);
    // base tokens: (message, footer, assertion, json?)
    let json_msg = |extra: &str| format!("{{\"data\":\"{}\",\"exp\":\"2999-01-01T00:00:00+00:00\",\"k\":1}}", extra);
    let mut specs: Vec<(String, Option<&str>, Option<&str>, bool)> = vec![
        (String::new(), None, None, false),
        ("x".into(), Some("ftr"), None, false),
        ("a 20-byte message!!".into(), None, Some("implicit"), false),
        (json_msg("hello"), Some("{\"kid\":\"k-1\"}"), Some("implicit"), true),
        (json_msg(&"z".repeat(60)), Some("f"), None, true),
        (json_msg("\u{1F980}\u{e9}"), None, None, true),
        ("long footer".into(), Some(LONG_FOOTER), None, false),
        (json_msg("replacement char in the footer"), Some("kid:\u{FFFD}7\u{FFFD}"), None, true),
    ];
    if thorough {
        for i in 0..44 {
            let n = rng.below(120);
            let body = rng.ascii_alnum(n);
            let f = [None, Some("ftr"), Some("{\"kid\":\"k-2\"}"), Some("\u{e9}")][i % 4];
            let a = [None, Some("ia"), Some("")][i % 3];
            if i % 2 == 0 {
                specs.push((json_msg(&body), f, a, true));
            } else {
                specs.push((body, f, a, false));
            }
        }
    }
    // work items: (protocol, spec index, layer)
    let mut items: Vec<(P, usize, Layer)> = Vec::new();
    for &p in &ALL {
        for si in 0..specs.len() {
            items.push((p, si, Layer::Core));
            if specs[si].3 {
                items.push((p, si, Layer::Generic));
                items.push((p, si, Layer::Batteries));
            }
        }
    }
    let extra_random = if thorough { 3000 } else { 300 };
    let r = parallel(items.len(), util::threads(), |i, r| {
        let (p, si, layer) = items[i];
        let (msg, f, a, _) = &specs[si];
        let mut rng = Rng::new(seed, "c03-item", (i as u64) << 8 | p as u64);
        let key = pools.key(p, si % pools.count(p));
        let other_msg = if specs[si].3 { format!("{{\"data\":\"other {}\",\"exp\":\"2999-01-01T00:00:00+00:00\",\"k\":1}}", si) } else { format!("other message {}", si) };
        let (b, o) = match (make_base(p, &key, msg, *f, *a, &mut rng), make_base(p, &key, &other_msg, *f, *a, &mut rng)) {
            (Some(b), Some(o)) => (b, o),
            _ => {
                r.inconclusive.push(format!("could not build an authentic base token for {} (see C01/C02)", p.name()));
                return;
            }
        };
        r.count(&format!("{}/{} base-tokens", p.name(), layer.name()));
        let ms = mutants(&b, &o, layer == Layer::Core, &mut rng, extra_random, thorough && layer == Layer::Core);
        for m in &ms {
            eval(&b, layer, m, r);
        }
        // a rejected alteration must STAY rejected: present a sample of the same mutants a second and a third time
        for round in 0..2 {
            for m in ms.iter().step_by(if layer == Layer::Core { 37 } else { 5 }) {
                let mut again = m.clone();
                again.op = format!("{}+re-presented", m.op);
                eval(&b, layer, &again, r);
            }
            let _ = round;
        }
    });
    total.merge(r);
    // LARGE tokens (beyond any size threshold that switches the MAC / hash to a windowed or chunked path): alterations in
    // the TAIL of the body - the last 300 bytes before the tag / signature, the tag / signature itself - and at 200 random
    // positions; plus the footer.  A windowed hash that drops its remainder authenticates everything but the tail.
    let big_sizes: Vec<usize> = if thorough { vec![4200, 5000, 8300, 9000, 16_500, 70_000] } else { vec![5000, 9000, 70_000] };
    let mut bitems: Vec<(P, usize, Layer)> = Vec::new();
    for &p in &ALL {
        if p == P::V3P && !thorough {
            continue; // 1.8 ms per verification
        }
        for &n in &big_sizes {
            bitems.push((p, n, Layer::Core));
            if n == 9000 {
                bitems.push((p, n, Layer::Generic));
            }
        }
    }
    let rb = parallel(bitems.len(), util::threads(), |i, r| {
        let (p, n, layer) = bitems[i];
        let mut rng = Rng::new(seed, "c03-big", (i as u64) << 8 | p as u64);
        let key = pools.key(p, i % pools.count(p));
        // JSON whose LAST member sits in the tail, so that a flipped tail still parses at the upper layers
        let msg = format!("{{\"pad\":\"{}\",\"exp\":\"2999-01-01T00:00:00+00:00\",\"role\":\"user\"}}", "p".repeat(n));
        let b = match make_base(p, &key, &msg, Some("ftr"), if p.has_assertion() { Some("ia") } else { None }, &mut rng) {
            Some(b) => b,
            None => {
                r.inconclusive.push(format!("could not build a large base token for {}", p.name()));
                return;
            }
        };
        let pt = match parts(p, &b.token) {
            Some(x) => x,
            None => return,
        };
        let len = pt.payload.len();
        let body_end = len - p.trailer_len();
        let mut positions: Vec<usize> = (body_end.saturating_sub(300)..len).collect();
        for _ in 0..200 {
            positions.push(rng.below(len));
        }
        for (k, &pos) in positions.iter().enumerate() {
            let mut pl = pt.payload.clone();
            pl[pos] ^= 1 << (k % 8);
            let m = Mutant { token: assemble(&pt.header, &pl, pt.footer_b64), op: "bitflip-in-large-token".into(), region: region_of(p, len, pos).into(), supply_footer: None };
            eval(&b, layer, &m, r);
        }
        r.count("large-token alterations evaluated");
    });
    total.merge(rb);
    total.require("large-token alterations evaluated", 15);
    for &p in &ALL {
        for l in LAYERS {
            total.require(&format!("{}/{} rejected-at-crypto", p.name(), l.name()), 200);
        }
    }
    total
}

pub fn replay(case: &Value) -> Report {
    let mut r = Report::new();
    match serde_json::from_value::<Case>(case.clone()) {
        Ok(c) => {
            // the base token must (still) be authentic for the verdict to mean anything
            match core_open(c.base.p, &c.base.key, &c.base.token, c.base.footer.as_deref(), c.base.ia.as_deref()).0 {
                Out::Ok(m) if m == c.base.msg => eval(&c.base, c.layer, &c.mutant, &mut r),
                other => r.inconclusive.push(format!("recorded base token no longer opens to its message: {}", other.brief())),
            }
        }
        Err(e) => r.inconclusive.push(format!("cannot decode replay case: {}", e)),
    }
    r
}

/// 900 bytes -> 1200 base64 characters: room for truncations by 256, 512, 768 and 1024 characters
const LONG_FOOTER: &str = "{\"kid\":\"0123456789abcdefghijklmnopqrstuvwxyzABCDEFGHIJKLMNOPQRSTUVWXYZ0123456789abcdefghijklmnopqrstuvwxyzABCDEFGHIJKLMNOPQRSTUVWXYZ0123456789abcdefghijklmnopqrstuvwxyzABCDEFGHIJKLMNOPQRSTUVWXYZ0123456789abcdefghijklmnopqrstuvwxyzABCDEFGHIJKLMNOPQRSTUVWXYZ0123456789abcdefghijklmnopqrstuvwxyzABCDEFGHIJKLMNOPQRSTUVWXYZ0123456789abcdefghijklmnopqrstuvwxyzABCDEFGHIJKLMNOPQRSTUVWXYZ0123456789abcdefghijklmnopqrstuvwxyzABCDEFGHIJKLMNOPQRSTUVWXYZ0123456789abcdefghijklmnopqrstuvwxyzABCDEFGHIJKLMNOPQRSTUVWXYZ0123456789abcdefghijklmnopqrstuvwxyzABCDEFGHIJKLMNOPQRSTUVWXYZ0123456789abcdefghijklmnopqrstuvwxyzABCDEFGHIJKLMNOPQRSTUVWXYZ0123456789abcdefghijklmnopqrstuvwxyzABCDEFGHIJKLMNOPQRSTUVWXYZ0123456789abcdefghijklmnopqrstuvwxyzABCDEFGHIJKLMNOPQRSTUVWXYZ0123456789abcdefghijklmnopqrstuvwxyzABCDEFGHIJKLMNOPQRSTUVWXYZ0123456789abcdefghijklmnopqrstuvwxyzABCDEFGHIJKLMNOPQRSTUVWXYZ0123456789abcdefghijklmnopqrstuvwxyzABCDEFGHIJKLMNOPQRSTUVWXYZ0123456789\"}";

pub const RULE: &str = "per protocol, authentic base tokens (6 quick / 50 thorough: empty, 1-byte, 20-byte, JSON messages; footer and assertion present/absent) are built with the real library and self-checked; mutants: ALL single-bit flips of the decoded payload, ALL single-character substitutions of the token text over the 64 alphabet characters plus '= + / . space é', every proper prefix, suffix extensions (short, and long ones of 4..65536 characters incl. exact multiples of 256 on the token and on a 1200-character footer segment, with matching long truncations), byte deletion/insertion at the nonce/ciphertext/tag and message/signature boundaries, every position of the payload/footer dot, splices of two authentic tokens, footer swaps (with original and with matching expectation), non-canonical base64 (trailing bits, padding, standard alphabet), the wrappings a token travels in ('Bearer ' prefix, quotes, URL-encoded dots, upper-cased header, trailing separators, NUL terminator), ECDSA s/r negation, Ed25519 S+L, seeded random multi-byte edits (thorough: double bit flips in the tag/signature), footer bytes replaced by invalid UTF-8 sequences (incl. every U+FFFD of a footer that contains it); a sample of the mutants is presented a second and a third time (a rejection must stay a rejection). Plus LARGE tokens (5 000, 9 000, 70 000-byte messages; thorough six sizes) with bit flips in the last 300 bytes of the body, in the tag / signature and at 200 random positions. Each mutant is presented to the core entry point (full sweep) and, for JSON bases, to GenericParser and PasetoParser::default() carrying a logging validator. Verdict per call: Ok with other content, Ok outside the two tolerated classes, a UTF-8/JSON/claim error, a validator log entry, a keystream hook event during a rejected call, or a panic is a violation. distinct_nontrivial = distinct (protocol, layer, operator, region) tuples whose mutant passed segment/header/base64 checks and was rejected by the cryptographic check";
