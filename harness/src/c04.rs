//! C04 (wrong key), C05 (footer), C06 (implicit assertion), C07 (version/purpose binding).
//! All four: build an authentic token with the real library, present it under a changed
//! key / footer / assertion / protocol, and compare acceptance with what the construction dictates.
use crate::gens::{self, Pools};
use crate::proto::*;
use crate::report::{parallel, Report};
use crate::rng::Rng;
use crate::util;
use serde::{Deserialize, Serialize};
use serde_json::{json, Value};

const JSON_MSG: &str = "{\"data\":\"bound\",\"exp\":\"2999-01-01T00:00:00+00:00\"}";

fn open_any(layer: Layer, p: P, key: &KeyMat, token: &str, footer: Option<&str>, ia: Option<&str>) -> Out<String> {
    open_at(layer, p, key, token, footer, ia).0
}

/// build at the given layer: core seals `msg` verbatim; the upper layers build a claim set equivalent to JSON_MSG
fn seal_at(layer: Layer, p: P, key: &KeyMat, rng: &mut Rng, msg: &str, footer: Option<&str>, ia: Option<&str>) -> Out<String> {
    match layer {
        Layer::Core => core_seal(p, key, &rng.bytes(32), msg, footer, ia).0,
        Layer::Generic => {
            // "{}" = a generic builder without any claim
            let ops = if msg == "{}" { vec![] } else { vec![ClaimOp::Set(Claim::Custom("data".into(), json!("bound"))), ClaimOp::Set(Claim::Exp("2999-01-01T00:00:00+00:00".into()))] };
            generic_seal(p, key, &ops, footer, ia).0
        }
        Layer::Batteries => {
            let mut ops = vec![BOp::Set(Claim::Custom("data".into(), json!("bound")))];
            if let Some(f) = footer {
                ops.push(BOp::Footer(f.to_string()));
            }
            if let (Some(a), true) = (ia, p.has_assertion()) {
                ops.push(BOp::Assertion(a.to_string()));
            }
            ops.push(BOp::Build);
            batteries_run(p, key, &ops).pop().unwrap_or(Out::Err("no build".into()))
        }
    }
}


// ==========================================================================================
// parser sessions (one parser object, several parses under changing key / footer / assertion)
// ==========================================================================================
#[derive(Clone, Debug, Serialize, Deserialize)]
pub struct SessionCase {
    pub prop: String,
    pub p: P,
    pub batteries: bool,
    pub default_parser: bool,
    pub keys: Vec<KeyMat>,
    pub footer: Option<String>,
    pub ia: Option<String>,
    pub steps: Vec<PStep>,
    /// expected acceptance of each Parse step, in order
    pub expect: Vec<bool>,
    pub what: Vec<String>,
    /// expected acceptance of the Parse steps of each PStep::Nested session among `steps`, in order
    #[serde(default)]
    pub nested_expect: Vec<Vec<bool>>,
    #[serde(default)]
    pub nested_what: Vec<Vec<String>>,
}

thread_local! {
    /// the (non-nested, short) session cases evaluated on this thread since the last recent_sessions_take(): they are
    /// recombined into nested pairs
    static RECENT: std::cell::RefCell<Vec<SessionCase>> = const { std::cell::RefCell::new(Vec::new()) };
}

pub fn recent_sessions_take() -> Vec<SessionCase> {
    RECENT.with(|s| std::mem::take(&mut *s.borrow_mut()))
}

fn session_cfg(c: &SessionCase) -> ParserCfg {
    ParserCfg { footer: c.footer.clone(), assertion: c.ia.clone(), default_parser: c.default_parser, ..Default::default() }
}

/// Two parser objects alive at once: session B (created, configured, used, dropped) runs in the middle of session A on the
/// same thread.  Both must answer exactly as they do alone - state that leaks between parser objects (a per-thread or
/// static cache of keys, footers, expectations, clock readings ...) shows up as a deviation in either.
pub fn nested_pairs(prop: &str, cases: &[SessionCase], n: usize, seed: u64, r: &mut Report) {
    if cases.len() < 2 {
        r.inconclusive.push(format!("{} nested sessions: fewer than two session cases to combine", prop));
        return;
    }
    let mut rng = Rng::new(seed, "nested-pairs", prop.len() as u64 + cases.len() as u64);
    for _ in 0..n {
        let a = &cases[rng.below(cases.len())];
        let b = &cases[rng.below(cases.len())];
        if a.steps.len() > 64 || b.steps.len() > 64 || !a.nested_expect.is_empty() || !b.nested_expect.is_empty() {
            continue;
        }
        let mut c = a.clone();
        c.prop = prop.to_string();
        // one or two insertions of B (the second one after A's last step: B then sees everything A did)
        let pos = 1 + rng.below(a.steps.len().max(1));
        let nested = PStep::Nested(Box::new(NestedSession { p: b.p, batteries: b.batteries, keys: b.keys.clone(), cfg: session_cfg(b), steps: b.steps.clone() }));
        c.steps.insert(pos.min(c.steps.len()), nested.clone());
        c.nested_expect.push(b.expect.clone());
        c.nested_what.push(b.what.clone());
        if rng.chance(1, 3) {
            c.steps.insert(0, nested);
            c.nested_expect.push(b.expect.clone());
            c.nested_what.push(b.what.clone());
        }
        let before = r.violations_total;
        session_eval(&c, r);
        if r.violations_total == before {
            r.count("nested parser pairs: both answer as alone");
            r.distinct(format!("nested|{}|{}|{}|{}", a.p.name(), a.batteries, b.p.name(), b.batteries));
        }
    }
}

pub fn session_eval(c: &SessionCase, r: &mut Report) {
    if c.nested_expect.is_empty() && c.steps.len() <= 64 {
        RECENT.with(|s| {
            let mut s = s.borrow_mut();
            if s.len() < 400 {
                s.push(c.clone());
            }
        });
    }
    let cfg = session_cfg(c);
    let _ = nested_outs_take();
    let outs = session(c.p, c.batteries, &c.keys, &cfg, &c.steps);
    let nested = nested_outs_take();
    let tag = format!("{}/{}", c.p.name(), if c.batteries { if c.default_parser { "batteries-default" } else { "batteries" } } else { "generic" });
    if outs.len() != c.expect.len() || nested.len() != c.nested_expect.len() {
        r.inconclusive.push(format!("{} session on {}: {} outcomes for {} parses, {} nested sessions for {} planned ({:?})", c.prop, tag, outs.len(), c.expect.len(), nested.len(), c.nested_expect.len(), outs.first().map(|o| o.brief())));
        return;
    }
    let with_nested = if c.nested_expect.is_empty() { "" } else { " [another parser object was created and used in between on the same thread]" };
    for (i, (o, want)) in outs.iter().zip(&c.expect).enumerate() {
        r.evaluations += 1;
        let replay = json!({"cmd": format!("{}-session", c.prop), "case": c});
        match (o, want) {
            (Out::Panic(loc), _) => r.violation(format!("{} panic {} session", c.prop, tag), format!("{} session parse #{} ({}): panic {}", tag, i + 1, c.what[i], loc), replay),
            (Out::Ok(_), false) => r.violation(
                format!("{} session-accepts-what-a-fresh-parser-rejects {}", c.prop, tag),
                format!("{}: ONE parser object, parse #{} ({}) was ACCEPTED{}; history: {:?}", tag, i + 1, c.what[i], with_nested, &c.what[..=i]),
                replay,
            ),
            (Out::Err(e), true) => r.violation(
                format!("{} session-rejects-what-a-fresh-parser-accepts {} err={}", c.prop, tag, e),
                format!("{}: ONE parser object, parse #{} ({}) was REJECTED with {}{}; history: {:?}", tag, i + 1, c.what[i], e, with_nested, &c.what[..=i]),
                replay,
            ),
            _ => {
                r.count(&format!("{} session parses as expected", tag));
                r.distinct(format!("{}|session|{}|{}", tag, i, want));
            }
        }
    }
    for (k, (outs_b, want_b)) in nested.iter().zip(&c.nested_expect).enumerate() {
        if outs_b.len() != want_b.len() {
            r.inconclusive.push(format!("{} nested session #{} inside {}: {} outcomes for {} parses ({:?})", c.prop, k + 1, tag, outs_b.len(), want_b.len(), outs_b.first().map(|o| o.brief())));
            continue;
        }
        for (i, (o, want)) in outs_b.iter().zip(want_b).enumerate() {
            r.evaluations += 1;
            if o.is_panic() || o.is_ok() != *want {
                let what = c.nested_what.get(k).and_then(|w| w.get(i)).cloned().unwrap_or_default();
                r.violation(
                    format!("{} parser-used-inside-another-parsers-lifetime-deviates outer={} {}", c.prop, tag, if *want { "rejects-valid" } else { "accepts-invalid" }),
                    format!("a second parser object created and used while a {} parser is alive on the same thread: its parse #{} ({}) gave {} - alone it answers the opposite", tag, i + 1, what, o.brief()),
                    json!({"cmd": format!("{}-session", c.prop), "case": c}),
                );
            } else {
                r.count("nested session parses as expected");
            }
        }
    }
    if r.samples.len() < 9 && c.p == P::V4L {
        r.sample(json!({"parser": tag, "one_parser_history": c.what, "expected_acceptance": c.expect, "observed": outs.iter().map(|o| o.class()).collect::<Vec<_>>()}));
    }
}

pub fn replay_session(case: &Value) -> Report {
    let mut r = Report::new();
    match serde_json::from_value::<SessionCase>(case.clone()) {
        Ok(c) => session_eval(&c, &mut r),
        Err(e) => r.inconclusive.push(format!("cannot decode session case: {}", e)),
    }
    r
}

fn json_token(p: P, key: &KeyMat, n: usize, footer: Option<&str>, ia: Option<&str>) -> Option<String> {
    let ops = vec![ClaimOp::Set(Claim::Custom("data".into(), json!(format!("session token {}", n)))), ClaimOp::Set(Claim::Exp("2999-01-01T00:00:00+00:00".into()))];
    generic_seal(p, key, &ops, footer, if p.has_assertion() { ia } else { None }).0.ok().cloned()
}

/// C04 sessions: the same parser is handed the same token under the right and under another key, in turn
pub fn c04_sessions(pools: &Pools, r: &mut Report) {
    for &p in &ALL {
        if pools.count(p) < 2 {
            r.inconclusive.push(format!("C04 sessions need two keys for {}", p.name()));
            continue;
        }
        let keys = vec![pools.key(p, 0), pools.key(p, 1)];
        for (batteries, dp) in [(false, false), (true, false), (true, true)] {
            let (t0, t1) = match (json_token(p, &keys[0], 0, Some("ftr"), Some("ia")), json_token(p, &keys[1], 1, Some("ftr"), Some("ia"))) {
                (Some(a), Some(b)) => (a, b),
                _ => {
                    r.inconclusive.push(format!("C04 sessions: cannot build tokens for {}", p.name()));
                    continue;
                }
            };
            let plan: Vec<(&String, usize, bool, &str)> = vec![
                (&t0, 0, true, "token0 under its own key0"),
                (&t0, 1, false, "the SAME token0 under key1"),
                (&t0, 0, true, "token0 under key0 again"),
                (&t1, 0, false, "token1 under key0"),
                (&t1, 1, true, "token1 under its own key1"),
                (&t0, 1, false, "token0 under key1 again"),
                (&t1, 0, false, "token1 under key0 again"),
            ];
            let c = SessionCase {
                prop: "C04".into(),
                p,
                batteries,
                default_parser: dp,
                keys: keys.clone(),
                footer: Some("ftr".into()),
                ia: if p.has_assertion() { Some("ia".into()) } else { None },
                steps: plan.iter().map(|(t, k, _, _)| PStep::Parse { token: (*t).clone(), key: *k }).collect(),
                expect: plan.iter().map(|x| x.2).collect(),
                what: plan.iter().map(|x| x.3.to_string()).collect(),
                nested_expect: vec![],
                nested_what: vec![],
            };
            session_eval(&c, r);
        }
    }
}

/// LONG sessions: one parser object parses thousands of tokens (right key / wrong key / forged / other footer in a seeded
/// order): behaviour must not drift with the number of calls made before
pub fn c04_long_sessions(pools: &Pools, seed: u64, thorough: bool, r: &mut Report) {
    let protos: Vec<P> = if thorough { ALL.to_vec() } else { vec![P::V4L, P::V2L, P::V4P, P::V3L, P::V1L] };
    for &p in &protos {
        if pools.count(p) < 2 {
            continue;
        }
        let keys = vec![pools.key(p, 0), pools.key(p, 1)];
        let mut rng = Rng::new(seed, "c04-long", p as u64);
        // 6 tokens on the slow signers, 300 elsewhere: more distinct tokens than any small cache holds
        let ntok = if matches!(p, P::V1P | P::V3P) { 6 } else { 300 };
        let toks: Vec<(String, usize)> = (0..ntok).filter_map(|i| json_token(p, &keys[i % 2], i, Some("ftr"), Some("ia")).map(|t| (t, i % 2))).collect();
        if toks.len() != ntok {
            r.inconclusive.push(format!("C04 long session: cannot build tokens for {}", p.name()));
            continue;
        }
        // thorough: beyond any 16-bit call counter on the fast protocols
        let n = if thorough { if matches!(p, P::V4L | P::V2L | P::V4P | P::V2P) { 70_000 } else { 20_000 } } else if p == P::V3L || p == P::V1L { 1200 } else { 3000 };
        for (batteries, dp) in [(false, false), (true, true)] {
            let mut steps = Vec::with_capacity(n);
            let mut expect = Vec::with_capacity(n);
            let mut what = Vec::with_capacity(n);
            for _ in 0..n {
                let (t, owner) = &toks[rng.below(toks.len())];
                match rng.below(4) {
                    0 | 1 => {
                        steps.push(PStep::Parse { token: t.clone(), key: *owner });
                        expect.push(true);
                        what.push("own key".to_string());
                    }
                    2 => {
                        steps.push(PStep::Parse { token: t.clone(), key: 1 - *owner });
                        expect.push(false);
                        what.push("other key".to_string());
                    }
                    _ => {
                        let mut f: Vec<char> = t.chars().collect();
                        let pos = t.rfind('.').unwrap_or(t.len()) - 3;
                        f[pos] = if f[pos] == 'A' { 'B' } else { 'A' };
                        steps.push(PStep::Parse { token: f.into_iter().collect(), key: *owner });
                        expect.push(false);
                        what.push("one character changed".to_string());
                    }
                }
            }
            let c = SessionCase { prop: "C04".into(), p, batteries, default_parser: dp, keys: keys.clone(), footer: Some("ftr".into()), ia: if p.has_assertion() { Some("ia".into()) } else { None }, steps, expect, what, nested_expect: vec![], nested_what: vec![] };
            // evaluate without the per-step bookkeeping of session_eval (thousands of steps): count, and report the first deviation
            let cfg = ParserCfg { footer: c.footer.clone(), assertion: c.ia.clone(), default_parser: dp, ..Default::default() };
            let outs = session(p, batteries, &c.keys, &cfg, &c.steps);
            let tag = format!("{}/{}", p.name(), if batteries { "batteries-default" } else { "generic" });
            r.evaluations += outs.len() as u64;
            if outs.len() != c.expect.len() {
                r.inconclusive.push(format!("C04 long session on {}: {} outcomes for {} parses", tag, outs.len(), c.expect.len()));
                continue;
            }
            let mut dev = None;
            for (i, (o, want)) in outs.iter().zip(&c.expect).enumerate() {
                if o.is_ok() != *want || o.is_panic() {
                    dev = Some((i, o.brief(), c.what[i].clone()));
                    break;
                }
            }
            match dev {
                Some((i, got, what)) => r.violation(
                    format!("C04 long-session-deviates {} {}", tag, if c.expect[i] { "rejects-valid" } else { "accepts-invalid" }),
                    format!("{}: ONE parser object, parse #{} of {} ({}) gave {} — a fresh parser answers the opposite", tag, i + 1, n, what, got),
                    json!({"cmd": "C04", "note": "long-session case: re-run the check", "protocol": p.name(), "parse_no": i + 1}),
                ),
                None => {
                    r.count(&format!("{} long session: all parses as a fresh parser would answer", tag));
                    r.distinct(format!("{}|long-session|{}", tag, n));
                }
            }
        }
    }
}

/// C05 sessions: one parser, the expected footer is changed between parses
pub fn c05_sessions(pools: &Pools, r: &mut Report) {
    for &p in &ALL {
        let key = pools.key(p, 0);
        for (batteries, dp) in [(false, false), (true, false), (true, true)] {
            let (tf, tg, tn) = match (json_token(p, &key, 0, Some("footer-F"), None), json_token(p, &key, 1, Some("footer-G"), None), json_token(p, &key, 2, None, None)) {
                (Some(a), Some(b), Some(c)) => (a, b, c),
                _ => {
                    r.inconclusive.push(format!("C05 sessions: cannot build tokens for {}", p.name()));
                    continue;
                }
            };
            let mut steps = Vec::new();
            let mut expect = Vec::new();
            let mut what = Vec::new();
            let mut step = |s: PStep, e: Option<bool>, w: &str| {
                if let Some(e) = e {
                    expect.push(e);
                    what.push(w.to_string());
                }
                steps.push(s);
            };
            step(PStep::SetFooter("footer-F".into()), None, "");
            step(PStep::Parse { token: tf.clone(), key: 0 }, Some(true), "expect F, token with F");
            step(PStep::SetFooter("footer-G".into()), None, "");
            step(PStep::Parse { token: tf.clone(), key: 0 }, Some(false), "expectation changed to G, the SAME token with F");
            step(PStep::Parse { token: tg.clone(), key: 0 }, Some(true), "expect G, token with G");
            step(PStep::SetFooter("footer-F".into()), None, "");
            step(PStep::Parse { token: tg.clone(), key: 0 }, Some(false), "expectation changed back to F, token with G");
            step(PStep::Parse { token: tf.clone(), key: 0 }, Some(true), "expect F, token with F again");
            step(PStep::Parse { token: tn.clone(), key: 0 }, Some(false), "expect F, footer-less token");
            step(PStep::SetFooter("".into()), None, "");
            step(PStep::Parse { token: tn.clone(), key: 0 }, Some(true), "expectation cleared, footer-less token");
            step(PStep::Parse { token: tf.clone(), key: 0 }, Some(false), "expectation cleared, token with F");
            let c = SessionCase { prop: "C05".into(), p, batteries, default_parser: dp, keys: vec![key.clone()], footer: None, ia: None, steps, expect, what, nested_expect: vec![], nested_what: vec![] };
            session_eval(&c, r);
        }
    }
}

/// C06 sessions: one parser, the implicit assertion is changed between parses
pub fn c06_sessions(pools: &Pools, r: &mut Report) {
    for &p in &[P::V3L, P::V4L, P::V3P, P::V4P] {
        let key = pools.key(p, 0);
        for (batteries, dp) in [(false, false), (true, false), (true, true)] {
            for footer in [None, Some("ftr")] {
                let (ta, tb, tn) = match (json_token(p, &key, 0, footer, Some("assertion-A")), json_token(p, &key, 1, footer, Some("assertion-B")), json_token(p, &key, 2, footer, None)) {
                    (Some(a), Some(b), Some(c)) => (a, b, c),
                    _ => {
                        r.inconclusive.push(format!("C06 sessions: cannot build tokens for {}", p.name()));
                        continue;
                    }
                };
                let mut steps = Vec::new();
                let mut expect = Vec::new();
                let mut what = Vec::new();
                let mut step = |s: PStep, e: Option<bool>, w: &str| {
                    if let Some(e) = e {
                        expect.push(e);
                        what.push(w.to_string());
                    }
                    steps.push(s);
                };
                step(PStep::SetAssertion("assertion-A".into()), None, "");
                step(PStep::Parse { token: ta.clone(), key: 0 }, Some(true), "assert A, token built with A");
                step(PStep::SetAssertion("assertion-B".into()), None, "");
                step(PStep::Parse { token: ta.clone(), key: 0 }, Some(false), "assertion changed to B, the SAME token built with A");
                step(PStep::Parse { token: tb.clone(), key: 0 }, Some(true), "assert B, token built with B");
                step(PStep::SetAssertion("assertion-".into()), None, "");
                step(PStep::Parse { token: ta.clone(), key: 0 }, Some(false), "assertion changed to a prefix of A, token built with A");
                step(PStep::SetAssertion("".into()), None, "");
                step(PStep::Parse { token: ta.clone(), key: 0 }, Some(false), "assertion cleared, token built with A");
                step(PStep::Parse { token: tn.clone(), key: 0 }, Some(true), "assertion cleared, token built without");
                step(PStep::SetAssertion("assertion-A".into()), None, "");
                step(PStep::Parse { token: tn.clone(), key: 0 }, Some(false), "assert A, token built without");
                step(PStep::Parse { token: ta.clone(), key: 0 }, Some(true), "assert A, token built with A again");
                let c = SessionCase { prop: "C06".into(), p, batteries, default_parser: dp, keys: vec![key.clone()], footer: footer.map(|s| s.to_string()), ia: None, steps, expect, what, nested_expect: vec![], nested_what: vec![] };
                session_eval(&c, r);
            }
        }
    }
}

/// ONE builder whose footer is changed between builds: F, then the empty footer, then G — each token must carry exactly the footer in force
pub fn builder_footer_changes(pools: &Pools, r: &mut Report) {
    for &p in &ALL {
        let key = pools.key(p, 0);
        let plan: [(&str, Option<&str>); 4] = [("first-footer", Some("first-footer")), ("", None), ("second-footer", Some("second-footer")), (" ", Some(" "))];
        for layer in [Layer::Generic, Layer::Batteries] {
            let toks: Vec<Out<String>> = if layer == Layer::Generic {
                let mut ops = vec![GOp::Set(Claim::Custom("data".into(), json!("footer changes")))];
                for (f, _) in plan {
                    ops.push(GOp::Footer(f.to_string()));
                    ops.push(GOp::Build);
                }
                generic_run(p, &key, &ops)
            } else {
                let mut ops = vec![BOp::Set(Claim::Custom("data".into(), json!("footer changes")))];
                for (f, _) in plan {
                    ops.push(BOp::Footer(f.to_string()));
                    ops.push(BOp::Build);
                }
                batteries_run(p, &key, &ops)
            };
            for (n, (t, (set, want))) in toks.iter().zip(plan).enumerate() {
                r.evaluations += 1;
                let tag = format!("{}/{}", p.name(), layer.name());
                let replay = json!({"cmd": "C05-reuse", "note": "builder footer-change case: re-run the check", "p": p.name(), "layer": layer.name(), "build_no": n + 1});
                let tok = match t {
                    Out::Ok(t) => t,
                    o => {
                        r.violation(format!("C05 builder-footer-change build-failed {}", tag), format!("{}: build #{} failed: {}", tag, n + 1, o.brief()), replay);
                        continue;
                    }
                };
                let segs: Vec<&str> = tok.split('.').collect();
                let seg_ok = match want {
                    Some(f) => segs.len() == 4 && segs[3] == util::b64(f.as_bytes()),
                    None => segs.len() == 3 || (segs.len() == 4 && segs[3].is_empty()),
                };
                let opens = open_any(layer, p, &key, tok, want, None).is_ok();
                if !seg_ok || !opens {
                    r.violation(
                        format!("C05 builder-footer-change {} build={}", tag, n + 1),
                        format!("{}: ONE builder, set_footer({:?}) then build #{}: footer segment exact = {}, opens with that footer = {}; token tail {:?}", tag, set, n + 1, seg_ok, opens, util::clip(&tok[tok.len().saturating_sub(40)..], 40)),
                        replay,
                    );
                } else {
                    r.count(&format!("{} builder footer changed: token #{} carries the footer in force", tag, n + 1));
                    r.distinct(format!("{}|footer-change|{}", tag, n));
                }
            }
        }
    }
}

/// ONE builder object asked to build under key K1, then K2, then K1 again: every token belongs to the key it was built
/// with - it opens under that key and under no other (a builder that keeps key material from its first use signs or
/// encrypts the later tokens with the wrong key)
pub fn builder_key_changes(pools: &Pools, r: &mut Report) {
    for &p in &ALL {
        if pools.count(p) < 2 {
            r.inconclusive.push(format!("C04 builder key changes need two keys for {}", p.name()));
            continue;
        }
        // key #2 is unusable private-key material (public protocols): a build under it fails (or not - no verdict), and
        // whatever that call left behind must not affect the builds that follow
        let mut bad = pools.key(p, 0);
        for b in bad.sk.iter_mut() {
            *b = 0xff;
        }
        let keys = [pools.key(p, 0), pools.key(p, 1), bad];
        let order: Vec<usize> = if p.is_local() { vec![0, 1, 0, 1, 1] } else { vec![0, 1, 2, 0, 2, 1, 1] };
        for layer in [Layer::Generic, Layer::Batteries] {
            let toks: Vec<Out<String>> = if layer == Layer::Generic {
                let mut ops = vec![GOp::Set(Claim::Custom("data".into(), json!("key changes"))), GOp::Set(Claim::Exp("2999-01-01T00:00:00+00:00".into()))];
                for &k in &order {
                    ops.push(GOp::UseKey(Box::new(keys[k].clone())));
                    ops.push(GOp::Build);
                }
                generic_run(p, &keys[0], &ops)
            } else {
                let mut ops = vec![BOp::Set(Claim::Custom("data".into(), json!("key changes")))];
                for &k in &order {
                    ops.push(BOp::UseKey(Box::new(keys[k].clone())));
                    ops.push(BOp::Build);
                }
                batteries_run(p, &keys[0], &ops)
            };
            for (n, (t, k)) in toks.iter().zip(order.iter().copied()).enumerate() {
                if k == 2 {
                    r.see("builds under unusable private-key material (no verdict)", &format!("{} {}", p.name(), t.class()));
                    if t.is_panic() {
                        r.violation(format!("C04 panic {}/{} unusable-key", p.name(), layer.name()), format!("{}/{}: building under unusable key material panicked: {}", p.name(), layer.name(), t.brief()), json!({"cmd": "C04-reuse", "note": "builder key-change case: re-run the check", "p": p.name()}));
                    }
                    continue;
                }
                r.evaluations += 2;
                let tag = format!("{}/{}", p.name(), layer.name());
                let replay = json!({"cmd": "C04-reuse", "note": "builder key-change case: re-run the check", "p": p.name(), "layer": layer.name(), "build_no": n + 1});
                let tok = match t {
                    Out::Ok(t) => t,
                    o => {
                        r.violation(format!("C04 builder-key-change build-failed {}", tag), format!("{}: build #{} failed: {}", tag, n + 1, o.brief()), replay);
                        continue;
                    }
                };
                let own = open_any(layer, p, &keys[k], tok, None, None).is_ok();
                let other = open_any(layer, p, &keys[1 - k], tok, None, None).is_ok();
                if !own || other {
                    r.violation(
                        format!("C04 builder-key-change {} build={}", tag, n + 1),
                        format!("{}: ONE builder, build #{} was given key{}: the token opens under that key = {}, under the OTHER key = {} (keys used so far: {:?})", tag, n + 1, k, own, other, &order[..=n]),
                        replay,
                    );
                } else {
                    r.count(&format!("{} builder key changed: token #{} belongs to the key it was built with", tag, n + 1));
                    r.distinct(format!("{}|key-change|{}", tag, n));
                }
            }
        }
    }
}

/// ONE builder whose implicit assertion is changed between builds (incl. back to the empty one): every token must be
/// bound to the assertion in force at its build, and to no other
pub fn builder_assertion_changes(pools: &Pools, r: &mut Report) {
    for &p in &[P::V3L, P::V4L, P::V3P, P::V4P] {
        let key = pools.key(p, 0);
        let plan: [&str; 5] = ["first-assertion", "", "second-assertion", " ", ""];
        for layer in [Layer::Generic, Layer::Batteries] {
            let toks: Vec<Out<String>> = if layer == Layer::Generic {
                let mut ops = vec![GOp::Set(Claim::Custom("data".into(), json!("assertion changes"))), GOp::Set(Claim::Exp("2999-01-01T00:00:00+00:00".into()))];
                for a in plan {
                    ops.push(GOp::Assertion(a.to_string()));
                    ops.push(GOp::Build);
                }
                generic_run(p, &key, &ops)
            } else {
                let mut ops = vec![BOp::Set(Claim::Custom("data".into(), json!("assertion changes")))];
                for a in plan {
                    ops.push(BOp::Assertion(a.to_string()));
                    ops.push(BOp::Build);
                }
                batteries_run(p, &key, &ops)
            };
            for (n, (t, a)) in toks.iter().zip(plan).enumerate() {
                r.evaluations += 1;
                let tag = format!("{}/{}", p.name(), layer.name());
                let replay = json!({"cmd": "C06-reuse", "note": "builder assertion-change case: re-run the check", "p": p.name(), "layer": layer.name(), "build_no": n + 1});
                let tok = match t {
                    Out::Ok(t) => t,
                    o => {
                        r.violation(format!("C06 builder-assertion-change build-failed {}", tag), format!("{}: build #{} failed: {}", tag, n + 1, o.brief()), replay);
                        continue;
                    }
                };
                let want = if a.is_empty() { None } else { Some(a) };
                let opens = open_any(layer, p, &key, tok, None, want).is_ok();
                let others: Vec<&str> = plan.iter().copied().filter(|x| *x != a).filter(|x| open_any(layer, p, &key, tok, None, if x.is_empty() { None } else { Some(x) }).is_ok()).collect();
                if !opens || !others.is_empty() {
                    r.violation(
                        format!("C06 builder-assertion-change {} build={}", tag, n + 1),
                        format!("{}: ONE builder, set_implicit_assertion({:?}) then build #{}: opens with that assertion = {}, also opens with {:?}", tag, a, n + 1, opens, others),
                        replay,
                    );
                } else {
                    r.count(&format!("{} builder assertion changed: token #{} is bound to the assertion in force", tag, n + 1));
                    r.distinct(format!("{}|assertion-change|{}", tag, n));
                }
            }
        }
    }
}

/// builders used more than once: every token must carry the footer / be bound to the assertion that was set
pub fn builder_reuse(prop: &str, pools: &Pools, r: &mut Report) {
    let protos: Vec<P> = if prop == "C06" { vec![P::V3L, P::V4L, P::V3P, P::V4P] } else { ALL.to_vec() };
    for &p in &protos {
        let key = pools.key(p, 0);
        let footer = "reused-footer";
        let ia = if p.has_assertion() { Some("reused-assertion") } else { None };
        let claims = vec![ClaimOp::Set(Claim::Custom("data".into(), json!("reuse")))];
        for layer in [Layer::Core, Layer::Generic, Layer::Batteries] {
            let toks: Vec<Out<String>> = if layer == Layer::Core {
                // ONE core builder, configured once, sealed from three times
                let mut rng = Rng::new(7, "reuse-nonces", p as u64);
                let nonces: Vec<Vec<u8>> = (0..3).map(|_| rng.bytes(32)).collect();
                core_seal_many(p, &key, &nonces, JSON_MSG, Some(footer), ia, false)
            } else if layer == Layer::Generic {
                generic_seal_many(p, &key, &claims, Some(footer), ia, 3, true)
            } else {
                let mut ops = vec![BOp::Set(Claim::Custom("data".into(), json!("reuse"))), BOp::Footer(footer.into())];
                if let Some(a) = ia {
                    ops.push(BOp::Assertion(a.into()));
                }
                ops.extend([BOp::Build, BOp::Build, BOp::Build]);
                batteries_run(p, &key, &ops)
            };
            for (n, t) in toks.iter().enumerate() {
                r.evaluations += 1;
                let tag = format!("{}/{}", p.name(), layer.name());
                let replay = json!({"cmd": format!("{}-reuse", prop), "note": "builder-reuse case: re-run the check", "p": p.name(), "layer": layer.name(), "build_no": n + 1});
                let tok = match t {
                    Out::Ok(t) => t,
                    o => {
                        r.violation(format!("{} builder-reuse build-failed {}", prop, tag), format!("{}: build #{} from one builder failed: {}", tag, n + 1, o.brief()), replay);
                        continue;
                    }
                };
                let segs: Vec<&str> = tok.split('.').collect();
                let seg_ok = segs.len() == 4 && segs[3] == util::b64(footer.as_bytes());
                let opens = open_any(layer, p, &key, tok, Some(footer), ia).is_ok();
                let opens_without_footer = open_any(layer, p, &key, tok, None, ia).is_ok();
                let opens_without_ia = ia.is_some() && open_any(layer, p, &key, tok, Some(footer), None).is_ok();
                if prop == "C05" && (!seg_ok || !opens || opens_without_footer) {
                    r.violation(
                        format!("C05 builder-reuse footer-lost {} build={}", tag, if n == 0 { "first" } else { "later" }),
                        format!("{}: build #{} from ONE builder that was given footer {:?}: footer segment exact = {}, opens with the footer = {}, opens without = {}", tag, n + 1, footer, seg_ok, opens, opens_without_footer),
                        replay,
                    );
                } else if prop == "C06" && (!opens || opens_without_ia) {
                    r.violation(
                        format!("C06 builder-reuse assertion-lost {} build={}", tag, if n == 0 { "first" } else { "later" }),
                        format!("{}: build #{} from ONE builder that was given assertion {:?}: opens with it = {}, opens without it = {}", tag, n + 1, ia, opens, opens_without_ia),
                        replay,
                    );
                } else {
                    r.count(&format!("{} builder reused: token #{} bound as configured", tag, n + 1));
                    r.distinct(format!("{}|reuse|{}", tag, n));
                }
            }
        }
        // ONE batteries-included builder on which a build is REFUSED (a repeated top-level claim) and which is then used
        // again: whatever it still produces must be bound to the footer and assertion it was given (a builder that tidies
        // itself up after an error must not forget them); and a GenericBuilder WITHOUT any claim, built from twice
        let mut ops = vec![BOp::Footer(footer.into())];
        if let Some(a) = ia {
            ops.push(BOp::Assertion(a.into()));
        }
        ops.extend([BOp::Set(Claim::Custom("data".into(), json!(1))), BOp::Set(Claim::Custom("data".into(), json!(2))), BOp::Build, BOp::Build, BOp::Set(Claim::Custom("other".into(), json!(3))), BOp::Build]);
        let after_refusal: Vec<(Layer, Out<String>)> = batteries_run(p, &key, &ops).into_iter().map(|o| (Layer::Batteries, o)).collect();
        let no_claims: Vec<(Layer, Out<String>)> = generic_seal_many(p, &key, &[], Some(footer), ia, 2, true).into_iter().map(|o| (Layer::Generic, o)).collect();
        for (class, outs) in [("after a refused build", after_refusal), ("generic builder without claims", no_claims)] {
            for (n, (layer, t)) in outs.iter().enumerate() {
                r.evaluations += 1;
                let tag = format!("{}/{}", p.name(), layer.name());
                let replay = json!({"cmd": format!("{}-reuse", prop), "note": "builder-reuse case: re-run the check", "p": p.name(), "layer": layer.name(), "class": class, "build_no": n + 1});
                let tok = match t {
                    Out::Ok(t) => t,
                    Out::Panic(loc) => {
                        r.violation(format!("{} builder-reuse panic {}", prop, tag), format!("{} ({}): build #{} panicked: {}", tag, class, n + 1, loc), replay);
                        continue;
                    }
                    Out::Err(_) => {
                        if *layer == Layer::Generic {
                            r.violation(format!("{} builder-reuse build-failed {}", prop, tag), format!("{} ({}): build #{} failed: {}", tag, class, n + 1, t.brief()), replay);
                        } else {
                            r.count(&format!("{}: build refused", class));
                        }
                        continue;
                    }
                };
                let opens = open_any(*layer, p, &key, tok, Some(footer), ia).is_ok();
                let opens_without_footer = open_any(*layer, p, &key, tok, None, ia).is_ok();
                let opens_without_ia = ia.is_some() && open_any(*layer, p, &key, tok, Some(footer), None).is_ok();
                if prop == "C05" && (!opens || opens_without_footer) {
                    r.violation(format!("C05 builder-reuse footer-lost {} class={}", tag, class), format!("{} ({}): build #{} from ONE builder that was given footer {:?}: opens with the footer = {}, opens without = {}", tag, class, n + 1, footer, opens, opens_without_footer), replay);
                } else if prop == "C06" && (!opens || opens_without_ia) {
                    r.violation(format!("C06 builder-reuse assertion-lost {} class={}", tag, class), format!("{} ({}): build #{} from ONE builder that was given assertion {:?}: opens with it = {}, opens without it = {}", tag, class, n + 1, ia, opens, opens_without_ia), replay);
                } else {
                    r.count(&format!("{}: token bound as configured", class));
                }
            }
        }
    }
}

// ==========================================================================================
// C04
// ==========================================================================================
#[derive(Clone, Debug, Serialize, Deserialize)]
pub struct C04Case {
    pub p: P,
    pub layer: Layer,
    pub key: KeyMat,
    pub key2: KeyMat,
    pub token: String,
    pub footer: Option<String>,
    pub ia: Option<String>,
    pub class: String,
}

fn key_bytes(p: P, k: &KeyMat) -> Vec<u8> {
    if p.is_local() {
        k.sym.to_vec()
    } else {
        k.pk.clone()
    }
}
fn with_key_bytes(p: P, k: &KeyMat, b: Vec<u8>) -> KeyMat {
    let mut k2 = k.clone();
    if p.is_local() {
        k2.sym.copy_from_slice(&b);
    } else {
        k2.pk = b;
    }
    k2
}

fn pae(pieces: &[&[u8]]) -> Vec<u8> {
    let mut v = (pieces.len() as u64).to_le_bytes().to_vec();
    for x in pieces {
        v.extend_from_slice(&(x.len() as u64).to_le_bytes());
        v.extend_from_slice(x);
    }
    v
}

/// ECDSA has "duplicate signature" keys: for a signature (r, s) over a digest e there are (up to) four public keys
/// Q = r^-1 (sR - eG) under which it verifies — the signer's and others unrelated to it.  PASETO v3.public rules them out
/// by signing the public key itself.  This computes those keys from the token's OWN signature, over the digest the
/// specification prescribes and over the digests a binding-free variant would use; every one of them that is not the
/// producing key must be refused (C04).  Such a key is one specific 49-byte value per token: no random key finds it.
fn v3p_recovered_keys(token: &str, footer: Option<&str>, ia: Option<&str>, pk: &[u8]) -> Vec<(Vec<u8>, String)> {
    use ecdsa::RecoveryId;
    use p384::ecdsa::{Signature, VerifyingKey};
    use sha2::{Digest, Sha384};
    let mut out = Vec::new();
    let parts = match crate::c03::parts(P::V3P, token) {
        Some(x) if x.payload.len() >= 96 => x,
        _ => return out,
    };
    let (m, sig) = parts.payload.split_at(parts.payload.len() - 96);
    let sig = match Signature::from_slice(sig) {
        Ok(s) => s,
        Err(_) => return out,
    };
    let h: &[u8] = b"v3.public.";
    let f = footer.unwrap_or("").as_bytes();
    let i = ia.unwrap_or("").as_bytes();
    let variants: Vec<(&str, Vec<u8>)> = vec![
        ("spec-digest", pae(&[pk, h, m, f, i])),
        ("digest-without-pk", pae(&[h, m, f, i])),
        ("digest-without-pk-and-assertion", pae(&[h, m, f])),
        ("digest-header+message", pae(&[h, m])),
        ("digest-pk-last", pae(&[h, m, f, i, pk])),
        ("digest-raw-message", m.to_vec()),
    ];
    for (name, pre) in variants {
        let d = Sha384::digest(&pre);
        for rid in 0u8..4 {
            if let Some(id) = RecoveryId::from_byte(rid) {
                if let Ok(vk) = VerifyingKey::recover_from_prehash(&d, &sig, id) {
                    out.push((vk.to_encoded_point(true).as_bytes().to_vec(), format!("ecdsa-key-recovered-from-signature({})", name)));
                }
            }
        }
    }
    out
}

fn c04_eval(c: &C04Case, r: &mut Report) {
    r.evaluations += 1;
    let tag = format!("{}/{}", c.p.name(), c.layer.name());
    let out = open_any(c.layer, c.p, &c.key2, &c.token, c.footer.as_deref(), c.ia.as_deref());
    match &out {
        Out::Ok(x) => r.violation(
            format!("C04 accepted-under-other-key {} class={}", tag, c.class),
            format!("{}: token produced under key {} was ACCEPTED under a different key {} (class {}), returning {:?}", tag, util::hex(&key_bytes(c.p, &c.key)), util::hex(&key_bytes(c.p, &c.key2)), c.class, util::clip(x, 60)),
            json!({"cmd": "C04", "case": c}),
        ),
        Out::Panic(loc) => r.violation(format!("C04 panic {} class={}", tag, c.class), format!("{}: panic under a different key: {}", tag, loc), json!({"cmd": "C04", "case": c})),
        Out::Err(e) => {
            r.count(&format!("{} rejected", tag));
            r.see(&format!("rejection-variants {}", tag), e);
            r.distinct(format!("{}|{}|{}", tag, c.class, e));
            if is_plaintext_error(e) {
                r.violation(format!("C04 plaintext-error-under-other-key {} err={}", tag, e), format!("{}: wrong key produced {} — plaintext was handled without authentication", tag, e), json!({"cmd": "C04", "case": c}));
            }
            // a rejection must stay a rejection: the same wrong key is presented again at once (every key that was refused
            // before the cryptographic check - unusable key material - and every third other one; the signer's own key was
            // used on this thread just before, so whatever a failed call left behind is what the second call finds)
            let key_trouble = e.contains("InvalidKey") || e.contains("KeyRejected") || e.contains("KeyCtor") || e.contains("Key");
            if key_trouble || r.evaluations % 3 == 0 {
                r.evaluations += 1;
                // ... with the signer's own key used in between (right, wrong, wrong): the state a verifier keeps from its last
                // good call is then the signer's, which is the state worth stealing
                if !open_any(c.layer, c.p, &c.key, &c.token, c.footer.as_deref(), c.ia.as_deref()).is_ok() {
                    r.count(&format!("{} base token not opened under its own key in a right-wrong-wrong sequence (C01/C02's domain)", tag));
                }
                let _ = open_any(c.layer, c.p, &c.key2, &c.token, c.footer.as_deref(), c.ia.as_deref());
                match open_any(c.layer, c.p, &c.key2, &c.token, c.footer.as_deref(), c.ia.as_deref()) {
                    Out::Ok(x) => r.violation(
                        format!("C04 accepted-under-other-key-on-second-presentation {} class={}", tag, c.class),
                        format!("{}: token produced under key {} was refused ({}) under a different key {} (class {}) and ACCEPTED when the same key was presented again, returning {:?}", tag, util::hex(&key_bytes(c.p, &c.key)), e, util::hex(&key_bytes(c.p, &c.key2)), c.class, util::clip(&x, 60)),
                        json!({"cmd": "C04", "case": c}),
                    ),
                    Out::Panic(loc) => r.violation(format!("C04 panic {} class={}", tag, c.class), format!("{}: panic under a different key (second presentation): {}", tag, loc), json!({"cmd": "C04", "case": c})),
                    Out::Err(_) => r.count(&format!("{} rejected again on a second presentation{}", tag, if key_trouble { " (unusable key material)" } else { "" })),
                }
            }
        }
    }
    if r.samples.len() < 8 && r.evaluations % 499 == 3 {
        r.sample(json!({"entry": tag, "class": c.class, "key": util::clip(&util::hex(&key_bytes(c.p, &c.key)), 64), "other_key": util::clip(&util::hex(&key_bytes(c.p, &c.key2)), 64), "outcome": out.brief()}));
    }
}

/// child side of the first-call workload: decode the case, perform the one open, report
pub fn first_call(arg: &str) -> String {
    match serde_json::from_str::<C04Case>(arg) {
        Ok(c) => {
            let out = open_any(c.layer, c.p, &c.key2, &c.token, c.footer.as_deref(), c.ia.as_deref());
            json!({"class": out.class(), "brief": util::clip(&out.brief(), 200)}).to_string()
        }
        Err(e) => json!({"class": "harness-error", "brief": format!("cannot decode case: {}", e)}).to_string(),
    }
}

/// The FIRST library call of a process: tokens built here are handed to fresh child processes (this executable, mode
/// `first-call`) whose very first call into the library is the presentation of the token under ANOTHER key.  Whatever a
/// lazily initialised piece of the library does on its first use, a wrong key must be refused then as well.
pub fn first_call_in_a_process(pools: &Pools, seed: u64, thorough: bool, r: &mut Report) {
    let exe = match std::env::current_exe() {
        Ok(e) => e,
        Err(e) => {
            r.inconclusive.push(format!("C04 first-call workload: cannot locate the harness executable: {}", e));
            return;
        }
    };
    let mut rng = Rng::new(seed, "c04-first-call", 0);
    let mut cases: Vec<C04Case> = Vec::new();
    for &p in &ALL {
        if pools.count(p) < 2 {
            continue;
        }
        let key = pools.key(p, 0);
        for (mi, msg) in ["", "x", "{}", "7", JSON_MSG].iter().enumerate() {
            let layer = if mi < 4 { Layer::Core } else { LAYERS[rng.below(3)] };
            let footer = [None, Some("ftr")][mi % 2];
            let token = match seal_at(layer, p, &key, &mut rng, msg, footer, None) {
                Out::Ok(t) => t,
                _ => continue,
            };
            let nkeys = if thorough { 12 } else if p.is_local() { 4 } else { 2 };
            for k in 0..nkeys {
                // another pool key, or a random / single-bit neighbour of the right one
                let key2 = if k == 0 {
                    pools.key(p, 1)
                } else {
                    let mut kb = key_bytes(p, &key);
                    if k % 2 == 1 {
                        let bit = rng.below(kb.len() * 8);
                        kb[bit / 8] ^= 1 << (bit % 8);
                    } else if p.is_local() {
                        kb = rng.bytes(kb.len());
                    } else {
                        let at = kb.len() - 1 - rng.below(8);
                        kb[at] = kb[at].wrapping_add(1 + rng.below(200) as u8);
                    }
                    with_key_bytes(p, &key, kb)
                };
                cases.push(C04Case { p, layer, key: key.clone(), key2, token: token.clone(), footer: footer.map(|s| s.to_string()), ia: None, class: "first-call-in-a-fresh-process".into() });
            }
        }
    }
    let rep = parallel(cases.len(), util::threads(), |i, r| {
        let c = &cases[i];
        let arg = serde_json::to_string(c).unwrap_or_default();
        let out = std::process::Command::new(&exe).arg("first-call").arg(&arg).env("RUST_BACKTRACE", "0").output();
        r.evaluations += 1;
        let tag = format!("{}/{}", c.p.name(), c.layer.name());
        match out {
            Ok(o) => {
                let text = String::from_utf8_lossy(&o.stdout);
                let v: Value = serde_json::from_str(text.trim()).unwrap_or(Value::Null);
                match v["class"].as_str() {
                    Some("ok") => r.violation(
                        format!("C04 accepted-under-other-key-as-first-call-of-a-process {}", tag),
                        format!("{}: a fresh process whose first library call presented the token under a different key {} ACCEPTED it ({})", tag, util::hex(&key_bytes(c.p, &c.key2)), v["brief"].as_str().unwrap_or("")),
                        json!({"cmd": "C04-first-call", "case": c}),
                    ),
                    Some("err") => r.count(&format!("{} rejected as the first call of a fresh process", tag)),
                    Some("panic") => r.violation(format!("C04 panic {} class=first-call", tag), format!("{}: panic under a different key as the first call of a process: {}", tag, v["brief"].as_str().unwrap_or("")), json!({"cmd": "C04-first-call", "case": c})),
                    _ => r.discard(&format!("first-call child gave no usable answer (status {:?})", o.status.code())),
                }
            }
            Err(e) => r.discard(&format!("first-call child could not be started: {}", e)),
        }
    });
    r.merge(rep);
    r.require("v4.local/core rejected as the first call of a fresh process", 4);
}

pub fn replay_first_call(case: &Value) -> Report {
    let mut r = Report::new();
    match (serde_json::from_value::<C04Case>(case.clone()), std::env::current_exe()) {
        (Ok(c), Ok(exe)) => {
            let arg = serde_json::to_string(&c).unwrap_or_default();
            match std::process::Command::new(&exe).arg("first-call").arg(&arg).output() {
                Ok(o) => {
                    let v: Value = serde_json::from_str(String::from_utf8_lossy(&o.stdout).trim()).unwrap_or(Value::Null);
                    r.evaluations += 1;
                    if v["class"].as_str() == Some("ok") {
                        r.violation("C04 accepted-under-other-key-as-first-call-of-a-process (replay)", format!("still accepted: {}", v["brief"]), json!({"cmd": "C04-first-call", "case": c}));
                    } else {
                        r.count("first-call replay: not accepted");
                    }
                }
                Err(e) => r.inconclusive.push(format!("cannot start the child: {}", e)),
            }
        }
        _ => r.inconclusive.push("cannot decode replay case".into()),
    }
    r
}

pub fn run_c04(tier: &str, seed: u64) -> Report {
    let thorough = tier == "thorough";
    let pools = Pools::new(seed, if thorough { 64 } else { 16 }, if thorough { 16 } else { 6 });
    let mut total = Report::new();
    if pools.rsa.is_empty() {
        total.inconclusive.push("no RSA key fixtures found".into());
        return total;
    }
    let nbase = if thorough { 1500 } else { 24 };
    let mut items: Vec<(P, usize, Layer)> = Vec::new();
    for &p in &ALL {
        for b in 0..nbase {
            items.push((p, b, LAYERS[b % 3]));
            if b < 3 {
                for l in LAYERS {
                    if l != LAYERS[b % 3] {
                        items.push((p, b, l));
                    }
                }
            }
        }
    }
    let r = parallel(items.len(), util::threads(), |i, r| {
        let (p, b, layer) = items[i];
        let mut rng = Rng::new(seed, "c04", (i as u64) << 4 | p as u64);
        let key = pools.key(p, b % pools.count(p));
        let footer = [None, Some("ftr"), Some("")][b % 3];
        let ia = if p.has_assertion() { [None, Some("ia")][b % 2] } else { None };
        // short messages: with an unauthenticated decryption a wrong key yields garbage that is still well-formed with
        // noticeable probability only when the plaintext is a few bytes long (b >= 6: "{}" at the generic layer)
        let msg = if layer == Layer::Core { ["", JSON_MSG, "x", "plain text message", JSON_MSG, "", "7", "{}", "ab"][b % 9] } else if layer == Layer::Generic && b >= 6 && b % 2 == 0 { "{}" } else { JSON_MSG };
        let short = msg.len() <= 2;
        let token = match seal_at(layer, p, &key, &mut rng, msg, footer, ia) {
            Out::Ok(t) => t,
            o => {
                r.inconclusive.push(format!("could not build a base token for {}: {}", p.name(), o.brief()));
                return;
            }
        };
        if !open_any(layer, p, &key, &token, footer, ia).is_ok() {
            r.inconclusive.push(format!("base token for {} does not open under its own key (see C01/C02)", p.name()));
            return;
        }
        r.count(&format!("{}/{} base-tokens", p.name(), layer.name()));
        let kb = key_bytes(p, &key);
        let mut alts: Vec<(Vec<u8>, String)> = Vec::new();
        // every single-bit neighbour (RSA DER: every bit on the first base of each layer, a stride otherwise)
        let stride = if p == P::V1P && b >= 3 { 7 } else { 1 };
        for bit in (0..kb.len() * 8).step_by(stride) {
            let mut v = kb.clone();
            v[bit / 8] ^= 1 << (bit % 8);
            alts.push((v, "single-bit-neighbour".into()));
        }
        alts.push((vec![0u8; kb.len()], "all-zero".into()));
        alts.push((vec![0xffu8; kb.len()], "all-one".into()));
        for _ in 0..(if short && p.is_local() { 1500 } else { 50 }) {
            alts.push((rng.bytes(kb.len()), "random-bytes".into()));
        }
        if p == P::V3P {
            let rec = v3p_recovered_keys(&token, footer, ia, &kb);
            if rec.iter().any(|(k, _)| *k == kb) {
                r.count("v3.public signer's key is among the keys recovered from the signature (recovery works)");
            }
            alts.extend(rec);
        }
        for j in 0..pools.count(p) {
            let ob = key_bytes(p, &pools.key(p, j));
            alts.push((ob, "other-pool-key".into()));
        }
        // byte-level neighbours: rotate, reverse, truncate-and-pad
        let mut rot = kb.clone();
        rot.rotate_left(1);
        alts.push((rot, "rotated".into()));
        let mut rev = kb.clone();
        rev.reverse();
        alts.push((rev, "reversed".into()));
        if p.is_local() {
            let mut half = kb.clone();
            for x in half[16..].iter_mut() {
                *x = 0;
            }
            alts.push((half, "second-half-zeroed".into()));
            let mut half = kb.clone();
            for x in half[..16].iter_mut() {
                *x = 0;
            }
            alts.push((half, "first-half-zeroed".into()));
        }
        for (bytes, class) in alts {
            if bytes == kb {
                continue;
            }
            if p == P::V3P && bytes.len() != 49 {
                continue;
            }
            let key2 = with_key_bytes(p, &key, bytes);
            let c = C04Case { p, layer, key: key.clone(), key2, token: token.clone(), footer: footer.map(|s| s.to_string()), ia: ia.map(|s| s.to_string()), class };
            c04_eval(&c, r);
        }
    });
    total.merge(r);
    let mut rs = Report::new();
    let _ = recent_sessions_take();
    c04_sessions(&pools, &mut rs);
    let cases = recent_sessions_take();
    nested_pairs("C04", &cases, if thorough { 2000 } else { 160 }, seed, &mut rs);
    c04_long_sessions(&pools, seed, thorough, &mut rs);
    builder_key_changes(&pools, &mut rs);
    first_call_in_a_process(&pools, seed, thorough, &mut rs);
    rs.require("nested parser pairs: both answer as alone", 60);
    total.merge(rs);
    for &p in &ALL {
        for l in LAYERS {
            total.require(&format!("{}/{} rejected", p.name(), l.name()), 100);
        }
        total.require(&format!("{}/generic session parses as expected", p.name()), 7);
        total.require(&format!("{}/batteries session parses as expected", p.name()), 7);
    }
    total.require("v3.public signer's key is among the keys recovered from the signature (recovery works)", 10);
    total
}

pub fn replay_c04(case: &Value) -> Report {
    let mut r = Report::new();
    match serde_json::from_value::<C04Case>(case.clone()) {
        Ok(c) => {
            if open_any(c.layer, c.p, &c.key, &c.token, c.footer.as_deref(), c.ia.as_deref()).is_ok() {
                c04_eval(&c, &mut r)
            } else {
                r.inconclusive.push("recorded token no longer opens under its own key".into())
            }
        }
        Err(e) => r.inconclusive.push(format!("cannot decode replay case: {}", e)),
    }
    r
}

pub const RULE_C04: &str = "per protocol 24 (thorough 1500) authentic tokens built at core/generic/batteries layer (footer none/text/empty, assertion none/text) are presented at the same layer under every single-bit neighbour of the key (all 256 bits of symmetric and Ed25519 public keys, all 392 bits of the compressed P-384 point, all bits of the RSA public-key DER), all-zero, all-one, 50 random (1500 for local tokens whose plaintext is 0-2 bytes, incl. the claim-less '{}' of the generic builder: garbage from an unauthenticated decryption is well-formed only when short), rotated/reversed/half-zeroed keys, every other pool key, and for v3.public the ECDSA 'duplicate-signature' keys recovered from the token's own signature over the specified digest and over five binding-free digest variants (the signer's key must be the only recovered key that is accepted); ONE builder object building under key1, key2, (unusable key material,) key1, ... (each token opens under the key it was built with and under no other, also after a build that failed); NESTED parser pairs (160, thorough 2000: a second parser object of any protocol/layer is created, used and dropped in the middle of another parser's session on the same thread; both must answer as they do alone); parser sessions incl. LONG ones (one parser object, 3000 (thorough 20000-70000) parses of right-key / other-key / one-character-changed presentations of 300 distinct tokens in a seeded order); every key refused as unusable and every third other wrong key is presented again in a right-key, wrong-key, wrong-key sequence (a rejection must stay a rejection, whatever the verifier keeps from its last good call); FRESH PROCESSES (about 150, thorough 480) whose very first library call presents a token (empty / 1-2 byte / JSON message) under another key (lazy first-use paths differ from the steady state); oracle: any Ok under another key is a violation (a key that fails to parse counts as 'fails'); distinct_nontrivial = distinct (protocol, layer, key class, rejection variant)";

// ==========================================================================================
// C05
// ==========================================================================================
#[derive(Clone, Debug, Serialize, Deserialize)]
pub struct C05Case {
    pub p: P,
    pub layer: Layer,
    pub key: KeyMat,
    pub built_footer: Option<String>,
    pub supplied_footer: Option<String>,
    pub ia: Option<String>,
    pub token: String,
    pub class: String,
}

fn norm(o: &Option<String>) -> &str {
    o.as_deref().unwrap_or("")
}

fn c05_eval(c: &C05Case, r: &mut Report) {
    r.evaluations += 1;
    let tag = format!("{}/{}", c.p.name(), c.layer.name());
    let out = open_any(c.layer, c.p, &c.key, &c.token, c.supplied_footer.as_deref(), c.ia.as_deref());
    let must_accept = c.class == "pair" && norm(&c.built_footer) == norm(&c.supplied_footer);
    let replay = || json!({"cmd": "C05", "case": c});
    match (&out, must_accept) {
        (Out::Panic(loc), _) => r.violation(format!("C05 panic {}", tag), format!("{}: panic: {}", tag, loc), replay()),
        (Out::Ok(_), true) => {
            r.count(&format!("{} accepted-equal-footer", tag));
            r.distinct(format!("{}|eq|{}|{}", tag, fclass(&c.built_footer), fclass(&c.supplied_footer)));
        }
        (Out::Err(e), true) => r.violation(
            format!("C05 equal-footer-rejected {} err={}", tag, e),
            format!("{}: token built with footer {:?} was REJECTED ({}) although the same footer {:?} was supplied", tag, c.built_footer, e, c.supplied_footer),
            replay(),
        ),
        (Out::Ok(_), false) => r.violation(
            format!("C05 wrong-footer-accepted {} class={}", tag, c.class),
            format!("{}: token built with footer {:?} was ACCEPTED with expected footer {:?} (class {}); token {:?}", tag, c.built_footer, c.supplied_footer, c.class, util::clip(&c.token, 100)),
            replay(),
        ),
        (Out::Err(e), false) => {
            r.count(&format!("{} rejected-different-footer", tag));
            r.see(&format!("rejection-variants {}", tag), e);
            r.distinct(format!("{}|ne|{}|{}", tag, c.class, e));
            if is_plaintext_error(e) {
                r.violation(format!("C05 plaintext-error {} err={}", tag, e), format!("{}: footer mismatch surfaced as {}", tag, e), replay());
            }
        }
    }
    if r.samples.len() < 8 && r.evaluations % 211 == 5 {
        r.sample(json!({"entry": tag, "class": c.class, "built_with_footer": c.built_footer, "expected_footer_supplied": c.supplied_footer, "token": util::clip(&c.token, 70), "outcome": out.brief()}));
    }
}
fn fclass(o: &Option<String>) -> String {
    match o {
        None => "none".into(),
        Some(s) if s.is_empty() => "empty".into(),
        Some(s) => format!("len{}{}", s.len().min(70), if s.is_ascii() { "" } else { "u" }),
    }
}

/// (footer X, no assertion) vs (no footer, assertion X), and for public tokens (empty message, footer X) vs (message X, no
/// footer): an encoding that mishandles EMPTY pieces - possibly only on a large-input path - makes these authenticate alike
pub fn piece_swaps(prop: &str, pools: &Pools, seed: u64, rsw: &mut Report) {
    for &p in &ALL {
        let key = pools.key(p, 0);
        let mut rng = Rng::new(seed, "c05-swap", p as u64);
        let x = "{\"kid\":\"swap-me\"}";
        let big1 = "m".repeat(9000);
        let big2 = format!("{{\"pad\":\"{}\"}}", "p".repeat(70_000));
        for (layer, msg) in [(Layer::Core, JSON_MSG), (Layer::Generic, JSON_MSG), (Layer::Core, big1.as_str()), (Layer::Core, big2.as_str())] {
            if p.has_assertion() {
                // built with footer X and no assertion; presented WITHOUT the footer segment, expecting no footer, assertion X
                if let Out::Ok(t) = seal_at(layer, p, &key, &mut rng, msg, Some(x), None) {
                    let segs: Vec<&str> = t.split('.').collect();
                    let bare = format!("{}.{}.{}", segs[0], segs[1], segs[2]);
                    rsw.evaluations += 1;
                    match open_any(layer, p, &key, &bare, None, Some(x)) {
                        Out::Ok(_) => rsw.violation(format!("{} footer-accepted-as-assertion {}/{}", prop, p.name(), layer.name()), format!("{}/{}: a token built with footer {:?} and no assertion was ACCEPTED without its footer segment when {:?} was supplied as the implicit assertion", p.name(), layer.name(), x, x), json!({"cmd": prop, "note": "piece-swap case: re-run the check", "p": p.name()})),
                        Out::Panic(l) => rsw.violation(format!("{} panic {}", prop, p.name()), format!("{}: panic {}", p.name(), l), json!({"cmd": prop, "note": "piece-swap case: re-run the check"})),
                        _ => rsw.count("footer / neighbouring piece swaps refused"),
                    }
                }
                // built with assertion X and no footer; presented with X spliced on as footer segment, expecting footer X, no assertion
                if let Out::Ok(t) = seal_at(layer, p, &key, &mut rng, msg, None, Some(x)) {
                    let spliced = format!("{}.{}", t.trim_end_matches('.'), util::b64(x.as_bytes()));
                    rsw.evaluations += 1;
                    match open_any(layer, p, &key, &spliced, Some(x), None) {
                        Out::Ok(_) => rsw.violation(format!("{} assertion-accepted-as-footer {}/{}", prop, p.name(), layer.name()), format!("{}/{}: a footer-less token built with assertion {:?} was ACCEPTED under expected footer {:?} once that footer segment was spliced on", p.name(), layer.name(), x, x), json!({"cmd": prop, "note": "piece-swap case: re-run the check", "p": p.name()})),
                        Out::Panic(l) => rsw.violation(format!("{} panic {}", prop, p.name()), format!("{}: panic {}", p.name(), l), json!({"cmd": prop, "note": "piece-swap case: re-run the check"})),
                        _ => rsw.count("footer / neighbouring piece swaps refused"),
                    }
                }
            }
        }
        if !p.is_local() {
            // (empty message, footer X) re-read as (message X, no footer) under the same signature
            if let Out::Ok(t) = core_seal(p, &key, &rng.bytes(32), "", Some(x), None).0 {
                if let Some(parts) = crate::c03::parts(p, &t) {
                    let mut payload2 = x.as_bytes().to_vec();
                    payload2.extend_from_slice(&parts.payload);
                    let tok2 = format!("{}{}", p.header(), util::b64(&payload2));
                    rsw.evaluations += 1;
                    match open_any(Layer::Core, p, &key, &tok2, None, None) {
                        Out::Ok(m) => rsw.violation(format!("{} footer-accepted-as-message {}", prop, p.name()), format!("{}: the signature over (empty message, footer {:?}) was ACCEPTED for (message {:?}, no footer); returned {:?}", p.name(), x, x, util::clip(&m, 60)), json!({"cmd": prop, "note": "piece-swap case: re-run the check", "p": p.name()})),
                        Out::Panic(l) => rsw.violation(format!("{} panic {}", prop, p.name()), format!("{}: panic {}", p.name(), l), json!({"cmd": prop, "note": "piece-swap case: re-run the check"})),
                        _ => rsw.count("footer / neighbouring piece swaps refused"),
                    }
                }
            }
        }
    }
    rsw.require("footer / neighbouring piece swaps refused", 20);
}

pub fn run_c05(tier: &str, seed: u64) -> Report {
    let thorough = tier == "thorough";
    let pools = Pools::new(seed, 8, 4);
    let mut total = Report::new();
    if pools.rsa.is_empty() {
        total.inconclusive.push("no RSA key fixtures found".into());
        return total;
    }
    let mut cat: Vec<Option<String>> = vec![None];
    cat.extend(gens::footer_catalogue().into_iter().map(Some));
    {
        // seeded random footers on top of the catalogue (quick: 20, thorough: 300), incl. single-character neighbours of each other
        let mut rng = Rng::new(seed, "c05-cat", 0);
        for k in 0..(if thorough { 300 } else { 20 }) {
            let n = 1 + rng.below(if k % 10 == 0 { 400 } else { 40 });
            let s = rng.utf8(n);
            if k % 3 == 0 {
                let mut t = s.clone();
                t.push('x');
                cat.push(Some(t));
            }
            cat.push(Some(s));
        }
    }
    let mut items: Vec<(P, Layer, usize)> = Vec::new();
    for &p in &ALL {
        for l in LAYERS {
            for fi in 0..cat.len() {
                items.push((p, l, fi));
            }
        }
    }
    let cat_ref = &cat;
    let r = parallel(items.len(), util::threads(), |i, r| {
        let (p, layer, fi) = items[i];
        let mut rng = Rng::new(seed, "c05", i as u64);
        let key = pools.key(p, fi % pools.count(p));
        let f = &cat_ref[fi];
        let ia = if p.has_assertion() && fi % 3 == 0 { Some("ia") } else { None };
        // at the core layer every fifth token carries the EMPTY message and every fifth a one-byte one (a shortcut taken for
        // an empty ciphertext must not bypass the binding of the footer)
        let msg = if layer == Layer::Core { [JSON_MSG, "", JSON_MSG, "x", JSON_MSG][fi % 5] } else { JSON_MSG };
        let token = match seal_at(layer, p, &key, &mut rng, msg, f.as_deref(), ia) {
            Out::Ok(t) => t,
            o => {
                r.inconclusive.push(format!("could not build a token for {} footer {:?}: {}", p.name(), f, o.brief()));
                return;
            }
        };
        r.count(&format!("{}/{} tokens-built", p.name(), layer.name()));
        // structure of the produced token
        let segs: Vec<&str> = token.split('.').collect();
        let fb = norm(f);
        let structure_ok = if fb.is_empty() { segs.len() == 3 || (segs.len() == 4 && segs[3].is_empty()) } else { segs.len() == 4 && segs[3] == util::b64(fb.as_bytes()) };
        r.evaluations += 1;
        if !structure_ok {
            r.violation(
                format!("C05 footer-segment-wrong {}/{}", p.name(), layer.name()),
                format!("{}: token built with footer {:?} has segments {:?} (4th must be exactly base64url(footer), absent/empty for an empty footer)", p.name(), f, segs.iter().map(|s| util::clip(s, 30)).collect::<Vec<_>>()),
                json!({"cmd": "C05", "case": C05Case { p, layer, key: key.clone(), built_footer: f.clone(), supplied_footer: f.clone(), ia: ia.map(|s| s.to_string()), token: token.clone(), class: "structure".into() }}),
            );
        } else {
            r.count(&format!("{}/{} footer-segment-exact", p.name(), layer.name()));
        }
        // the expensive public protocols get a thinned-out inner loop except for the interesting near-miss pairs
        for (gi, g) in cat_ref.iter().enumerate() {
            let expensive = matches!(p, P::V3P) && !thorough;
            let equal = norm(f) == norm(g);
            // when the token HAS a footer segment, a different expected footer is rejected by a string compare (cheap);
            // the costly path is "token without footer segment" and "equal footer"
            if expensive && !equal && fb.is_empty() && gi % 4 != fi % 4 {
                continue;
            }
            let c = C05Case { p, layer, key: key.clone(), built_footer: f.clone(), supplied_footer: g.clone(), ia: ia.map(|s| s.to_string()), token: token.clone(), class: "pair".into() };
            c05_eval(&c, r);
        }
        // edits of the footer segment itself
        if !fb.is_empty() && segs.len() == 4 {
            let base = format!("{}.{}.{}", segs[0], segs[1], segs[2]);
            let mut edits: Vec<(String, Option<String>, &str)> = vec![
                (base.clone(), f.clone(), "footer-segment-removed"),
                (format!("{}.", base), f.clone(), "footer-segment-emptied"),
                (format!("{}.", base), None, "footer-segment-emptied+none-expected"),
                (base.clone(), None, "footer-segment-removed+none-expected"),
                (format!("{}.{}", base, util::b64(b"evil")), Some("evil".into()), "footer-segment-replaced+matching-expectation"),
                (format!("{}.{}", base, util::b64(b"evil")), f.clone(), "footer-segment-replaced"),
                (format!("{}.{}A", base, segs[3]), f.clone(), "footer-segment-extended"),
                (format!("{}.{}", base, fb), f.clone(), "footer-segment-raw-text"),
            ];
            if segs[3].len() > 1 {
                edits.push((format!("{}.{}", base, &segs[3][..segs[3].len() - 1]), f.clone(), "footer-segment-truncated"));
            }
            // white space (ASCII and Unicode) and other invisible characters glued to the segment, before it, or in front of the
            // whole token: the segment is then no longer base64url(F)
            for ws in [" ", "\n", "\r\n", "\t", "\u{a0}", "\u{3000}", "\u{200b}", "\u{feff}", "\0", "\u{c}", "  \n"] {
                edits.push((format!("{}.{}{}", base, segs[3], ws), f.clone(), "footer-segment-followed-by-white-space"));
                edits.push((format!("{}.{}{}", base, ws, segs[3]), f.clone(), "footer-segment-preceded-by-white-space"));
                edits.push((format!("{}{}.{}", ws, base, segs[3]), f.clone(), "token-preceded-by-white-space"));
            }
            // non-canonical encodings of the SAME footer bytes: padding, non-zero trailing bits, standard alphabet
            for pad in ["=", "==", "==="] {
                edits.push((format!("{}.{}{}", base, segs[3], pad), f.clone(), "footer-segment-padded"));
            }
            let rem = segs[3].len() % 4;
            if rem == 2 || rem == 3 {
                let chars: Vec<char> = segs[3].chars().collect();
                let last = *chars.last().unwrap();
                if let Some(idx) = util::B64.iter().position(|&c| c as char == last) {
                    let free = if rem == 2 { 16 } else { 4 };
                    for k in 1..free {
                        let alt = util::B64[(idx & !(free - 1)) | k] as char;
                        if alt != last {
                            let mut c2 = chars.clone();
                            *c2.last_mut().unwrap() = alt;
                            edits.push((format!("{}.{}", base, c2.into_iter().collect::<String>()), f.clone(), "footer-segment-trailing-bits"));
                        }
                    }
                }
            }
            let std_alpha = segs[3].replace('-', "+").replace('_', "/");
            if std_alpha != segs[3] {
                edits.push((format!("{}.{}", base, std_alpha), f.clone(), "footer-segment-std-alphabet"));
            }
            for n in [64usize, 256, 512, 65536] {
                let fill: String = std::iter::repeat('A').take(n).collect();
                edits.push((format!("{}.{}{}", base, segs[3], fill), f.clone(), "footer-segment-long-extension"));
            }
            // further segments behind the footer segment (5 or more in all): the fourth is then not "the" footer segment
            for tail in [".", ".AA", "...", ".."] {
                edits.push((format!("{}{}", token, tail), f.clone(), "footer-segment-followed-by-more-segments"));
            }
            edits.push((format!("{}.{}", token, segs[3]), f.clone(), "footer-segment-followed-by-more-segments"));
            for (tok, sup, class) in edits {
                let c = C05Case { p, layer, key: key.clone(), built_footer: f.clone(), supplied_footer: sup, ia: ia.map(|s| s.to_string()), token: tok, class: class.into() };
                c05_eval(&c, r);
            }
        } else if fb.is_empty() {
            // footer-less token: adding a footer segment with a matching expectation must fail
            let tok = format!("{}.{}", token.trim_end_matches('.'), util::b64(b"added"));
            let c = C05Case { p, layer, key: key.clone(), built_footer: f.clone(), supplied_footer: Some("added".into()), ia: ia.map(|s| s.to_string()), token: tok.clone(), class: "footer-segment-added+matching-expectation".into() };
            c05_eval(&c, r);
            // ... and with NO expectation (a literal None at the core layer) or the empty one: the token now carries a footer
            // that was never authenticated and that the caller does not expect
            for (sup, class) in [(None, "footer-segment-added+none-expected"), (Some(String::new()), "footer-segment-added+empty-expected")] {
                let c = C05Case { p, layer, key: key.clone(), built_footer: f.clone(), supplied_footer: sup, ia: ia.map(|s| s.to_string()), token: tok.clone(), class: class.into() };
                c05_eval(&c, r);
            }
            // a footer-less token followed by an EMPTY fourth segment and more: five segments, not a token
            for tail in ["..x", "..", ".x.y", "..AAAA.AAAA"] {
                let c = C05Case { p, layer, key: key.clone(), built_footer: f.clone(), supplied_footer: None, ia: ia.map(|s| s.to_string()), token: format!("{}{}", token.trim_end_matches('.'), tail), class: "footer-less-token-followed-by-more-segments".into() };
                c05_eval(&c, r);
            }
            let tok2 = format!("{}.{}", token.trim_end_matches('.'), util::b64(b"{\"kid\":\"attacker\"}"));
            let c = C05Case { p, layer, key: key.clone(), built_footer: f.clone(), supplied_footer: None, ia: ia.map(|s| s.to_string()), token: tok2, class: "footer-segment-added+none-expected".into() };
            c05_eval(&c, r);
        }
    });
    total.merge(r);
    // the footer and its NEIGHBOURING pieces must not be interchangeable (small and LARGE messages)
    let mut rsw = Report::new();
    piece_swaps("C05", &pools, seed, &mut rsw);
    total.merge(rsw);
    // re-cut across a LENGTH PREFIX of the pre-authentication encoding: if lengths n and n+d shared an encoding, the bytes
    // `LE64(|F|) || F[..d-8]` could be moved from the footer into the message (or ciphertext) and the rest `F[d..]` presented
    // as the footer, under the same signature / tag.  F is chosen so that F[d-8..d] reads as the length prefix of F[d..].
    let mut rc = Report::new();
    for &p in &ALL {
        if p == P::V2L {
            continue; // the ciphertext is not a piece of v2.local's encoding
        }
        let key = pools.key(p, 0);
        let mut rng = Rng::new(seed, "c05-recut", p as u64);
        for shift in [128usize, 256, 65536] {
            let rest_len = 33usize;
            let mut f: Vec<u8> = vec![b'q'; shift - 8];
            f.extend_from_slice(&(rest_len as u64).to_le_bytes());
            f.extend(std::iter::repeat(b'r').take(rest_len));
            let fs = match String::from_utf8(f.clone()) {
                Ok(x) => x,
                Err(_) => continue,
            };
            let token = match core_seal(p, &key, &rng.bytes(32), JSON_MSG, Some(&fs), None).0 {
                Out::Ok(t) => t,
                _ => continue,
            };
            let parts = match crate::c03::parts(p, &token) {
                Some(x) => x,
                None => continue,
            };
            let cut = parts.payload.len().saturating_sub(p.trailer_len());
            for len_field in [f.len() as u64, (f.len() - shift) as u64] {
                let mut payload2 = parts.payload[..cut].to_vec();
                payload2.extend_from_slice(&len_field.to_le_bytes());
                payload2.extend_from_slice(&f[..shift - 8]);
                payload2.extend_from_slice(&parts.payload[cut..]);
                let f2 = &f[shift..];
                let tok2 = format!("{}{}.{}", p.header(), util::b64(&payload2), util::b64(f2));
                let c = C05Case { p, layer: Layer::Core, key: key.clone(), built_footer: Some(fs.clone()), supplied_footer: Some(String::from_utf8_lossy(f2).to_string()), ia: None, token: tok2, class: "footer-bytes-moved-into-the-body-across-a-length-prefix".into() };
                c05_eval(&c, &mut rc);
                rc.count("re-cut across a length prefix refused");
            }
        }
    }
    rc.require("re-cut across a length prefix refused", 30);
    total.merge(rc);
    // footer LENGTH sweep: every length 0..=130 (all residues mod 3 of base64 and mod 16 / 64 of the hash blocks, both
    // sides of 127/128) plus 2^16-1 .. 2^16+1: built with that footer, opened with it, with its (len-1)-prefix and its
    // one-byte extension; core layer on every protocol, generic layer on v4
    let lens: Vec<usize> = (0..=330usize).chain([65_535, 65_536, 65_537]).collect();
    let items: Vec<(P, Layer, usize)> = ALL.iter().flat_map(|&p| lens.iter().map(move |&l| (p, Layer::Core, l))).chain(lens.iter().flat_map(|&l| [(P::V4L, Layer::Generic, l), (P::V4P, Layer::Batteries, l)])).collect();
    let rl = parallel(items.len(), util::threads(), |i, r| {
        let (p, layer, len) = items[i];
        if (p == P::V1P || p == P::V3P) && len > 40 && len % 7 != 0 {
            return;
        }
        let mut rng = Rng::new(seed, "c05-len", i as u64);
        let key = pools.key(p, 0);
        let f: String = (0..len).map(|j| (b'a' + (j % 26) as u8) as char).collect();
        let built = if len == 0 { None } else { Some(f.clone()) };
        let token = match seal_at(layer, p, &key, &mut rng, JSON_MSG, built.as_deref(), None) {
            Out::Ok(t) => t,
            o => {
                r.inconclusive.push(format!("C05 length sweep: could not build for {} with a {}-byte footer: {}", p.name(), len, o.brief()));
                return;
            }
        };
        let mut supplied: Vec<Option<String>> = vec![built.clone(), Some(format!("{}x", f))];
        if len > 0 {
            supplied.push(if len == 1 { None } else { Some(f[..len - 1].to_string()) });
            // same length, only the LAST byte (resp. the last eight) different: the end of the encoded input must count too
            supplied.push(Some(format!("{}#", &f[..len - 1])));
            if len >= 8 {
                supplied.push(Some(format!("{}########", &f[..len - 8])));
            }
        }
        for sf in supplied {
            let c = C05Case { p, layer, key: key.clone(), built_footer: built.clone(), supplied_footer: sf, ia: None, token: token.clone(), class: "pair".into() };
            c05_eval(&c, r);
        }
        r.count("footer length sweep");
    });
    total.merge(rl);
    total.require("footer length sweep", 1500);
    let mut rs = Report::new();
    let _ = recent_sessions_take();
    c05_sessions(&pools, &mut rs);
    let cases = recent_sessions_take();
    nested_pairs("C05", &cases, if thorough { 2000 } else { 160 }, seed, &mut rs);
    rs.require("nested parser pairs: both answer as alone", 60);
    builder_reuse("C05", &pools, &mut rs);
    builder_footer_changes(&pools, &mut rs);
    total.merge(rs);
    for &p in &ALL {
        total.require(&format!("{}/generic session parses as expected", p.name()), 8);
        total.require(&format!("{}/generic builder reused: token #3 bound as configured", p.name()), 1);
        total.require(&format!("{}/batteries builder reused: token #3 bound as configured", p.name()), 1);
        for l in LAYERS {
            total.require(&format!("{}/{} accepted-equal-footer", p.name(), l.name()), 30);
            total.require(&format!("{}/{} rejected-different-footer", p.name(), l.name()), 100);
        }
    }
    total
}

pub fn replay_c05(case: &Value) -> Report {
    let mut r = Report::new();
    match serde_json::from_value::<C05Case>(case.clone()) {
        Ok(c) => {
            if c.class == "structure" {
                r.inconclusive.push("structure cases are re-derived by re-running the check, not by replay".into());
            } else {
                c05_eval(&c, &mut r)
            }
        }
        Err(e) => r.inconclusive.push(format!("cannot decode replay case: {}", e)),
    }
    r
}

pub const RULE_C05: &str = "8 protocols x 3 layers x footer catalogue (none, empty, 40 strings + 20 (thorough 300) seeded random ones; incl. prefix/extension pairs, case and whitespace variants, NUL suffix, NFC/NFD, strings whose base64 differs in the last character, strings that are themselves base64 or contain dots): a token is built with each footer F through that layer's builder and presented to that layer's parser with every expected footer F' of the catalogue; oracle: accept iff F' == F with none == empty (string equality in the harness). Plus swaps of the footer with its neighbouring pieces ((footer X, no assertion) presented as (no footer, assertion X) and vice versa; for public tokens (empty message, footer X) as (message X, no footer); small, 9 000-byte and 70 000-byte messages). Plus a re-cut across a length prefix (the first d bytes of the footer, preceded by the footer's length field, are moved behind the message / ciphertext and the rest is presented as footer, d in {128, 256, 65536}: collides iff the PAE length encoding is not injective). Plus a footer LENGTH sweep (every length 0..=330 and 65535..65537: built, opened with the same footer, its one-byte-shorter prefix, its one-byte extension and same-length footers differing only in the last byte / last eight bytes). Plus parser sessions (the expected footer is changed between parses of one parser object) and 160 (thorough 2000) NESTED pairs of them (a second parser object is created, used and dropped in the middle of another one's session on the same thread; both must answer as alone). Plus the footer segment of every produced token compared with the harness's own base64url encoder, and edits of the segment (removed, emptied, replaced with and without matching expectation, extended, truncated, with ASCII / Unicode white space or invisible characters glued behind or in front of the segment or in front of the token, raw text, followed by further segments, added to a footer-less token with a matching, an empty and NO expectation). distinct_nontrivial = distinct (protocol, layer, built class, supplied class) for accepted pairs and (protocol, layer, case class, rejection variant) for rejected ones; plus builder reuse incl. a batteries builder used again after a REFUSED build and a claim-less GenericBuilder (any token still produced is bound to the configured footer)";

// ==========================================================================================
// C06
// ==========================================================================================
#[derive(Clone, Debug, Serialize, Deserialize)]
pub struct C06Case {
    pub p: P,
    pub layer: Layer,
    pub key: KeyMat,
    pub footer: Option<String>,
    pub supplied_footer: Option<String>,
    pub built_ia: Option<String>,
    pub supplied_ia: Option<String>,
    pub token: String,
    pub class: String,
}

fn c06_eval(c: &C06Case, r: &mut Report) {
    r.evaluations += 1;
    let tag = format!("{}/{}", c.p.name(), c.layer.name());
    let out = open_any(c.layer, c.p, &c.key, &c.token, c.supplied_footer.as_deref(), c.supplied_ia.as_deref());
    let must_accept = c.class == "pair" && norm(&c.built_ia) == norm(&c.supplied_ia);
    let replay = || json!({"cmd": "C06", "case": c});
    match (&out, must_accept) {
        (Out::Panic(loc), _) => r.violation(format!("C06 panic {}", tag), format!("{}: panic: {}", tag, loc), replay()),
        (Out::Ok(_), true) => {
            r.count(&format!("{} accepted-equal-assertion", tag));
            r.distinct(format!("{}|eq|{}", tag, fclass(&c.built_ia)));
        }
        (Out::Err(e), true) => r.violation(
            format!("C06 equal-assertion-rejected {} err={}", tag, e),
            format!("{}: token built with assertion {:?} REJECTED ({}) although the same assertion {:?} was supplied", tag, c.built_ia, e, c.supplied_ia),
            replay(),
        ),
        (Out::Ok(_), false) => r.violation(
            format!("C06 wrong-assertion-accepted {} class={}", tag, c.class),
            format!("{}: token built with (footer {:?}, assertion {:?}) ACCEPTED with (footer {:?}, assertion {:?}) (class {})", tag, c.footer, c.built_ia, c.supplied_footer, c.supplied_ia, c.class),
            replay(),
        ),
        (Out::Err(e), false) => {
            r.count(&format!("{} rejected-different-assertion", tag));
            r.see(&format!("rejection-variants {}", tag), e);
            r.distinct(format!("{}|ne|{}|{}|{}", tag, c.class, fclass(&c.built_ia), fclass(&c.supplied_ia)));
            if is_plaintext_error(e) {
                r.violation(format!("C06 plaintext-error {} err={}", tag, e), format!("{}: assertion mismatch surfaced as {}", tag, e), replay());
            }
        }
    }
    if r.samples.len() < 8 && r.evaluations % 157 == 5 {
        r.sample(json!({"entry": tag, "class": c.class, "built_with_assertion": c.built_ia, "assertion_supplied": c.supplied_ia, "outcome": out.brief()}));
    }
}

fn contains(h: &[u8], n: &[u8]) -> bool {
    !n.is_empty() && h.windows(n.len()).any(|w| w == n)
}

pub fn run_c06(tier: &str, seed: u64) -> Report {
    let thorough = tier == "thorough";
    let pools = Pools::new(seed, 8, 4);
    let mut total = Report::new();
    let protos = [P::V3L, P::V4L, P::V3P, P::V4P];
    let mut cat: Vec<Option<String>> = vec![None];
    cat.extend(gens::footer_catalogue().into_iter().map(Some));
    {
        let mut rng = Rng::new(seed, "c06-cat", 0);
        for k in 0..(if thorough { 150 } else { 10 }) {
            let n = 1 + rng.below(if k % 10 == 0 { 400 } else { 40 });
            cat.push(Some(rng.utf8(n)));
        }
    }
    let mut items: Vec<(P, Layer, usize)> = Vec::new();
    for &p in &protos {
        for l in LAYERS {
            for ai in 0..cat.len() {
                items.push((p, l, ai));
            }
        }
    }
    let cat_ref = &cat;
    let r = parallel(items.len(), util::threads(), |i, r| {
        let (p, layer, ai) = items[i];
        let mut rng = Rng::new(seed, "c06", i as u64);
        let key = pools.key(p, ai % pools.count(p));
        let a = &cat_ref[ai];
        let footer = [None, Some("ftr"), Some("")][ai % 3];
        // at the core layer every fifth token carries the EMPTY message and every fifth a one-byte one (a shortcut taken for
        // an empty ciphertext must not bypass the binding of the assertion)
        // ... and at the generic layer every fourth token comes from a builder WITHOUT any claim
        let msg = if layer == Layer::Core { [JSON_MSG, "", JSON_MSG, "x", JSON_MSG][ai % 5] } else if layer == Layer::Generic && ai % 4 == 1 { "{}" } else { JSON_MSG };
        let token = match seal_at(layer, p, &key, &mut rng, msg, footer, a.as_deref()) {
            Out::Ok(t) => t,
            o => {
                r.inconclusive.push(format!("could not build a token for {} assertion {:?}: {}", p.name(), a, o.brief()));
                return;
            }
        };
        r.count(&format!("{}/{} tokens-built", p.name(), layer.name()));
        for (gi, g) in cat_ref.iter().enumerate() {
            if p == P::V3P && !thorough && norm(a) != norm(g) && gi % 3 != ai % 3 {
                continue; // every mismatch costs a P-384 verification
            }
            let c = C06Case { p, layer, key: key.clone(), footer: footer.map(|s| s.to_string()), supplied_footer: footer.map(|s| s.to_string()), built_ia: a.clone(), supplied_ia: g.clone(), token: token.clone(), class: "pair".into() };
            c06_eval(&c, r);
        }
        // the assertion must not have gone into the footer either: supplying it as the FOOTER must fail
        if !norm(a).is_empty() && footer.is_none() {
            let c = C06Case { p, layer, key: key.clone(), footer: None, supplied_footer: a.clone(), built_ia: a.clone(), supplied_ia: None, token: token.clone(), class: "assertion-supplied-as-footer".into() };
            c06_eval(&c, r);
        }
        // a token that carries a footer, presented with NO footer and another assertion (nothing the parser does about an
        // unexpected footer may let the assertion go unchecked)
        if footer == Some("ftr") {
            for g in [Some("some other assertion".to_string()), a.as_ref().map(|x| format!("{}x", x)), if norm(a).is_empty() { Some("a".to_string()) } else { None }] {
                if norm(&g) == norm(a) {
                    continue;
                }
                let c = C06Case { p, layer, key: key.clone(), footer: footer.map(|s| s.to_string()), supplied_footer: None, built_ia: a.clone(), supplied_ia: g, token: token.clone(), class: "footer-not-supplied+other-assertion".into() };
                c06_eval(&c, r);
            }
        }
        // footers that are RELATED to the assertion (equal to it, containing it, contained in it): footer and assertion are
        // independent inputs, the same pair on both sides must be accepted and another assertion refused
        if !norm(a).is_empty() && (ai % 2 == 0 || layer != Layer::Core) {
            let a_str = a.clone().unwrap_or_default();
            let half: String = a_str.chars().take((a_str.chars().count() / 2).max(1)).collect();
            for (rel, f) in [("footer==assertion", a_str.clone()), ("footer-contains-assertion", format!("{{\"kid\":\"k1\",\"tenant\":\"{}\"}}", a_str)), ("assertion-contains-footer", half), ("footer-ends-with-assertion", format!("f:{}", a_str))] {
                let token = match seal_at(layer, p, &key, &mut rng, JSON_MSG, Some(&f), a.as_deref()) {
                    Out::Ok(t) => t,
                    o => {
                        r.inconclusive.push(format!("could not build a token for {} with {}: {}", p.name(), rel, o.brief()));
                        continue;
                    }
                };
                r.count(&format!("tokens built with {}", rel));
                let c = C06Case { p, layer, key: key.clone(), footer: Some(f.clone()), supplied_footer: Some(f.clone()), built_ia: a.clone(), supplied_ia: a.clone(), token: token.clone(), class: "pair".into() };
                c06_eval(&c, r);
                if p != P::V3P || thorough || ai % 3 == 0 {
                    let c = C06Case { p, layer, key: key.clone(), footer: Some(f.clone()), supplied_footer: Some(f.clone()), built_ia: a.clone(), supplied_ia: Some(f.clone()).filter(|x| norm(&Some(x.clone())) != norm(a)), token: token.clone(), class: "pair".into() };
                    c06_eval(&c, r);
                }
            }
        }
    });
    total.merge(r);
    total.require("tokens built with footer==assertion", 20);
    total.require("tokens built with footer-contains-assertion", 20);

    // -------- not stored: length independence, absence of the bytes, identical nonce||ciphertext (core layer, fixed nonce)
    let mut rng = Rng::new(seed, "c06-store", 0);
    let mut r = Report::new();
    let ncheck = if thorough { 5000 } else { 60 };
    for &p in &protos {
        let key = pools.key(p, 0);
        for k in 0..ncheck {
            let nonce = rng.bytes(32);
            let msg = format!("{{\"n\":{}}}", k);
            let footer = if k % 2 == 0 { None } else { Some("ftr") };
            let n1 = 12 + rng.below(30);
            let a1 = rng.ascii_alnum(n1);
            let n2 = 12 + rng.below(60);
            let a2 = rng.ascii_alnum(n2);
            let t0 = core_seal(p, &key, &nonce, &msg, footer, None).0;
            let t1 = core_seal(p, &key, &nonce, &msg, footer, Some(&a1)).0;
            let t2 = core_seal(p, &key, &nonce, &msg, footer, Some(&a2)).0;
            r.evaluations += 1;
            let (t0, t1, t2) = match (t0, t1, t2) {
                (Out::Ok(a), Out::Ok(b), Out::Ok(c)) => (a, b, c),
                _ => {
                    r.inconclusive.push(format!("{}: could not seal for the storage check", p.name()));
                    continue;
                }
            };
            let witness = json!({"cmd": "C06-store", "case": {"p": p, "key": key, "nonce": util::hex(&nonce), "msg": msg, "footer": footer, "a1": a1, "a2": a2}});
            if t0.len() != t1.len() || t1.len() != t2.len() {
                r.violation(format!("C06 token-length-depends-on-assertion {}", p.name()), format!("{}: token lengths {} / {} / {} for assertions none / {:?} / {:?}", p.name(), t0.len(), t1.len(), t2.len(), a1, a2), witness.clone());
                continue;
            }
            r.count(&format!("{} length-independent", p.name()));
            let decoded = crate::c03::parts(p, &t1).map(|x| x.payload).unwrap_or_default();
            let mut found = None;
            let mut needles: Vec<Vec<u8>> = vec![a1.as_bytes().to_vec()];
            for shift in 0..3 {
                // base64url of the assertion at the three byte alignments (drop the boundary characters)
                let mut padded = vec![0u8; shift];
                padded.extend_from_slice(a1.as_bytes());
                let enc = util::b64(&padded);
                let skip = [0usize, 2, 3][shift];
                if enc.len() > skip + 3 {
                    needles.push(enc.as_bytes()[skip..enc.len() - 2].to_vec());
                }
            }
            for nd in &needles {
                if contains(t1.as_bytes(), nd) || contains(&decoded, nd) {
                    found = Some(String::from_utf8_lossy(nd).to_string());
                }
            }
            if let Some(f) = found {
                r.violation(format!("C06 assertion-bytes-in-token {}", p.name()), format!("{}: the assertion {:?} (or its base64url, as {:?}) occurs in the token {:?}", p.name(), a1, f, util::clip(&t1, 120)), witness.clone());
            } else {
                r.count(&format!("{} assertion-absent-from-token", p.name()));
                r.distinct(format!("{}|store|{}|{}", p.name(), footer.is_some(), n1));
            }
            if p.is_local() {
                // same key, nonce, message: nonce||ciphertext must not depend on the assertion, only the tag may
                let cut = |t: &str| crate::c03::parts(p, t).map(|x| x.payload[..x.payload.len().saturating_sub(p.trailer_len())].to_vec());
                if cut(&t0) != cut(&t1) || cut(&t1) != cut(&t2) {
                    r.violation(format!("C06 ciphertext-depends-on-assertion {}", p.name()), format!("{}: nonce||ciphertext differs between assertions for identical key/nonce/message", p.name()), witness.clone());
                } else {
                    r.count(&format!("{} ciphertext-independent", p.name()));
                }
                if t0 == t1 || t1 == t2 {
                    r.violation(format!("C06 tag-ignores-assertion {}", p.name()), format!("{}: tokens for different assertions are identical", p.name()), witness.clone());
                }
            }
            // re-split across a LENGTH PREFIX: if the PAE's LE64 were not injective for lengths n and n+128 (or n+256 ...),
            // F' = F || LE64(|A|) || A[..120] and A' = A[128..] would collide with (F, A) when A[120..128] reads as LE64(|A'|)
            for shift in [128usize, 256, 32768, 65536] {
                let rest_len = 40 + k % 7;
                let mut a_long: Vec<u8> = vec![b'x'; shift - 8];
                a_long.extend_from_slice(&(rest_len as u64).to_le_bytes());
                a_long.extend(std::iter::repeat(b'y').take(rest_len));
                // NUL bytes are legal in &str
                let a_str = match String::from_utf8(a_long.clone()) {
                    Ok(s) => s,
                    Err(_) => continue,
                };
                let f0 = "f0";
                let tokl = match core_seal(p, &key, &nonce, &msg, Some(f0), Some(&a_str)).0 {
                    Out::Ok(t) => t,
                    _ => continue,
                };
                // the length field of A that the new footer has to reproduce is whatever the implementation wrote: the true
                // LE64(|A|), or - if lengths n and n+shift share an encoding - the one of |A| - shift
                for a_len_field in [a_long.len() as u64, (a_long.len() - shift) as u64] {
                    let mut f2: Vec<u8> = f0.as_bytes().to_vec();
                    f2.extend_from_slice(&a_len_field.to_le_bytes());
                    f2.extend_from_slice(&a_long[..shift - 8]);
                    let (f2s, a2s) = match (String::from_utf8(f2.clone()), String::from_utf8(a_long[shift..].to_vec())) {
                        (Ok(x), Ok(y)) => (x, y),
                        _ => continue,
                    };
                    let segs: Vec<&str> = tokl.split('.').collect();
                    let tok2 = format!("{}.{}.{}.{}", segs[0], segs[1], segs[2], util::b64(&f2));
                    let c = C06Case { p, layer: Layer::Core, key: key.clone(), footer: Some(f0.into()), supplied_footer: Some(f2s), built_ia: Some(a_str.clone()), supplied_ia: Some(a2s), token: tok2, class: "length-prefix-re-split".into() };
                    c06_eval(&c, &mut r);
                }
            }
            // re-split attack: (F, A) -> (F', A') with F||A == F'||A'
            let f_txt = "footer-part";
            let a_txt = a1.as_str();
            let tok = match core_seal(p, &key, &nonce, &msg, Some(f_txt), Some(a_txt)).0 {
                Out::Ok(t) => t,
                _ => continue,
            };
            let whole = format!("{}{}", f_txt, a_txt);
            let segs: Vec<&str> = tok.split('.').collect();
            for split in [0usize, 1, f_txt.len() - 1, f_txt.len() + 1, whole.len() - 1, whole.len()] {
                if split == f_txt.len() {
                    continue;
                }
                let (f2, a2s) = whole.split_at(split);
                let tok2 = if f2.is_empty() { format!("{}.{}.{}", segs[0], segs[1], segs[2]) } else { format!("{}.{}.{}.{}", segs[0], segs[1], segs[2], util::b64(f2.as_bytes())) };
                let c = C06Case {
                    p,
                    layer: Layer::Core,
                    key: key.clone(),
                    footer: Some(f_txt.into()),
                    supplied_footer: if f2.is_empty() { None } else { Some(f2.into()) },
                    built_ia: Some(a_txt.into()),
                    supplied_ia: if a2s.is_empty() { None } else { Some(a2s.into()) },
                    token: tok2,
                    class: "re-split".into(),
                };
                c06_eval(&c, &mut r);
            }
        }
    }
    total.merge(r);
    // assertion LENGTH sweep (same lengths as the footer sweep of C05), with a footer present so that the assertion is
    // not the last PAE piece only by accident
    let lens: Vec<usize> = (0..=330usize).chain([65_535, 65_536, 65_537]).collect();
    let items: Vec<(P, Layer, usize)> = protos.iter().flat_map(|&p| lens.iter().filter(move |&&l| p != P::V3P || l <= 40 || l % 5 == 0).map(move |&l| (p, Layer::Core, l))).chain(lens.iter().flat_map(|&l| [(P::V4L, Layer::Generic, l), (P::V4P, Layer::Batteries, l)])).collect();
    let rl = parallel(items.len(), util::threads(), |i, r| {
        let (p, layer, len) = items[i];
        let mut rng = Rng::new(seed, "c06-len", i as u64);
        let key = pools.key(p, 0);
        let a: String = (0..len).map(|j| (b'a' + (j % 26) as u8) as char).collect();
        let built = if len == 0 { None } else { Some(a.clone()) };
        let footer = if i % 2 == 0 { Some("ftr") } else { None };
        let token = match seal_at(layer, p, &key, &mut rng, JSON_MSG, footer, built.as_deref()) {
            Out::Ok(t) => t,
            o => {
                r.inconclusive.push(format!("C06 length sweep: could not build for {} with a {}-byte assertion: {}", p.name(), len, o.brief()));
                return;
            }
        };
        let mut supplied: Vec<Option<String>> = vec![built.clone(), Some(format!("{}x", a))];
        if len > 0 {
            supplied.push(if len == 1 { None } else { Some(a[..len - 1].to_string()) });
            // same length, only the LAST byte (resp. the last eight) different
            supplied.push(Some(format!("{}#", &a[..len - 1])));
            if len >= 8 {
                supplied.push(Some(format!("{}########", &a[..len - 8])));
            }
        }
        for sa in supplied {
            let c = C06Case { p, layer, key: key.clone(), footer: footer.map(|x| x.to_string()), supplied_footer: footer.map(|x| x.to_string()), built_ia: built.clone(), supplied_ia: sa, token: token.clone(), class: "pair".into() };
            c06_eval(&c, r);
        }
        r.count("assertion length sweep");
    });
    total.merge(rl);
    total.require("assertion length sweep", 1000);
    let mut rs = Report::new();
    let _ = recent_sessions_take();
    c06_sessions(&pools, &mut rs);
    let cases = recent_sessions_take();
    nested_pairs("C06", &cases, if thorough { 2000 } else { 160 }, seed, &mut rs);
    rs.require("nested parser pairs: both answer as alone", 60);
    builder_reuse("C06", &pools, &mut rs);
    builder_assertion_changes(&pools, &mut rs);
    piece_swaps("C06", &pools, seed, &mut rs);
    total.merge(rs);
    for &p in &protos {
        total.require(&format!("{}/generic session parses as expected", p.name()), 16);
        total.require(&format!("{}/batteries builder reused: token #3 bound as configured", p.name()), 1);
        for l in LAYERS {
            total.require(&format!("{}/{} accepted-equal-assertion", p.name(), l.name()), 30);
            total.require(&format!("{}/{} rejected-different-assertion", p.name(), l.name()), 100);
        }
        total.require(&format!("{} assertion-absent-from-token", p.name()), 30);
        total.require(&format!("{} length-independent", p.name()), 30);
    }
    total
}

pub fn replay_c06(case: &Value) -> Report {
    let mut r = Report::new();
    match serde_json::from_value::<C06Case>(case.clone()) {
        Ok(c) => c06_eval(&c, &mut r),
        Err(e) => r.inconclusive.push(format!("cannot decode replay case (storage-check witnesses are re-derived by re-running the check): {}", e)),
    }
    r
}

pub const RULE_C06: &str = "v3/v4 local/public x 3 layers x assertion catalogue (none, empty, 40 strings with near-miss pairs): a token is built with assertion A through that layer's builder and presented to that layer's parser with every A' of the catalogue; oracle: accept iff A' == A (none == empty). Plus swaps of the assertion with the footer ((footer X, no assertion) presented as (no footer, assertion X) and vice versa, with small, 9 000-byte and 70 000-byte messages). Plus ONE builder whose assertion is changed between builds (A, empty, B, blank, empty): each token opens with the assertion in force and with no other. Plus an assertion LENGTH sweep (0..=330, 65535..65537; same / one byte shorter / one byte longer / same length with the last byte or last eight bytes changed). Plus parser sessions (assertion changed between parses) and 160 (thorough 2000) NESTED pairs of them (two parser objects alive at once on one thread); the assertion supplied as footer instead; for 60 (thorough 400) random assertions of >= 12 base64-alphabet characters per protocol with a FIXED nonce: token length equal for none / A / A', A (raw and base64url at the three byte alignments) absent from the token text and decoded payload, nonce||ciphertext identical across assertions (local), tokens differ across assertions; re-split attack (F,A)->(F',A') with F||A == F'||A' at six split points, and across a LENGTH PREFIX (F' = F || len(A) || A[..d-8], A' = A[d..] with A[d-8..d] = LE64(|A'|), d in {128, 256, 32768, 65536}, len(A) written as LE64(|A|) and as LE64(|A|-d): collides iff the PAE length encoding is not injective). distinct_nontrivial = distinct (protocol, layer, class, built class, supplied class); plus footers RELATED to the assertion (equal, containing it, contained in it), tokens with a footer presented with NO footer and another assertion, claim-less generic builders, and a batteries builder used again after a REFUSED build";

// ==========================================================================================
// C07
// ==========================================================================================
#[derive(Clone, Debug, Serialize, Deserialize)]
pub struct C07Case {
    pub x: P,
    pub y: P,
    pub layer: Layer,
    pub ykey: KeyMat,
    pub token: String,
    pub footer: Option<String>,
    pub ia: Option<String>,
    pub class: String,
}

fn c07_eval(c: &C07Case, r: &mut Report) {
    r.evaluations += 1;
    let tag = format!("{}->{}/{}", c.x.name(), c.y.name(), c.layer.name());
    let ia = if c.y.has_assertion() { c.ia.as_deref() } else { None };
    let out = open_any(c.layer, c.y, &c.ykey, &c.token, c.footer.as_deref(), ia);
    let replay = || json!({"cmd": "C07", "case": c});
    match &out {
        Out::Ok(x) => r.violation(
            format!("C07 cross-protocol-accepted {}->{} class={}", c.x.name(), c.y.name(), c.class),
            format!("{}: a {} token ({}) was ACCEPTED by the {} entry point, returning {:?}; token {:?}", tag, c.x.name(), c.class, c.y.name(), util::clip(x, 60), util::clip(&c.token, 100)),
            replay(),
        ),
        Out::Panic(loc) => r.violation(format!("C07 panic {}->{}", c.x.name(), c.y.name()), format!("{}: panic: {}", tag, loc), replay()),
        Out::Err(e) => {
            r.count(&format!("{} rejected[{}]", c.layer.name(), c.class.split('+').next().unwrap_or("")));
            r.count(&format!("pair {}->{}", c.x.name(), c.y.name()));
            r.see(&format!("rejection-variants {}", c.class.split('+').next().unwrap_or("")), e);
            r.distinct(format!("{}|{}|{}", tag, c.class, e));
            if is_plaintext_error(e) {
                r.violation(format!("C07 plaintext-error {}->{} err={}", c.x.name(), c.y.name(), e), format!("{}: cross-protocol token surfaced as {}", tag, e), replay());
            }
        }
    }
    if r.samples.len() < 8 && r.evaluations % 131 == 5 {
        r.sample(json!({"token_protocol": c.x.name(), "presented_to": format!("{}/{}", c.y.name(), c.layer.name()), "class": c.class, "token": util::clip(&c.token, 60), "outcome": out.brief()}));
    }
}

pub fn run_c07(tier: &str, seed: u64) -> Report {
    let thorough = tier == "thorough";
    let pools = Pools::new(seed, 4, 2);
    let mut total = Report::new();
    if pools.rsa.is_empty() {
        total.inconclusive.push("no RSA key fixtures found".into());
        return total;
    }
    let ntok = if thorough { 3000 } else { 90 };
    let mut items: Vec<(P, P)> = Vec::new();
    for &x in &ALL {
        for &y in &ALL {
            if x != y {
                items.push((x, y));
            }
        }
    }
    let r = parallel(items.len(), util::threads(), |i, r| {
        let (x, y) = items[i];
        let mut rng = Rng::new(seed, "c07", i as u64);
        for t in 0..ntok {
            // shared key material wherever the types allow it
            let sym = pools.sym[t % pools.sym.len()];
            let ed = pools.ed[t % pools.ed.len()].clone();
            let xkey = match x {
                P::V2P | P::V4P => ed.clone(),
                _ if x.is_local() => KeyMat::sym(sym),
                _ => pools.key(x, t),
            };
            let footer = [None, Some("ftr")][t % 2];
            let ia = if x.has_assertion() && t % 3 == 0 { Some("ia") } else { None };
            // message lengths: the bodies of foreign tokens line up with Y's nonce/tag/signature layout at particular lengths
            // (empty, 16, 24, 32, 40, 48, 64 ... bytes), so those are driven explicitly besides JSON messages
            const EDGE: [usize; 16] = [0, 1, 16, 24, 32, 40, 48, 64, 80, 96, 160, 192, 208, 256, 300, 1000];
            // ... and a few LARGE JSON messages (beyond any size threshold that switches to another verification path)
            const LARGE: [usize; 5] = [4200, 9000, 65_500, 65_536, 70_000];
            let msg = match t % 3 {
                0 if t % 18 == 0 => format!("{{\"pad\":\"{}\",\"exp\":\"2999-01-01T00:00:00+00:00\"}}", "p".repeat(LARGE[(t / 18) % LARGE.len()])),
                0 => JSON_MSG.to_string(),
                1 => "x".repeat(EDGE[(t / 3) % EDGE.len()]),
                _ => format!("{{\"n\":\"{}\"}}", "m".repeat(t * 7 % 150)),
            };
            let token = match core_seal(x, &xkey, &rng.bytes(32), &msg, footer, ia).0 {
                Out::Ok(t) => t,
                o => {
                    r.inconclusive.push(format!("could not build a {} token: {}", x.name(), o.brief()));
                    continue;
                }
            };
            // the token is first accepted by its OWN protocol (as in real use: a verified token is replayed elsewhere)
            match core_open(x, &xkey, &token, footer, ia).0 {
                Out::Ok(m) if m == msg => r.count("authentic tokens first opened by their own protocol"),
                o => {
                    r.inconclusive.push(format!("{} token does not open under its own protocol (see C01/C02): {}", x.name(), o.brief()));
                    continue;
                }
            }
            // candidate keys for Y
            let mut ykeys: Vec<(KeyMat, &str)> = Vec::new();
            match y {
                P::V1L | P::V2L | P::V3L | P::V4L => {
                    if x.is_local() {
                        ykeys.push((KeyMat::sym(sym), "same-key-bytes"));
                    } else {
                        // public key / private seed bytes reused as symmetric key
                        let mut k = [0u8; 32];
                        let src = if xkey.pk.len() >= 32 { &xkey.pk[xkey.pk.len() - 32..] } else { &sym[..] };
                        k.copy_from_slice(src);
                        ykeys.push((KeyMat::sym(k), "public-key-bytes-as-symmetric-key"));
                        ykeys.push((KeyMat::sym(sym), "pool-key"));
                    }
                }
                P::V2P | P::V4P => {
                    if matches!(x, P::V2P | P::V4P) {
                        ykeys.push((ed.clone(), "same-key-pair"));
                    } else {
                        ykeys.push((ed.clone(), "pool-key"));
                        if x.is_local() {
                            ykeys.push((KeyMat::pair(vec![], sym.to_vec()), "symmetric-key-bytes-as-ed25519-public-key"));
                        }
                    }
                }
                P::V3P => {
                    ykeys.push((pools.key(P::V3P, t), "pool-key"));
                    if x.is_local() {
                        let mut pk = vec![2u8; 1];
                        pk.extend_from_slice(&[0u8; 16]);
                        pk.extend_from_slice(&sym);
                        ykeys.push((KeyMat::pair(vec![], pk), "symmetric-key-bytes-as-p384-x-coordinate"));
                    }
                }
                P::V1P => ykeys.push((pools.key(P::V1P, t), "pool-key")),
            }
            let body = token.splitn(3, '.').nth(2).unwrap_or("").to_string();
            let relabelled = format!("{}{}", y.header(), body);
            for (yk, kclass) in &ykeys {
                for layer in LAYERS {
                    for (tok, tclass) in [(&token, "verbatim"), (&relabelled, "relabelled")] {
                        let c = C07Case { x, y, layer, ykey: yk.clone(), token: tok.clone(), footer: footer.map(|s| s.to_string()), ia: ia.map(|s| s.to_string()), class: format!("{}+{}", tclass, kclass) };
                        c07_eval(&c, r);
                    }
                }
            }
            // Y's OWN authentic token (same message, footer, assertion), with its header text replaced by X's: a token whose
            // header names X must be refused by Y even though everything below the header is Y's own
            let yown = match y {
                P::V2P | P::V4P => ed.clone(),
                _ if y.is_local() => KeyMat::sym(sym),
                _ => pools.key(y, t),
            };
            let ia_y = if y.has_assertion() && t % 3 == 0 { Some("ia") } else { None };
            if let Out::Ok(ty) = core_seal(y, &yown, &rng.bytes(32), &msg, footer, ia_y).0 {
                let body = ty.splitn(3, '.').nth(2).unwrap_or("").to_string();
                let named_x = format!("{}{}", x.header(), body);
                for layer in LAYERS {
                    let c = C07Case { x, y, layer, ykey: yown.clone(), token: named_x.clone(), footer: footer.map(|s| s.to_string()), ia: ia_y.map(|s| s.to_string()), class: "own-token-under-foreign-header+own-key".to_string() };
                    c07_eval(&c, r);
                }
                r.count("own tokens presented under a foreign header");
            } else {
                r.inconclusive.push(format!("could not build a {} token for the foreign-header class", y.name()));
            }
        }
    });
    total.merge(r);
    total.require("own tokens presented under a foreign header", 1000);
    for &x in &ALL {
        for &y in &ALL {
            if x != y {
                total.require(&format!("pair {}->{}", x.name(), y.name()), 20);
            }
        }
    }
    total
}

pub fn replay_c07(case: &Value) -> Report {
    let mut r = Report::new();
    match serde_json::from_value::<C07Case>(case.clone()) {
        Ok(c) => c07_eval(&c, &mut r),
        Err(e) => r.inconclusive.push(format!("cannot decode replay case: {}", e)),
    }
    r
}

pub const RULE_C07: &str = "all 56 ordered pairs (X,Y) of the 8 protocols (exhaustive) x 90 (thorough 3000) authentic X tokens (footer none/text, assertion none/text; JSON messages (incl. large ones of 4 200 .. 70 000 bytes) and messages of 0,1,16,24,32,40,48,64,80,96,160,192,208,256,300,1000 bytes so that foreign bodies line up with (or exceed) Y's nonce/tag/signature layout), each first opened by its own protocol, x {verbatim, header text rewritten to Y's} x {core, generic, batteries} entry points of Y (plus Y's OWN authentic token, same message/footer/assertion, with its header text rewritten to X's), with key material shared wherever the types allow (same 32 bytes for v1-v4 local, same Ed25519 pair for v2/v4 public, symmetric key bytes reused as Ed25519 public key and as P-384 x-coordinate, public key bytes reused as symmetric key) and Y's own pool key otherwise; oracle: any Ok is a violation. distinct_nontrivial = distinct (X, Y, layer, verbatim|relabelled + key class, rejection variant)";
