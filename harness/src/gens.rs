//! Shared workload vocabulary (DESIGN.md section 2): string catalogues, key pools, JSON trees.
use crate::proto::{KeyMat, Native, P};
use crate::rng::Rng;
use serde_json::{json, Map, Number, Value};

pub fn fixtures_dir() -> String {
    std::env::var("VERIF_FIXTURES").unwrap_or_else(|_| "/verif/fixtures".to_string())
}

// ------------------------------------------------------------------------------------------
// strings
// ------------------------------------------------------------------------------------------
pub const BOUNDARY_LENGTHS: &[usize] = &[
    0, 1, 2, 3, 15, 16, 17, 31, 32, 33, 47, 48, 49, 63, 64, 65, 95, 96, 97, 127, 128, 129, 191, 192, 193, 255, 256, 257, 511, 512, 513, 1023, 1024, 1025, 2047, 2048, 2049, 4095, 4096, 4097,
];
pub const BIG_LENGTHS: &[usize] = &[8191, 8192, 8193, 16383, 16384, 16385, 32767, 32768, 32769, 65535, 65536, 65537];
pub const HUGE_LENGTHS: &[usize] = &[262_144, 1_048_576, 1_048_577];

/// ASCII filler of exactly `n` bytes with position-dependent content
pub fn ascii_of_len(n: usize, salt: u8) -> String {
    (0..n).map(|i| (b'a' + ((i as u8).wrapping_mul(7).wrapping_add(salt) % 26)) as char).collect()
}

/// UTF-8 string of exactly `n` bytes mixing multi-byte code points (padded with ASCII to hit n)
pub fn utf8_of_len(n: usize, rng: &mut Rng) -> String {
    let mut s = String::with_capacity(n);
    let pool = ['é', 'ß', '€', '漢', '\u{1F980}', '\u{10FFFF}', 'a', '\u{0}', '.', '"', '\\', '\u{301}', '\u{202e}'];
    loop {
        let c = *rng.pick(&pool);
        if s.len() + c.len_utf8() > n {
            break;
        }
        s.push(c);
    }
    while s.len() < n {
        s.push('x');
    }
    s
}

/// content-class catalogue (name, string)
pub fn content_catalogue() -> Vec<(&'static str, String)> {
    vec![
        ("empty", String::new()),
        ("one-byte", "a".into()),
        ("ascii", "The quick brown fox jumps over the lazy dog".into()),
        ("json", r#"{"data":"this is a signed message","exp":"2022-01-01T00:00:00+00:00"}"#.into()),
        ("two-byte", "é".into()),
        ("three-byte", "€漢字".into()),
        ("four-byte", "\u{1F980}\u{1F600}".into()),
        ("max-codepoint", "\u{10FFFF}".into()),
        ("combining", "e\u{301}".into()),
        ("precomposed", "\u{e9}".into()),
        ("rtl", "\u{202e}abc\u{202c} עברית".into()),
        ("nul", "a\0b".into()),
        ("nul-only", "\0".into()),
        ("dot", "a.b.c".into()),
        ("dots-only", "...".into()),
        ("b64url-looking", "QUJDRA".into()),
        ("b64url-alphabet", "-_-_AZaz09".into()),
        ("token-looking", "v4.local.AAAAAAAAAAAAAAAAAAAAAAAAAAAAAAAAAAAAAAAAAAAQAr68PS4AXe7If_Zges".into()),
        ("trailing-space", "abc ".into()),
        ("leading-space", " abc".into()),
        ("upper", "ABC".into()),
        ("lower", "abc".into()),
        ("newline", "line1\nline2\r\n".into()),
        ("quote-backslash", "\"\\\"\\\\".into()),
        ("control", "\u{1}\u{2}\u{7f}".into()),
        ("bom", "\u{feff}x".into()),
        ("surrogate-adjacent", "\u{d7ff}\u{e000}".into()),
    ]
}

/// footer/assertion catalogue with near-miss pairs (prefix/extension, case, last base64 char, NUL suffix, normalisation)
pub fn footer_catalogue() -> Vec<String> {
    let mut v: Vec<String> = vec![
        "".into(),
        "a".into(),
        "b".into(),
        "A".into(),
        "aa".into(),
        "ab".into(),
        "abc".into(),
        "abcd".into(),
        "abcde".into(),
        "abc ".into(),
        " abc".into(),
        "ABC".into(),
        "abc\0".into(),
        "\0".into(),
        "\0\0".into(),
        "e\u{301}".into(),
        "\u{e9}".into(),
        "{\"kid\":\"zVhMiPBP9fRf2snEcT7gFTioeA9COcNy9DfgL1W60haN\"}".into(),
        "{\"kid\":\"zVhMiPBP9fRf2snEcT7gFTioeA9COcNy9DfgL1W60haO\"}".into(),
        "{\"kid\":\"zVhMiPBP9fRf2snEcT7gFTioeA9COcNy9DfgL1W60haN\"} ".into(),
        "arbitrary-string-that-isn't-json".into(),
        // footers with JSON structure: the library treats a footer as opaque text, whatever it looks like
        "{\"kid\":\"k\",\"ctx\":{\"roles\":[\"admin\"]}}".into(),
        "{\"kid\":\"x\",\"note\":\"see [[wiki]] {{x}} ]]}}\"}".into(),
        format!("{{\"a\":{}1{}}}", "[".repeat(20), "]".repeat(20)),
        format!("{}1{}", "{\"a\":".repeat(18), "}".repeat(18)),
        format!("{{\"keys\":[{}]}}", (0..24).map(|i| format!("[{}]", i)).collect::<Vec<_>>().join(",")),
        format!("{{{}}}", (0..600).map(|i| format!("\"k{}\":{}", i, i)).collect::<Vec<_>>().join(",")),
        "{not json".into(),
        "[1,2".into(),
        "a.b".into(),
        ".".into(),
        "..".into(),
        "YQ".into(),  // base64url("a")
        "YWJj".into(), // base64url("abc")
        "\u{1F980}".into(),
        "\u{1F981}".into(),
        "漢".into(),
        "=".into(),
        "a=".into(),
        "+/".into(),
        "-_".into(),
        "\u{7f}".into(),
        "\u{80}".into(),
        // base64 of these uses the sextets 62/63 ('-' '_' in base64url, '+' '/' in standard base64)
        "ab?".into(),
        "id>42".into(),
        "~~~".into(),
        "???>>>".into(),
        "\u{bf}\u{ff}".into(),
        "{\"jku\":\"https://example.com/keys?id=1~2\"}".into(),
        // U+FFFD itself (what a lossy UTF-8 decoder produces for every invalid sequence)
        "kid:\u{FFFD}7".into(),
        "\u{FFFD}".into(),
        // blank but NOT empty
        " ".into(),
        "  ".into(),
        "\n".into(),
        "\t".into(),
        "\r\n".into(),
        "\u{3000}".into(),
        "\u{a0}".into(),
        "\u{200b}".into(),
        // long: anything that encodes into a fixed-size buffer somewhere must cope
        ascii_of_len(192, 4),
        ascii_of_len(193, 4),
        ascii_of_len(768, 5),
        ascii_of_len(769, 5),
        ascii_of_len(4096, 6),
    ];
    // strings whose base64 differs only in the last character: same length, last byte differs in low bits
    v.push("xyz0".into());
    v.push("xyz1".into());
    v.push("xyz2".into());
    v.push(ascii_of_len(64, 1));
    v.push(ascii_of_len(65, 1));
    v.push(ascii_of_len(1024, 2));
    v
}

// ------------------------------------------------------------------------------------------
// keys
// ------------------------------------------------------------------------------------------
pub fn official_sym() -> [u8; 32] {
    let mut k = [0u8; 32];
    for (i, b) in k.iter_mut().enumerate() {
        *b = 0x70 + i as u8;
    }
    k
}

pub fn sym_catalogue(rng: &mut Rng, nrandom: usize) -> Vec<[u8; 32]> {
    let mut v = vec![[0u8; 32], [0xffu8; 32], official_sym(), *b"wubbalubbadubdubwubbalubbadubdub"];
    let mut c = [0u8; 32];
    for (i, b) in c.iter_mut().enumerate() {
        *b = i as u8;
    }
    v.push(c);
    for _ in 0..nrandom {
        v.push(rng.arr32());
    }
    v
}

pub fn ed25519_from_seed(seed: &[u8; 32]) -> KeyMat {
    let sk = ed25519_dalek::SigningKey::from_bytes(seed);
    let pk = sk.verifying_key().to_bytes();
    let mut kp = seed.to_vec();
    kp.extend_from_slice(&pk);
    KeyMat::pair(kp, pk.to_vec())
}

pub fn p384_from_seed(seed: &[u8; 48]) -> Option<KeyMat> {
    use p384::elliptic_curve::sec1::ToEncodedPoint;
    let sk = p384::SecretKey::from_slice(seed).ok()?;
    let pk = sk.public_key().to_encoded_point(true);
    Some(KeyMat::pair(seed.to_vec(), pk.as_bytes().to_vec()))
}

pub fn official_ed25519() -> KeyMat {
    let sk = crate::util::unhex("b4cbfb43df4ce210727d953e4a713307fa19bb7d9f85041438d9e11b942a37741eb9dbbbbc047c03fd70604e0071f0987e16b28b757225c11f00415d0e20b1a2").unwrap();
    let pk = sk[32..].to_vec();
    KeyMat::pair(sk, pk)
}
pub fn official_p384() -> KeyMat {
    KeyMat::pair(
        crate::util::unhex("20347609607477aca8fbfbc5e6218455f3199669792ef8b466faa87bdc67798144c848dd03661eed5ac62461340cea96").unwrap(),
        crate::util::unhex("02fbcb7c69ee1c60579be7a334134878d9c5c5bf35d552dab63c0140397ed14cef637d7720925c44699ea30e72874c72fb").unwrap(),
    )
}

/// RSA-2048 pairs: the official vector pair plus the fixture pool generated by refpaseto (rsa_<n>_private.pk8 / rsa_<n>_public.der)
pub fn rsa_pool() -> Vec<KeyMat> {
    let d = fixtures_dir();
    let mut v = Vec::new();
    let rd = |n: &str| std::fs::read(format!("{}/{}", d, n)).ok();
    if let (Some(sk), Some(pk)) = (rd("rsa_official_private.pk8"), rd("rsa_official_public.der")) {
        v.push(KeyMat::pair(sk, pk));
    }
    for i in 0..16 {
        if let (Some(sk), Some(pk)) = (rd(&format!("rsa_{}_private.pk8", i)), rd(&format!("rsa_{}_public.der", i))) {
            v.push(KeyMat::pair(sk, pk));
        }
    }
    v
}

/// Key pools per protocol.  Pool index 0 is always the official vector key.
pub struct Pools {
    pub sym: Vec<[u8; 32]>,
    pub ed: Vec<KeyMat>,
    pub p384: Vec<KeyMat>,
    pub rsa: Vec<KeyMat>,
}

impl Pools {
    pub fn new(seed: u64, n_ed: usize, n_p384: usize) -> Pools {
        let mut rng = Rng::new(seed, "pools", 0);
        let sym = sym_catalogue(&mut rng, 8);
        let mut ed = vec![official_ed25519()];
        for _ in 0..n_ed {
            ed.push(ed25519_from_seed(&rng.arr32()));
        }
        let mut p384 = vec![official_p384()];
        while p384.len() < n_p384 + 1 {
            let mut s = [0u8; 48];
            s.copy_from_slice(&rng.bytes(48));
            if let Some(k) = p384_from_seed(&s) {
                p384.push(k);
            }
        }
        Pools { sym, ed, p384, rsa: rsa_pool() }
    }
    pub fn count(&self, p: P) -> usize {
        match p {
            P::V1L | P::V2L | P::V3L | P::V4L => self.sym.len(),
            P::V2P | P::V4P => self.ed.len(),
            P::V3P => self.p384.len(),
            P::V1P => self.rsa.len(),
        }
    }
    pub fn key(&self, p: P, i: usize) -> KeyMat {
        match p {
            P::V1L | P::V2L | P::V3L | P::V4L => KeyMat::sym(self.sym[i % self.sym.len()]),
            P::V2P | P::V4P => self.ed[i % self.ed.len()].clone(),
            P::V3P => self.p384[i % self.p384.len()].clone(),
            P::V1P => self.rsa[i % self.rsa.len()].clone(),
        }
    }
}

// ------------------------------------------------------------------------------------------
// JSON trees (value domain restricted as C14 states: exact short decimals, no NaN/inf)
// ------------------------------------------------------------------------------------------
pub fn json_scalar(rng: &mut Rng) -> Value {
    // now and then: number forms and strings with a special place in JSON / JavaScript
    if rng.chance(1, 12) {
        return match rng.below(12) {
            0 => json!(100.0),                // prints 100.0, reads back a float
            1 => json!(-0.0),
            2 => json!(1e21),                 // prints 1e21
            3 => json!(1e-7),
            4 => json!(9007199254740993u64),  // 2^53 + 1: exact as an integer, not as a double
            5 => json!(-9007199254740993i64),
            6 => json!(9223372036854775808u64), // i64::MAX + 1
            7 => json!("\u{2028}line\u{2029}sep"),
            8 => json!("</script>\u{7f}\u{85}/\\/"),
            9 => json!("\u{feff}bom-first"),
            10 => json!("1e2"),
            _ => json!("\\u0041 \\n literal backslashes"),
        };
    }
    match rng.below(14) {
        0 => Value::Null,
        1 => json!(true),
        2 => json!(false),
        3 => json!(0),
        4 => json!(i64::MAX),
        5 => json!(i64::MIN),
        6 => json!(u64::MAX),
        7 => json!(-(rng.below(1_000_000) as i64)),
        8 => json!(rng.next() >> rng.below(64)),
        9 => {
            // exact short decimal k/10^d
            let k = rng.below(2_000_000) as i64 - 1_000_000;
            let d = rng.below(7) as u32;
            let s = decimal_string(k, d);
            let f: f64 = s.parse().unwrap();
            Number::from_f64(f).map(Value::Number).unwrap_or(Value::Null)
        }
        10 => json!(""),
        11 => {
            let cat = content_catalogue();
            json!(cat[rng.below(cat.len())].1)
        }
        12 => {
            let n = rng.below(40);
            json!(rng.utf8(n))
        }
        _ => {
            let n = rng.below(12);
            json!(rng.ascii_alnum(n))
        }
    }
}

pub fn decimal_string(k: i64, d: u32) -> String {
    let neg = k < 0;
    let a = k.unsigned_abs();
    let p = 10u64.pow(d);
    let s = if d == 0 { format!("{}", a) } else { format!("{}.{:0width$}", a / p, a % p, width = d as usize) };
    if neg {
        format!("-{}", s)
    } else {
        s
    }
}

/// Pairs of DIFFERENT keys that collide under common non-cryptographic hashes (FNV-1/FNV-1a 32, the 31-multiplier string
/// hash, djb2, CRC-32, byte sum / xor) or that coincide after truncation (to 8, 16, 32, 64, 255 bytes; char -> u8 / u16),
/// Unicode normalisation or at an embedded NUL.  A claim map or duplicate detector keyed by anything less than the full
/// key confuses exactly such pairs; random keys practically never hit one.
pub fn colliding_key_pairs() -> Vec<(String, String)> {
    let mut v: Vec<(String, String)> = [
        ("liquid", "costarring"), ("declinate", "macallums"), ("altarage", "zinke"), ("altarages", "zinkes"), ("session_name_plan", "workspace_hash_user"),
        ("creamwove", "quists"),
        ("Aa", "BB"), ("AaAa", "BBBB"), ("AaBB", "BBAa"), ("polygenelubricants", "GydZG_"), ("Ea", "FB"),
        ("hetairas", "mentioner"), ("heliotropes", "neurospora"), ("depravement", "serafins"), ("stylist", "subgenera"), ("joyful", "synaphea"), ("redescribed", "urites"), ("dram", "vivency"),
        ("plumless", "buckeroo"), ("codding", "gnu"), ("exhibiters", "schlager"),
        ("listen", "silent"), ("ab", "ba"), ("ad", "bc"),
        ("e\u{301}", "\u{e9}"), ("k\u{161}", "ka"), ("k\u{10061}", "ka"), ("k\u{10061}", "k\u{61}\u{0}"), ("key\0one", "key\0two"), ("key", "key\0"), ("K", "\u{212a}"),
    ]
    .iter()
    .map(|(a, b)| (a.to_string(), b.to_string()))
    .collect();
    for n in [8usize, 16, 32, 64, 255, 256] {
        let stem = "p".repeat(n);
        v.push((format!("{}-first", stem), format!("{}-second", stem)));
        v.push((stem.clone(), format!("{}x", stem)));
    }
    v
}

pub fn json_key(rng: &mut Rng) -> String {
    match rng.below(12) {
        0 => "a".into(),
        1 => "data".into(),
        2 => "k\"q".into(),
        3 => "back\\slash".into(),
        4 => "nul\0key".into(),
        5 => "\u{1F980}".into(),
        6 => "é".into(),
        7 => " spaced key ".into(),
        8 => rng.utf8_1upto(12),
        9 => {
            let n = 1 + rng.below(8);
            rng.ascii_alnum(n)
        }
        10 => "exp".into(), // reserved names are legal as NESTED member names
        _ => ascii_of_len(200, 3),
    }
}

pub fn json_tree(rng: &mut Rng, depth: usize) -> Value {
    if depth == 0 || rng.chance(2, 5) {
        return json_scalar(rng);
    }
    if rng.chance(1, 2) {
        let n = rng.below(5);
        Value::Array((0..n).map(|_| json_tree(rng, depth - 1)).collect())
    } else {
        let n = rng.below(5);
        let mut m = Map::new();
        for _ in 0..n {
            let k = json_key(rng);
            let v = json_tree(rng, depth - 1);
            m.insert(k, v);
        }
        Value::Object(m)
    }
}

pub fn native(rng: &mut Rng, depth: usize) -> Native {
    match rng.below(18) {
        0 => Native::Str(rng.utf8_upto(20)),
        1 => Native::I64(rng.next() as i64),
        2 => Native::U64(rng.next()),
        3 => Native::Bool(rng.chance(1, 2)),
        4 => {
            let k = rng.below(2_000_000) as i64 - 1_000_000;
            let d = rng.below(7) as u32;
            Native::F64(decimal_string(k, d).parse().unwrap())
        }
        5 => {
            if rng.chance(1, 2) {
                // a short decimal that is NOT exactly representable in binary, as f32 (alone or inside containers)
                let d = 1 + rng.below(3) as u32;
                let mut k = rng.below(200_000) as i64 - 100_000;
                if k % 10 == 0 {
                    k += 3;
                }
                Native::F32(decimal_string(k, d).parse().unwrap())
            } else {
                Native::Unit
            }
        }
        6 => Native::OptNone,
        7 => Native::OptSome(rng.next() as i32),
        8 => Native::VecI((0..rng.below(5)).map(|_| rng.next() as i64).collect()),
        9 => Native::VecS((0..rng.below(4)).map(|_| rng.utf8_upto(8)).collect()),
        10 => Native::Tuple(rng.next() as i32, rng.utf8_upto(8), rng.chance(1, 2)),
        11 | 12 => Native::Struct {
            id: rng.next() as u32,
            name: rng.utf8_upto(10),
            tags: (0..rng.below(3)).map(|_| rng.alnum_upto(6)).collect(),
            inner: if depth > 0 && rng.chance(1, 2) { Some(Box::new(native(rng, depth - 1))) } else { None },
        },
        13 => Native::Map((0..rng.below(4)).map(|_| (json_key(rng), rng.next() as i64)).collect()),
        14 => Native::EnumUnit,
        15 => Native::EnumNewtype(rng.next() as i64),
        16 => Native::EnumStruct { a: rng.next() as u8, b: rng.utf8_upto(8) },
        _ => {
            if rng.chance(1, 2) {
                Native::Char(*rng.pick(&['a', 'é', '\u{1F980}', '\0', '"']))
            } else {
                Native::Bytes(rng.bytes_upto(6))
            }
        }
    }
}
