#!/bin/sh
# Run once after a fresh restore, offline: builds the harness against /repo (hooks on).
# Everything else (C20 worker dirs, release profile) is built on demand by ./check.
set -e
cd "$(dirname "$0")"
export CARGO_NET_OFFLINE=true
python3 - <<'PY'
import sys
sys.path.insert(0, '.')
from vlib import hcheck
exe, msg = hcheck.build_harness()
if exe is None:
    print(msg)
    sys.exit(1)
print("harness built:", exe)
PY
python3 refpaseto/selftest.py
