//! C09 (thorough) — workload for the Miri interpreter: undefined behaviour, out-of-bounds and invalid-pointer
//! detection in the pure-Rust parts of the code that handles untrusted token text (token splitting, header
//! check, base64, length checks, XChaCha20-Poly1305 / Ed25519 verification, JSON claim handling).
//! Miri cannot cross the C/asm FFI of `ring`, so only ring-free paths are driven:
//!   * v2.local decrypt, v2.public / v4.public verify, at the core, generic and batteries layers: everything;
//!   * the other protocols: 3-segment inputs that are rejected before any `ring` call
//!     (wrong header, invalid base64, payload shorter than nonce+tag / signature).
//! Prints "MIRI-OK calls=<n> ok=<n> err=<n>"; a panic is reported as "MIRI-PANIC ..." and exit code 1.
use rusty_paseto::prelude::*;
use std::panic::{catch_unwind, AssertUnwindSafe};

const ED_SK: [u8; 64] = [
    0xb4, 0xcb, 0xfb, 0x43, 0xdf, 0x4c, 0xe2, 0x10, 0x72, 0x7d, 0x95, 0x3e, 0x4a, 0x71, 0x33, 0x07, 0xfa, 0x19, 0xbb, 0x7d, 0x9f, 0x85, 0x04, 0x14, 0x38, 0xd9, 0xe1, 0x1b, 0x94, 0x2a, 0x37, 0x74, 0x1e,
    0xb9, 0xdb, 0xbb, 0xbc, 0x04, 0x7c, 0x03, 0xfd, 0x70, 0x60, 0x4e, 0x00, 0x71, 0xf0, 0x98, 0x7e, 0x16, 0xb2, 0x8b, 0x75, 0x72, 0x25, 0xc1, 0x1f, 0x00, 0x41, 0x5d, 0x0e, 0x20, 0xb1, 0xa2,
];

struct Tally {
    /// shard i of n: only every n-th call is executed (the interpreter is single-threaded; shards run as separate processes)
    shard: (u64, u64),
    seen: u64,
    calls: u64,
    ok: u64,
    err: u64,
    panics: u64,
}

fn b64(data: &[u8]) -> String {
    const A: &[u8; 64] = b"ABCDEFGHIJKLMNOPQRSTUVWXYZabcdefghijklmnopqrstuvwxyz0123456789-_";
    let mut s = String::new();
    for c in data.chunks(3) {
        let n = (c[0] as u32) << 16 | (*c.get(1).unwrap_or(&0) as u32) << 8 | *c.get(2).unwrap_or(&0) as u32;
        s.push(A[(n >> 18) as usize & 63] as char);
        s.push(A[(n >> 12) as usize & 63] as char);
        if c.len() > 1 {
            s.push(A[(n >> 6) as usize & 63] as char);
        }
        if c.len() > 2 {
            s.push(A[n as usize & 63] as char);
        }
    }
    s
}

fn run<T, E>(t: &mut Tally, what: &str, input: &str, f: impl FnOnce() -> Result<T, E>) {
    t.seen += 1;
    if t.seen > 5 && t.seen % t.shard.1 != t.shard.0 {
        return;
    }
    t.calls += 1;
    match catch_unwind(AssertUnwindSafe(f)) {
        Ok(Ok(_)) => t.ok += 1,
        Ok(Err(_)) => t.err += 1,
        Err(_) => {
            t.panics += 1;
            println!("MIRI-PANIC entry={} input={:?}", what, input.chars().take(80).collect::<String>());
        }
    }
}

fn main() {
    std::panic::set_hook(Box::new(|_| {}));
    let args: Vec<String> = std::env::args().collect();
    let shard = (args.get(1).and_then(|s| s.parse().ok()).unwrap_or(0u64), args.get(2).and_then(|s| s.parse().ok()).unwrap_or(1u64).max(1));
    let mut t = Tally { shard, seen: 0, calls: 0, ok: 0, err: 0, panics: 0 };
    let sym = Key::<32>::from(*b"wubbalubbadubdubwubbalubbadubdub");
    let k2 = PasetoSymmetricKey::<V2, Local>::from(sym.clone());
    let k4 = PasetoSymmetricKey::<V4, Local>::from(sym.clone());
    let k1 = PasetoSymmetricKey::<V1, Local>::from(sym.clone());
    let k3 = PasetoSymmetricKey::<V3, Local>::from(sym.clone());
    let edsk = Key::<64>::from(ED_SK);
    let mut pkb = [0u8; 32];
    pkb.copy_from_slice(&ED_SK[32..]);
    let edpk = Key::<32>::from(pkb);
    let sk2 = PasetoAsymmetricPrivateKey::<V2, Public>::from(&edsk);
    let pk2 = PasetoAsymmetricPublicKey::<V2, Public>::from(&edpk);
    let sk4 = PasetoAsymmetricPrivateKey::<V4, Public>::from(&edsk);
    let pk4 = PasetoAsymmetricPublicKey::<V4, Public>::from(&edpk);
    let n32 = Key::<32>::from([0x5a; 32]);
    let msg = "{\"data\":\"miri \u{1F980}\",\"exp\":\"2999-01-01T00:00:00+00:00\"}";

    // authentic tokens (ring-free producers)
    let t2l = Paseto::<V2, Local>::builder().set_payload(Payload::from(msg)).try_encrypt(&k2, &PasetoNonce::<V2, Local>::from(&n32)).expect("v2.local encrypt");
    let t4l = Paseto::<V4, Local>::builder().set_payload(Payload::from(msg)).try_encrypt(&k4, &PasetoNonce::<V4, Local>::from(&n32)).expect("v4.local encrypt");
    let t2p = Paseto::<V2, Public>::builder().set_payload(Payload::from(msg)).try_sign(&sk2).expect("v2.public sign");
    let t4p = Paseto::<V4, Public>::builder().set_payload(Payload::from(msg)).set_implicit_assertion(ImplicitAssertion::from("ia")).try_sign(&sk4).expect("v4.public sign");

    // round trips on the ring-free protocols
    run(&mut t, "v2.local/core", &t2l, || Paseto::<V2, Local>::try_decrypt(&t2l, &k2, None));
    run(&mut t, "v2.public/core", &t2p, || Paseto::<V2, Public>::try_verify(&t2p, &pk2, None));
    run(&mut t, "v4.public/core", &t4p, || Paseto::<V4, Public>::try_verify(&t4p, &pk4, None, ImplicitAssertion::from("ia")));
    run(&mut t, "v2.local/generic", &t2l, || GenericParser::<V2, Local>::default().parse(&t2l, &k2));
    run(&mut t, "v4.public/batteries", &t4p, || PasetoParser::<V4, Public>::default().set_implicit_assertion(ImplicitAssertion::from("ia")).parse(&t4p, &pk4));
    if t.ok != 5 {
        println!("MIRI-PANIC authentic round trips did not all succeed (ok={})", t.ok);
        t.panics += 1;
    }

    // hostile inputs for the fully ring-free entry points
    let mut full: Vec<String> = Vec::new();
    for base in [&t2l, &t2p, &t4p] {
        let chars: Vec<char> = base.chars().collect();
        for cut in (0..chars.len()).step_by(5) {
            full.push(chars[..cut].iter().collect());
        }
        for pos in 0..13.min(chars.len()) {
            let mut c = chars.clone();
            c[pos] = '\u{e9}';
            full.push(c.iter().collect());
        }
        // bit flips in the payload text
        for pos in (12..chars.len()).step_by(11) {
            let mut c = chars.clone();
            c[pos] = if c[pos] == 'A' { 'B' } else { 'A' };
            full.push(c.iter().collect());
        }
    }
    for hdr in ["v2.local.", "v2.public.", "v4.public."] {
        for len in [0usize, 1, 2, 15, 16, 23, 24, 39, 40, 41, 63, 64, 65, 95, 96, 97, 130] {
            full.push(format!("{}{}", hdr, b64(&vec![0xA5u8; len])));
        }
        for body in ["", "A", "A=", "AA==", "+/+/", "\u{1F980}", "AAAA AAAA", "%41", "AAAAA"] {
            full.push(format!("{}{}", hdr, body));
            full.push(format!("{}{}.{}.{}", hdr, body, body, body));
        }
    }
    for s in ["", ".", "..", "...", "v4", "v4.local", "\u{0}", "v2\u{2024}local\u{2024}AAAA", "v2.local\u{e9}.AAAA", "\u{65e5}\u{672c}.\u{8a9e}\u{65e5}\u{672c}\u{8a9e}.\u{65e5}"] {
        full.push(s.to_string());
    }
    // every one-character string over quotes, brackets, separators, white space and controls, and two-character quote pairs
    for c in "\"'`<>()[]{}.,:;=&%+-_/\\ \t\n\r\0Av\u{e9}\u{feff}".chars() {
        full.push(c.to_string());
    }
    for s in ["\"\"", "''", "\" ", " \"", "==", "..", "\u{e9}\u{e9}"] {
        full.push(s.to_string());
    }
    for s in &full {
        run(&mut t, "v2.local/core", s, || Paseto::<V2, Local>::try_decrypt(s, &k2, None));
        run(&mut t, "v2.public/core", s, || Paseto::<V2, Public>::try_verify(s, &pk2, None));
        run(&mut t, "v4.public/core", s, || Paseto::<V4, Public>::try_verify(s, &pk4, None, None));
        run(&mut t, "v2.local/generic", s, || GenericParser::<V2, Local>::default().parse(s, &k2));
        run(&mut t, "v2.public/batteries", s, || PasetoParser::<V2, Public>::default().parse(s, &pk2));
        run(&mut t, "v4.public/generic", s, || GenericParser::<V4, Public>::default().parse(s, &pk4));
    }

    // the ring-using protocols: only inputs that are rejected BEFORE any ring call (3 segments, short or undecodable payload, wrong header)
    let mut pre: Vec<String> = Vec::new();
    for (hdr, min) in [("v1.local.", 80usize), ("v3.local.", 80), ("v4.local.", 64)] {
        for len in [0usize, 1, 31, 32, 33, 47, 48, 63, 79] {
            if len < min {
                pre.push(format!("{}{}", hdr, b64(&vec![0x3Cu8; len])));
            }
        }
        for body in ["", "A", "A=", "+/", "\u{e9}", "AAAAA"] {
            pre.push(format!("{}{}", hdr, body));
        }
        let chars: Vec<char> = t4l.chars().collect();
        for cut in (0..60.min(chars.len())).step_by(4) {
            pre.push(format!("{}{}", hdr, chars[9..9 + cut].iter().collect::<String>()));
        }
    }
    pre.push("v9.local.AAAA".into());
    pre.push("v4.local\u{e9}.AAAA".into());
    for s in &pre {
        run(&mut t, "v1.local/core", s, || Paseto::<V1, Local>::try_decrypt(s, &k1, None));
        run(&mut t, "v3.local/core", s, || Paseto::<V3, Local>::try_decrypt(s, &k3, None, None));
        run(&mut t, "v4.local/core", s, || Paseto::<V4, Local>::try_decrypt(s, &k4, None, None));
        run(&mut t, "v4.local/batteries", s, || PasetoParser::<V4, Local>::default().parse(s, &k4));
    }
    // hostile PAYLOADS inside authentic v2.local tokens (sealed here with the pure-Rust XChaCha20-Poly1305 path; no footer: the
    // footer comparison is ring's CRYPTO_memcmp, which Miri cannot enter): what the
    // JSON layer, the expected-claim comparison and the default exp/nbf validators (time / iso8601 parsing) do with them
    let mut payloads: Vec<String> = Vec::new();
    for ts in [
        "2999-01-01T00:00:00Z", "2999-01-01T00:00:00+00:00", "2001-01-01T00:00:00-23:59", "2999-12-31T23:59:59.999999999+23:59", "9999-12-31T23:59:59-05:00", "0000-01-01T00:00:00Z", "2999-02-30T00:00:00Z",
        "2999-13-01T00:00:00Z", "2999-01-01T24:00:00Z", "2999-01-01T00:00:60Z", "2999-01-01 00:00:00Z", "2999-01-01t00:00:00z", "2999-01-01T00:00Z", "29990101T000000Z", "2999-001T00:00:00Z", "2999-W01-1T00:00:00Z",
        "2999-01-01T00:00:00+0000", "2999-01-01T00:00:00+25:00", "+002999-01-01T00:00:00Z", "2999-01-01T00:00:00.Z", "2999-01-01T00:00:00,5Z", "", " ", "\u{0}", "\u{ff12}\u{ff19}\u{ff19}\u{ff19}-01-01T00:00:00Z", "2999-01-01T00:00:00Z\u{1F980}",
        "99999999999999999999-01-01T00:00:00Z", "2999-01-01T00:00:00.123456789012345678901234567890Z",
    ] {
        payloads.push(serde_json::json!({"exp": ts, "n": 1}).to_string());
        payloads.push(serde_json::json!({"nbf": ts, "exp": "2999-01-01T00:00:00Z"}).to_string());
    }
    for raw in [
        "[]", "\"aud\"", "137", "true", "null", "{}", "{\"exp\":0}", "{\"exp\":null}", "{\"exp\":[\"2999-01-01T00:00:00Z\"]}", "{\"exp\":{\"exp\":\"2999-01-01T00:00:00Z\"}}", "{\"a\":1e400}", "{\"a\":-0.0}", "{\"a\":18446744073709551616}",
        "{\"a\":\"\\ud800\"}", "{\"a\":\"\\u0000\"}", "{\"a\":1,\"a\":2}", "{\"exp\":\"2999-01-01T00:00:00Z\"", "not json", "\u{feff}{}", " {} ",
    ] {
        payloads.push(raw.to_string());
    }
    // empty containers / strings and one-element arrays under the key the configured parser looks at; members NAMED like the
    // time claims inside nested values; the empty member name
    for raw in [
        "{\"aud\":[]}", "{\"aud\":{}}", "{\"aud\":\"\"}", "{\"aud\":[\"customers\"]}", "{\"aud\":[[]]}", "{\"aud\":null}", "{\"\":7,\"aud\":\"customers\"}",
        "{\"exp\":\"2999-01-01T00:00:00Z\",\"previous\":{\"exp\":\"2001-01-01T00:00:00Z\",\"nbf\":\"2999-01-01T00:00:00Z\"}}", "{\"history\":[{\"nbf\":7},{\"exp\":null}],\"aud\":\"customers\"}", "{\"exp\":[]}", "{\"nbf\":{}}",
    ] {
        payloads.push(raw.to_string());
    }
    payloads.push(format!("{{\"a\":{}1{}}}", "[".repeat(200), "]".repeat(200)));
    payloads.push(format!("{{\"a\":\"{}\",\"exp\":\"2999-01-01T00:00:00Z\"}}", "x".repeat(5000)));
    let aud = AudienceClaim::from("customers");
    for (i, pl) in payloads.iter().enumerate() {
        let mut nb = [0u8; 32];
        nb[0] = i as u8;
        let nn = Key::<32>::from(nb);
        let tok = match Paseto::<V2, Local>::builder().set_payload(Payload::from(pl.as_str())).try_encrypt(&k2, &PasetoNonce::<V2, Local>::from(&nn)) {
            Ok(t) => t,
            Err(_) => continue,
        };
        run(&mut t, "v2.local/generic hostile payload", pl, || GenericParser::<V2, Local>::default().parse(&tok, &k2));
        run(&mut t, "v2.local/generic+check_claim hostile payload", pl, || GenericParser::<V2, Local>::default().check_claim(aud.clone()).parse(&tok, &k2));
        run(&mut t, "v2.local/batteries-default hostile payload", pl, || PasetoParser::<V2, Local>::default().parse(&tok, &k2));
    }
    // claim constructors on hostile text (C18's entry points; pure Rust)
    for s in ["", " ", "exp", "Exp", "exp\u{0}", "\u{10069}ss", "2999-01-01T00:00:00Z", "2999-01-01", "2999", "\u{ff12}999-01-01T00:00:00Z", "2999-02-30T00:00:00Z", "-2999-01-01T00:00:00Z", "29990101T000000Z", "2999-01-01T00:00:00.123456789012345678901234567890+23:59", "\u{1F980}", &"9".repeat(400)] {
        run(&mut t, "ExpirationClaim::try_from", s, || ExpirationClaim::try_from(s));
        run(&mut t, "NotBeforeClaim::try_from(String)", s, || NotBeforeClaim::try_from(s.to_string()));
        run(&mut t, "IssuedAtClaim::try_from", s, || IssuedAtClaim::try_from(s));
        run(&mut t, "CustomClaim::try_from", s, || CustomClaim::try_from((s, 1)));
    }
    // hex keys
    for s in ["", "0", "00", "zz", "00ff", "\u{e9}\u{e9}", &"ab".repeat(31), &"ab".repeat(32), &"ab".repeat(33)] {
        run(&mut t, "Key<32>::try_from", s, || Key::<32>::try_from(s));
        run(&mut t, "Key<64>::try_from", s, || Key::<64>::try_from(s));
    }
    println!("MIRI-{} calls={} ok={} err={} panics={}", if t.panics == 0 { "OK" } else { "FAIL" }, t.calls, t.ok, t.err, t.panics);
    std::process::exit(if t.panics == 0 { 0 } else { 1 });
}
